"""C11 -- parquet round trips are lossless for every geometry type.

Correspondence (real library on a scratch directory):
  * to_parquet / read_parquet and DaskGeoDataFrame.to_parquet / read_parquet_dask round trips:
    7 kinds x 5 subtypes x missing / empty elements x sliced / concatenated / taken sources x two
    geometry columns x index kinds x compression x 1..12 partitions x column projections x
    list / glob of two datasets.  Compared: result type, column order, dtype (kind + subtype) per
    column, every geometry element (to_pylist, and the decode of the exported buffers by
    Model/Arrow.v inside Coq), other columns' values, index values and names, partition order.
  * the columns handed to pyarrow by read_parquet (recorded) = Model/ParquetCols.v read_columns
  * dtype names: pandas' registry lookup / str(dtype) = Model/ParquetCols.v parse_dtype / dtype_to_string
  * dask.utils.natural_sort_key = Model/NatSort.v
  * round 4: index / column NAMES that look reserved ('index', 'level_0', '', 'None', dunder spellings that
    are not the placeholders, 'hilbert_distance' as an ordinary column, frame attribute names, non-ASCII);
    the index name read back = Model/ParquetCols.v restore_index_name (inside Coq); non-geometry columns
    and indexes of 30 / 17 other dtype families (datetime64[ns] with sub-microsecond digits, tz-aware, us /
    ms, timedelta, bool, every integer width at its extremes, float16/32/64 specials, nullable, str with
    missing, categorical, period) compared exactly (integers, nanoseconds, binary64 bit patterns);
    pathlib.Path arguments, build_sindex=True, geometry=, bounds= selecting no partition, datasets without
    spatialpandas metadata (Dask's own writer, pandas part files), load_divisions=True over one / two packed
    datasets (against the single reads), arrow -> array constructors (accept / reject), refusals.
pyarrow's byte-level write/read fidelity is validated differentially by these round trips, not proved.
"""
import itertools
import json
import math
import os
import re

import numpy as np

from . import common as C
from . import c11_util as U
from . import geomgen as G

ANCHOR_FILES = ['spatialpandas/io/parquet.py', 'spatialpandas/geometry/base.py',
                'spatialpandas/geometry/baselist.py', 'spatialpandas/geometry/basefixed.py',
                'spatialpandas/geodataframe.py']
TRUSTED = ['pyarrow parquet write/read, compression, row groups, pandas metadata; pandas extension-dtype '
           'registry; Dask from_pandas / to_parquet / from_delayed (validated differentially by the round trips)',
           're / str.lower / str.startswith as transcribed in Model/ParquetCols.v; dask.utils.natural_sort_key '
           'as transcribed in Model/NatSort.v']

PC_IMPORTS = 'Model.ParquetCols'
RC_FN = "fun '(md, ix, cols) => read_columns md ix cols"
RC_CASE = 'list mdcol * list idxdesc * option (list string)'
RC_RES = 'option (list string)'
DT_FN = 'parse_dtype_n'
DT_CASE = 'string'
DT_RES = 'option (N * string)'
TS_FN = "fun '(k, s) => to_string_n k s"
TS_CASE = 'N * string'
TS_RES = 'string'
AR_IMPORTS = 'Model.Num Model.Arrow Spec.BoundsSpec'
LA_FN = ("fun '(a, b) => wf_listarr a && wf_listarr b && nulls_empty a && nulls_empty b && "
         "eqbc (decode_flat a) (decode_flat b)")
FA_FN = "fun '(a, b) => wf_fixarr a && wf_fixarr b && eqbc (fa_decode a) (fa_decode b)"

KIND_ORDER = ['multiline', 'polygon', 'multipolygon', 'line', 'multipoint', 'ring', 'point']

READ_LOG = []
DD_LOG = []
CN_FN = "fun '(has_md, ix, cols) => cols_no_index has_md ix cols"
CN_CASE = 'bool * list idxdesc * option (list string)'
CN_RES = 'option (list string)'


class _Recorder:
    """stands in for pyarrow.parquet.ParquetDataset inside spatialpandas.io.parquet: records the
    pandas metadata and the columns= argument of every read"""
    real = None

    def __init__(self, *a, **k):
        self._ds = _Recorder.real(*a, **k)

    def __getattr__(self, n):
        return getattr(self._ds, n)

    def read(self, columns=None, **k):
        READ_LOG.append((self._ds.schema.pandas_metadata, None if columns is None else list(columns)))
        return self._ds.read(columns=columns, **k)


class recording:
    """OPTIONAL extra (an internal of the implementation, not behaviour the property talks about):
    when spatialpandas.io.parquet happens to hold the names ParquetDataset / dd_read_parquet they are
    wrapped to record the columns handed to pyarrow / Dask; a difference from Model/ParquetCols.v is
    counted, never reported.  When the names are not there the extra is skipped and counted."""
    rep = None

    def __enter__(self):
        self.hooked = []
        try:
            import spatialpandas.io.parquet as m
        except Exception:
            m = None
        self.m = m
        if m is not None and isinstance(getattr(m, 'ParquetDataset', None), type):
            _Recorder.real = m.ParquetDataset
            m.ParquetDataset = _Recorder
            self.hooked.append('ParquetDataset')
        elif recording.rep is not None:
            recording.rep.count('internal-unavailable:parquet.ParquetDataset')
        if m is not None and callable(getattr(m, 'dd_read_parquet', None)):
            self.dd = m.dd_read_parquet

            def dd_rec(path, columns=None, **k):
                DD_LOG.append(None if columns is None else list(columns))
                return self.dd(path, columns=columns, **k)
            m.dd_read_parquet = dd_rec
            self.hooked.append('dd_read_parquet')
        elif recording.rep is not None:
            recording.rep.count('internal-unavailable:parquet.dd_read_parquet')
        return self

    def __exit__(self, *a):
        if 'ParquetDataset' in self.hooked:
            self.m.ParquetDataset = _Recorder.real
        if 'dd_read_parquet' in self.hooked:
            self.m.dd_read_parquet = self.dd


def md_terms(md):
    md = md or {}
    cols = [(C.Some(c['field_name']) if 'field_name' in c and c['field_name'] is not None else None,
             C.Some(str(c['name'])) if c.get('name') is not None else None)
            for c in md.get('columns', [])]
    idx = []
    for d in md.get('index_columns', []):
        if isinstance(d, str):
            idx.append(C.Rec('IdxStr', d))
        elif isinstance(d, dict):
            idx.append(C.Rec('IdxDict', C.Some(d['name']) if d.get('name') is not None else None))
        else:
            idx.append(C.Rec('IdxOther'))
    return cols, idx


class Acc:
    def __init__(self):
        self.rc = ([], [], [])
        self.la = ([], [], [])
        self.fa = ([], [], [])
        self.rc_seen = set()
        self.cn = ([], [], [])
        self.nm = ([], [], [])
        self.nm_seen = set()


def flush_read_log(acc, requested, meta):
    if DD_LOG and READ_LOG:
        # columns handed to Dask's reader for the meta frame (index columns taken out)
        _, idx = md_terms(READ_LOG[0][0])
        for passed in DD_LOG:
            acc.cn[0].append((bool(READ_LOG[0][0]), idx, None if requested is None else C.Some(list(requested))))
            acc.cn[1].append(None if passed is None else C.Some(passed))
            acc.cn[2].append({**meta, 'passed_to_dask': passed})
    DD_LOG.clear()
    for md, passed in READ_LOG:
        cols, idx = md_terms(md)
        case = (cols, idx, None if requested is None else C.Some(list(requested)))
        res = None if passed is None else C.Some(passed)
        key = C.coq(case) + C.coq(res)
        if key in acc.rc_seen:
            continue
        acc.rc_seen.add(key)
        acc.rc[0].append(case)
        acc.rc[1].append(res)
        acc.rc[2].append({**meta, 'index_columns': md.get('index_columns'), 'passed_to_pyarrow': passed})
    READ_LOG.clear()


def index_level_names(df):
    return [n for n in df.index.names if n is not None]


def same_values(a, b):
    """two non-geometry columns / indexes hold the same values (NaN = NaN)"""
    la, lb = list(a), list(b)
    if len(la) != len(lb):
        return False
    for x, y in zip(la, lb):
        if isinstance(x, float) and isinstance(y, float) and math.isnan(x) and math.isnan(y):
            continue
        if isinstance(x, tuple) and isinstance(y, tuple):
            if list(x) != list(y):
                return False
            continue
        if not (x == y):
            return False
    return True


NM_FN = 'restore_index_name'
NM_CASE = 'option string'
NM_RES = 'option string'
_PA_LEVEL = re.compile(r'^__index_level_\d+__$')


def note_index_name(acc, exp, got, meta):
    """the name of a one-level index as read back, to be compared inside Coq with
    Model/ParquetCols.v restore_index_name applied to the name the writer stored (Dask stores an
    unnamed index under its placeholder)"""
    if exp.index.nlevels != 1 or got.index.nlevels != 1:
        return
    w = exp.index.name
    if w is not None and not (isinstance(w, str) and w.isascii() and not _PA_LEVEL.match(w)
                              and w != '__null_dask_index__'):
        return
    stored = C.Some(w) if w is not None else (
        C.Some('__null_dask_index__') if meta.get('path_kind') == 'dask' else None)
    r = got.index.name
    res = None if r is None else C.Some(r if isinstance(r, str) and r.isascii() else repr(r))
    key = (C.coq(stored), C.coq(res), meta.get('path_kind'))
    if key in acc.nm_seen:
        return
    acc.nm_seen.add(key)
    acc.nm[0].append(stored)
    acc.nm[1].append(res)
    acc.nm[2].append({**meta, 'index_name_written': w, 'index_name_read': r})


def decorate_frame(rng, df, cfg):
    """round 4, all driven by cfg (absent keys: the frame is returned as it is): a typed index
    (`index_dtype`), a reserved-looking index name (`index_name`; a list for a MultiIndex), extra
    non-geometry columns of other dtype families (`extras`), columns renamed to reserved-looking
    names (`colnames`)"""
    import pandas as pd
    from spatialpandas import GeoDataFrame
    n = len(df)
    idt = cfg.get('index_dtype')
    if idt and df.index.nlevels == 1:
        name = df.index.name if df.index.name is not None else None
        df.index = pd.Index(U.typed_values(rng, idt, n, 'index'), name=name)
    nm = cfg.get('index_name')
    if nm is not None:
        if df.index.nlevels == 1:
            df.index = df.index.rename(nm if isinstance(nm, str) else nm[0])
        elif not isinstance(nm, str):
            df.index = df.index.set_names(list(nm)[:df.index.nlevels])
    for key in cfg.get('extras') or []:
        if 'x_' + key not in df.columns:
            df.insert(rng.randint(0, len(df.columns)), 'x_' + key, U.typed_values(rng, key, n))
    if cfg.get('colnames'):
        taken = set(df.columns) | set(x for x in df.index.names if x is not None)
        ren = {}
        for a, b in cfg['colnames'].items():       # one after the other: no two columns get the same name
            if a in df.columns and b not in taken:
                ren[a] = b
                taken.add(b)
        if ren:
            df = GeoDataFrame({ren.get(c, c): df[c].array for c in df.columns}, index=df.index)
    return df


def compare_frames(rep, acc, exp, got, proj, meta, want_type):
    """exp: the frame written (rows in the order expected back); got: what was read"""
    from spatialpandas.geometry import GeometryDtype
    path = meta['path_kind']

    def bad(sig, what, **kw):
        rep.violation(f'{sig}:{path}', what, {**meta, **kw})

    from spatialpandas import GeoDataFrame
    if not isinstance(got, GeoDataFrame):
        bad('result-type', f'result is {type(got).__name__}, expected {want_type}')
    idx_names = index_level_names(exp)
    if proj is None:
        exp_cols = list(exp.columns)
    else:
        exp_cols = [c for c in proj if c not in idx_names]
    if list(got.columns) != exp_cols:
        bad('columns', f'columns {list(got.columns)} differ from the requested {exp_cols}')
        return
    if len(got) != len(exp):
        bad('nrows', f'{len(got)} rows read, {len(exp)} written')
        return
    # index
    if list(got.index.names) != list(exp.index.names):
        bad('index-name', f'index names {list(got.index.names)} differ from {list(exp.index.names)}',
            index_kind=meta.get('index_kind'))
    elif not (same_values(got.index, exp.index) if exp.index.nlevels > 1
              else U.exact_list(got.index) == U.exact_list(exp.index)):
        sig = 'index-lost' if proj is not None else 'index-values'
        k = None
        if exp.index.nlevels == 1:
            le, lg = U.exact_list(exp.index), U.exact_list(got.index)
            k = next((i for i in range(len(le)) if le[i] != lg[i]), None)
        bad(sig, f'index {repr(got.index)[:100]} differs from the written {repr(exp.index)[:100]}'
                 + (f' (position {k}: read {lg[k]}, written {le[k]})' if k is not None else ''),
            index_kind=meta.get('index_kind'))
    note_index_name(acc, exp, got, meta)
    for c in exp_cols:
        e, g = exp[c], got[c]
        if isinstance(e.dtype, GeometryDtype):
            if type(g.dtype) is not type(e.dtype) or g.dtype.subtype != e.dtype.subtype or str(g.dtype) != str(e.dtype):
                bad('dtype', f'column {c}: dtype {g.dtype} read, {e.dtype} written', column=c)
                continue
            ea, ga = e.array, g.array
            pe, pg = U.array_pylist(ea), U.array_pylist(ga)
            if pe != pg:
                k = next((i for i in range(len(pe)) if pe[i] != pg[i]), None)
                bad('element', f'column {c} ({e.dtype}): element {k} read as {pg[k]!r}, written {pe[k]!r}',
                    column=c, position=k)
                continue
            # decode of the exported buffers, evaluated by the model
            kind = U.kind_of_dtype(e.dtype)
            try:
                if kind is None or not hasattr(ea, 'data'):
                    raise AttributeError
                if kind == 'point':
                    acc.fa[0].append((C.export_fixarr(ea), C.export_fixarr(ga)))
                    acc.fa[1].append(True)
                    acc.fa[2].append({**meta, 'column': c})
                else:
                    acc.la[0].append((C.export_listarr(ea), C.export_listarr(ga)))
                    acc.la[1].append(True)
                    acc.la[2].append({**meta, 'column': c})
            except ValueError:
                rep.count('decode_skipped_null_typed')
            except AttributeError:
                rep.count('internal-unavailable:array-buffers')
        else:
            le, lg = U.exact_list(e), U.exact_list(g)
            if le != lg:
                k = next((i for i in range(len(le)) if le[i] != lg[i]), None)
                bad('values', f'column {c} ({e.dtype}): row {k} read as {lg[k]}, written {le[k]} '
                              '(integers / nanoseconds / binary64 bit patterns, compared exactly)', column=c)
            elif U.dtype_token(e.dtype) != U.dtype_token(g.dtype) and not (
                    str(e.dtype) in ('object', 'str', 'string') and 'str' in str(g.dtype).lower()):
                bad('payload-dtype', f'column {c}: dtype {U.dtype_token(g.dtype)} read, '
                                     f'{U.dtype_token(e.dtype)} written', column=c)


def projections(rng, df, quick):
    cols = list(df.columns)
    from spatialpandas.geometry import GeometryDtype
    geo = [c for c in cols if isinstance(df[c].dtype, GeometryDtype)]
    import pandas as pd
    # a RangeIndex is stored as a descriptor, not as a column: its name cannot be requested
    idx = [] if isinstance(df.index, pd.RangeIndex) else index_level_names(df)
    out = [None, [geo[0]], list(reversed(cols))]
    sub = [c for c in cols if rng.random() < 0.6 or c == geo[-1]]
    rng.shuffle(sub)
    out.append(sub)
    if idx:
        # request the index column explicitly (in the middle / first)
        out.append([geo[0], idx[0]] + [c for c in cols if c not in (geo[0],)][:1])
        out.append([idx[-1], geo[-1]])
    if quick:
        return [out[0]] + rng.sample(out[1:], min(2, len(out) - 1))
    return out


def geom_cols(rng, kinds, subtypes):
    names = ['ga', 'gb', 'gc']
    return [(names[i], k, s) for i, (k, s) in enumerate(zip(kinds, subtypes))]


def pandas_roundtrip(rep, acc, sc, cfg):
    import random
    from spatialpandas.io import read_parquet, to_parquet
    rng = random.Random(cfg['seed'])
    df, desc = U.make_frame(rng, cfg['nrows'], geom_cols(rng, cfg['kinds'], cfg['subtypes']),
                            index_kind=cfg['index_kind'], derive_steps=cfg['derive'], nan_p=cfg['nan_p'])
    df = decorate_frame(rng, df, cfg)
    path = sc.new('f') + '.parq'
    meta = {'stream': 'roundtrip', 'path_kind': 'pandas', 'cfg': cfg, 'index_kind': cfg['index_kind']}
    try:
        kw = {'row_group_size': cfg['row_group_size']} if cfg.get('row_group_size') else {}
        to_parquet(df, path, compression=cfg['compression'], **kw)
    except Exception as e:
        rep.violation('write-raises:pandas:' + type(e).__name__, f'to_parquet raised {e!r}'[:300], meta)
        return
    for proj in (cfg.get('projections') or projections(rng, df, cfg['quick'] and not cfg.get('colnames'))):
        m = {**meta, 'columns': proj}
        READ_LOG.clear()
        try:
            got = read_parquet(path, columns=proj)
        except Exception as e:
            rep.violation('read-raises:pandas:' + type(e).__name__, f'read_parquet raised {e!r}'[:300], m)
            continue
        flush_read_log(acc, proj, m)
        compare_frames(rep, acc, df, got, proj, m, 'GeoDataFrame')
        rep.evaluations += 1
        rep.count(f'pandas:{cfg["index_kind"]}:{"all" if proj is None else "proj"}')
        rep.nontrivial(('pandas', json.dumps(cfg, sort_keys=True, default=str), str(proj)))
    os.remove(path)


def dask_roundtrip(rep, acc, sc, cfg):
    import random
    import dask.dataframe as dd
    from spatialpandas.io import read_parquet_dask
    rng = random.Random(cfg['seed'])
    meta = {'stream': 'roundtrip', 'path_kind': 'dask', 'cfg': cfg, 'index_kind': cfg['index_kind']}
    frames, paths, written = [], [], []
    nds = cfg.get('ndatasets', 1)
    # several datasets: directory names whose sorted order is NOT the order they are given in
    # (b before a, a nested directory with a number in its path that sorts first)
    names = ['ds'] if nds == 1 else ['ds_b_west', 'ds_a_east', os.path.join('dr_nest', 'in.2', 'c_mid')][:nds]
    nparts = [cfg['npartitions']] if nds == 1 else \
        [max(2, cfg['npartitions']), cfg.get('npartitions2', 11), 2][:nds]
    for j in range(nds):
        df, desc = U.make_frame(rng, max(cfg['nrows'], nparts[j]), geom_cols(rng, cfg['kinds'], cfg['subtypes']),
                                index_kind=cfg['index_kind'], derive_steps=cfg['derive'], nan_p=cfg['nan_p'])
        df = decorate_frame(rng, df, cfg)
        if j:
            df = df[list(frames[0].columns)]
            df['v'] = df['v'] + 5000 * j
        ddf = dd.from_pandas(df, npartitions=nparts[j], sort=cfg['sort'])
        path = os.path.join(sc.dir, names[j])
        try:
            ddf.to_parquet(path, compression=cfg['compression'])
        except Exception as e:
            rep.violation('write-raises:dask:' + type(e).__name__, f'DaskGeoDataFrame.to_parquet raised {e!r}'[:300], meta)
            return
        frames.append(df)
        paths.append(path)
        written.append(ddf)
    import pandas as pd
    parts_by_ds = [[w.partitions[i].compute() for i in range(w.npartitions)] for w in written]
    projs = cfg.get('projections') or projections(rng, frames[0], cfg['quick'] and not cfg.get('colnames'))
    single_file = None
    from pathlib import Path
    from spatialpandas.geometry import GeometryDtype
    variant = cfg.get('variant')
    geo_cols = [c for c in frames[0].columns if isinstance(frames[0][c].dtype, GeometryDtype)]
    if nds == 1:
        arg_list = [('single', paths[0], [0], projs, {})]
        if len(parts_by_ds[0]) >= 2:
            # one part file read on its own: exactly one piece
            jf = rng.randrange(len(parts_by_ds[0]))
            single_file = (os.path.join(paths[0], f'part.{jf}.parquet'), jf)
        if variant == 'pathlib':
            arg_list.append(('single-pathlib', Path(paths[0]), [0], projs[:2], {}))
        elif variant == 'sindex':
            arg_list.append(('single-sindex', paths[0], [0], projs[:2], {'build_sindex': True}))
        elif variant == 'geometry':
            gname = geo_cols[-1]
            arg_list.append(('single-geometry', paths[0], [0], [None, [gname, 'v'], ['v', geo_cols[0], gname]],
                             {'geometry': gname}))
    else:
        given = list(range(nds))
        rev = given[::-1]
        by_path = sorted(range(min(nds, 2)), key=lambda i: paths[i])     # the glob sees ds_a_east, ds_b_west
        arg_list = [('list', [paths[i] for i in given], given, projs, {}),
                    ('list-reversed', [paths[i] for i in rev], rev, projs[:2], {}),
                    ('glob', os.path.join(sc.dir, 'ds_*'), by_path, projs[:1], {})]
        if nds == 3:
            rot = [2, 0, 1]
            arg_list.append(('list-rotated', [paths[i] for i in rot], rot, projs[:1], {}))
        if variant == 'pathlib':
            arg_list.append(('list-pathlib', [Path(paths[i]) for i in rev], rev, projs[:1], {}))
        elif variant == 'sindex':
            arg_list.append(('list-sindex', [paths[i] for i in given], given, projs[:1], {'build_sindex': True}))
        elif variant == 'geometry':
            arg_list.append(('list-geometry', [paths[i] for i in given], given, [None], {'geometry': geo_cols[-1]}))
    if single_file is not None and os.path.exists(single_file[0]):
        arg_list.append(('single-file', single_file[0], None, projs[:1], {}))
        if variant == 'pathlib':
            arg_list.append(('single-file', Path(single_file[0]), None, projs[:1], {}))
    if variant == 'nosel':
        none_selected(rep, acc, cfg, meta, paths if nds > 1 else paths[0], frames[0], projs[:2], rng)
    for how, arg, order, hprojs, kw in arg_list:
        # rows come back dataset by dataset in the order the paths were GIVEN (glob: expansion order),
        # inside a dataset in part-number order, inside a part in stored order
        if how == 'single-file':
            parts, order = [parts_by_ds[0][single_file[1]]], [0]
        else:
            parts = [p for i in order for p in parts_by_ds[i]]
        exp = pd.concat(parts) if len(parts) > 1 else parts[0]
        for proj in hprojs:
            m = {**meta, 'columns': proj, 'how': how, 'dataset_order': order,
                 'dataset_dirs': [names[i] for i in order], 'read_kwargs': kw,
                 'path_argument': type(arg[0] if isinstance(arg, list) else arg).__name__}
            READ_LOG.clear()
            DD_LOG.clear()
            try:
                r = read_parquet_dask(arg, columns=proj, **kw)
                got = r.compute()
            except Exception as e:
                rep.violation('read-raises:dask:' + type(e).__name__, f'read_parquet_dask raised {e!r}'[:300], m)
                continue
            flush_read_log(acc, proj, m)
            from spatialpandas.dask import DaskGeoDataFrame
            if not isinstance(r, DaskGeoDataFrame):
                rep.violation('result-type:dask', f'result is {type(r).__name__}', m)
            if r.npartitions != len(parts):
                rep.violation('npartitions:dask', f'{r.npartitions} partitions read, {len(parts)} written', m)
            elif len(parts) > 1:
                # partition order (numeric, not textual, for >= 11 parts; datasets in the given order)
                js = {0, len(parts) - 1, rng.randrange(len(parts)), min(2, len(parts) - 1), min(10, len(parts) - 1)}
                for j in sorted(js):
                    pj = list(r.partitions[j].compute()['v']) if (proj is None or 'v' in proj) else None
                    if pj is not None and pj != list(parts[j]['v']):
                        rep.violation('partition-order:dask',
                                      f'{how}: partition {j} of {len(parts)} read holds rows {pj[:6]}, expected '
                                      f'{list(parts[j]["v"])[:6]} (datasets given as {[names[i] for i in order]})',
                                      {**m, 'partition': j})
                        break
            if list(r.columns) != list(got.columns):
                rep.violation('meta-columns:dask', f'meta columns {list(r.columns)} differ from the computed {list(got.columns)}', m)
            if (proj is None or 'v' in proj) and list(got['v']) != list(exp['v']) \
                    and sorted(got['v']) == sorted(exp['v']) and len(parts) == 1:
                rep.violation('row-order:dask',
                              f'{how}: the rows of a one-piece read come back in another order than stored '
                              f'(index {cfg["index_kind"]})',
                              {**m, 'read_v': [int(x) for x in got['v']][:40], 'expected_v': [int(x) for x in exp['v']][:40],
                               'read_index': [str(x) for x in got.index][:40]})
            elif (proj is None or 'v' in proj) and list(got['v']) != list(exp['v']) \
                    and sorted(got['v']) == sorted(exp['v']):
                rep.violation('dataset-order:dask',
                              f'{how}: rows are not the concatenation of the datasets in the order given '
                              f'{[names[i] for i in order]}',
                              {**m, 'read_v': [int(x) for x in got['v']][:40], 'expected_v': [int(x) for x in exp['v']][:40]})
            else:
                compare_frames(rep, acc, exp, got, proj, m, 'GeoDataFrame')
            rep.evaluations += 1
            rep.count(f'dask:{how}:{len(parts)}parts')
            rep.count(f'dask:{cfg["index_kind"]}:{"all" if proj is None else "proj"}')
            if len(parts) == 1 and len(exp) > 1 and not (exp.index.is_monotonic_increasing):
                rep.count('dask:one-piece-nonmonotonic-index')
            if nds > 1 and order != sorted(order, key=lambda i: paths[i]):
                rep.count('dask:list-not-in-path-order')
            rep.nontrivial(('dask', json.dumps(cfg, sort_keys=True, default=str), how, str(proj)))


# --------------------------------------------------------------------------
# further ways into the same readers (round 4)
# --------------------------------------------------------------------------
def none_selected(rep, acc, cfg, meta, arg, frame, projs, rng):
    """bounds= far away from every geometry: no partition is selected; what comes back is an empty
    frame of the geo type with exactly the requested columns, their dtypes and the index name"""
    from spatialpandas import GeoDataFrame
    from spatialpandas.dask import DaskGeoDataFrame
    from spatialpandas.geometry import GeometryDtype
    from spatialpandas.io import read_parquet_dask
    box = (1.0e6, 1.0e6, 2.0e6, 3.0e6)
    if rng.random() < 0.5:
        box = (box[2], box[3], box[0], box[1])         # corners given the other way round
    idx_names = index_level_names(frame)
    for proj in projs:
        m = {**meta, 'columns': proj, 'how': 'no-partition-selected', 'read_kwargs': {'bounds': list(box)}}
        try:
            r = read_parquet_dask(arg, columns=proj, bounds=box)
            got = r.compute()
        except Exception as e:
            rep.violation('read-raises:dask:' + type(e).__name__,
                          f'read_parquet_dask(bounds=<box touching nothing>) raised {e!r}'[:300], m)
            continue
        rep.evaluations += 1
        rep.count('dask:no-partition-selected')
        rep.nontrivial(('nosel', json.dumps(cfg, sort_keys=True, default=str), str(proj)))
        exp_cols = list(frame.columns) if proj is None else [c for c in proj if c not in idx_names]
        if not isinstance(r, DaskGeoDataFrame) or not isinstance(got, GeoDataFrame):
            rep.violation('result-type:dask', f'result is {type(r).__name__} / {type(got).__name__}', m)
        if len(got) != 0:
            rep.violation('nrows:dask', f'{len(got)} rows read through a box that touches no geometry', m)
        elif list(got.columns) != exp_cols or list(r.columns) != exp_cols:
            rep.violation('columns:dask', f'empty selection: columns {list(got.columns)} (meta {list(r.columns)}) '
                                          f'differ from the requested {exp_cols}', m)
        else:
            for c in exp_cols:
                e, g = frame[c].dtype, got[c].dtype
                # (the categories of a categorical are data: an empty frame need not know them)
                if str(e) != str(g) and not (
                        str(e) in ('object', 'str', 'string') and 'str' in str(g).lower()):
                    rep.violation('dtype:dask' if isinstance(e, GeometryDtype) else 'payload-dtype:dask',
                                  f'empty selection: column {c} has dtype {g}, written {e}', {**m, 'column': c})
            if list(got.index.names) != list(frame.index.names):
                rep.violation('index-name:dask', f'empty selection: index names {list(got.index.names)} differ '
                                                 f'from {list(frame.index.names)}', m)


def foreign_written(rep, acc, sc, cfg):
    """datasets that carry NO spatialpandas metadata: written by Dask's own to_parquet, and part files
    written one by one with pandas' to_parquet; read alone, together, and next to a dataset written by
    DaskGeoDataFrame.to_parquet.  Rows, dtypes, index must come back as written."""
    import random
    import pandas as pd
    import dask.dataframe as dd
    from pathlib import Path
    from spatialpandas.io import read_parquet_dask
    rng = random.Random(cfg['seed'])
    meta = {'stream': 'foreign', 'path_kind': 'dask', 'cfg': cfg, 'index_kind': cfg['index_kind']}
    gcols = geom_cols(rng, cfg['kinds'], cfg['subtypes'])
    frames, parts = [], []
    for j, k in enumerate(cfg['k']):
        df, _ = U.make_frame(rng, max(cfg['nrows'], k), gcols, index_kind=cfg['index_kind'],
                             derive_steps=cfg['derive'], nan_p=0)
        df = decorate_frame(rng, df, cfg)
        if j:
            df = df[list(frames[0].columns)]
        df['v'] = df['v'] + 5000 * j
        frames.append(df)
        ddf = dd.from_pandas(df, npartitions=k, sort=False)
        parts.append((ddf, [ddf.partitions[i].compute() for i in range(ddf.npartitions)]))
    P = [os.path.join(sc.dir, n) for n in ('w_dask_own', 'a_pandas_files', 'm_spatialpandas')]
    try:
        dd.to_parquet(parts[0][0], P[0], compression=cfg['compression'])
        os.makedirs(P[1])
        for i, part in enumerate(parts[1][1]):
            pd.DataFrame.to_parquet(part, os.path.join(P[1], f'part.{i}.parquet'), compression=cfg['compression'])
        parts[2][0].to_parquet(P[2], compression=cfg['compression'])
    except Exception as e:
        rep.violation('write-raises:dask:' + type(e).__name__, f'writing raised {e!r}'[:300], meta)
        return
    projs = cfg.get('projections') or projections(rng, frames[0], True)
    reads = [('dask-own-writer', P[0], [0]), ('pandas-part-files', P[1], [1]),
             ('foreign-list', [P[0], P[1]], [0, 1]), ('foreign-and-spatialpandas', [P[2], P[1], P[0]], [2, 1, 0]),
             ('pandas-part-files-pathlib', Path(P[1]), [1])]
    for how, arg, order in reads:
        ps = [p for i in order for p in parts[i][1]]
        exp = pd.concat(ps) if len(ps) > 1 else ps[0]
        for proj in (projs if how != 'foreign-and-spatialpandas' else projs[:1]):
            m = {**meta, 'columns': proj, 'how': how}
            try:
                r = read_parquet_dask(arg, columns=proj)
                got = r.compute()
            except Exception as e:
                rep.violation('read-raises:dask:' + type(e).__name__,
                              f'{how}: read_parquet_dask raised {e!r}'[:300], m)
                continue
            rep.evaluations += 1
            rep.count('foreign:' + how)
            rep.nontrivial(('foreign', cfg['seed'], how, str(proj)))
            if r.npartitions != len(ps):
                rep.violation('npartitions:dask', f'{how}: {r.npartitions} partitions read, {len(ps)} written', m)
            if list(r.columns) != list(got.columns):
                rep.violation('meta-columns:dask', f'{how}: meta columns {list(r.columns)} differ from the computed '
                                                   f'{list(got.columns)}', m)
            compare_frames(rep, acc, exp, got, proj, m, 'GeoDataFrame')


def packed_divisions(rep, acc, sc, cfg):
    """load_divisions=True over one and over two datasets written by pack_partitions_to_parquet: the
    divisions of the list are those of the single reads put one after the other (or ValueError when that
    sequence is not sorted), the rows are the rows of the single reads in the order given."""
    import random
    import pandas as pd
    import dask.dataframe as dd
    from spatialpandas.io import read_parquet_dask
    rng = random.Random(cfg['seed'])
    meta = {'stream': 'divisions', 'path_kind': 'dask', 'cfg': cfg, 'index_kind': 'hilbert_distance'}
    gcols = geom_cols(rng, cfg['kinds'], cfg['subtypes'])
    P, single = [], []
    unavailable = None
    for j, k in enumerate(cfg['k']):
        df, _ = U.make_frame(rng, 4 * k + j, gcols, index_kind='range', derive_steps=0, nan_p=0)
        df = df[sorted(df.columns)]
        df['v'] = df['v'] + 5000 * j
        path = os.path.join(sc.dir, f'packed_{j}')
        m = {**meta, 'how': f'packed dataset {j} alone', 'columns': None}
        try:
            dd.from_pandas(df, npartitions=2).pack_partitions_to_parquet(path, npartitions=k, p=cfg['p'])
            plain = read_parquet_dask(path).compute()
        except Exception as e:
            rep.violation('read-raises:dask:' + type(e).__name__,
                          f'pack_partitions_to_parquet / read_parquet_dask raised {e!r}'[:300], m)
            return
        P.append(path)
        try:
            r = read_parquet_dask(path, load_divisions=True)
            got = r.compute()
        except Exception as e:
            # load_divisions=True cannot be served at all for this dataset (the installed pyarrow's
            # ParquetDataset has no row-group statistics to offer): the property says nothing about
            # divisions; counted, and the list read below must then fail in the same way
            rep.evaluations += 1
            rep.count('load_divisions:unavailable:' + type(e).__name__)
            unavailable = type(e)
            continue
        rep.evaluations += 1
        rep.count('divisions:single')
        if sorted(int(x) for x in got['v']) != sorted(int(x) for x in df['v']):
            rep.violation('nrows:dask', f'{len(got)} rows read with load_divisions=True, {len(df)} written', m)
            return
        divs = list(r.divisions)
        if any(d is None for d in divs) or len(divs) != r.npartitions + 1:
            rep.violation('divisions:dask', f'load_divisions=True gave divisions {divs} for {r.npartitions} partitions', m)
            return
        # what the divisions promise: partition i holds index values in [d_i, d_i+1] (last one closed)
        for i in range(r.npartitions):
            ix = list(r.partitions[i].compute().index)
            if ix and not (divs[i] <= min(ix) and max(ix) <= divs[i + 1]):
                rep.violation('divisions:dask', f'partition {i} holds index values {min(ix)}..{max(ix)} outside its '
                                                f'divisions [{divs[i]}, {divs[i + 1]}]', {**m, 'partition': i})
                return
        compare_frames(rep, acc, plain, got, None, m, 'GeoDataFrame')
        single.append((divs, got))
    if unavailable is not None:
        m = {**meta, 'how': 'packed datasets [0, 1]', 'columns': None}
        try:
            r = read_parquet_dask(P, load_divisions=True)
            rep.violation('divisions:dask', 'load_divisions=True is served for a list of two datasets '
                                            f'({list(r.divisions)}) but raises {unavailable.__name__} for each of them alone', m)
        except Exception as e:
            rep.evaluations += 1
            rep.count('load_divisions:unavailable:list:' + type(e).__name__)
            if type(e) is not unavailable:
                rep.violation('read-raises:dask:' + type(e).__name__,
                              f'read_parquet_dask([two packed datasets], load_divisions=True) raised {e!r}, each alone '
                              f'raises {unavailable.__name__}'[:300], m)
        # the same list without divisions is an ordinary round trip
        try:
            exp = pd.concat([read_parquet_dask(x).compute() for x in P])
            got = read_parquet_dask(P).compute()
            rep.evaluations += 1
            compare_frames(rep, acc, exp, got, None, m, 'GeoDataFrame')
        except Exception as e:
            rep.violation('read-raises:dask:' + type(e).__name__,
                          f'read_parquet_dask([two packed datasets]) raised {e!r}'[:300], m)
        return
    for order in ([0, 1], [1, 0]):
        mins = [d for i in order for d in single[i][0][:-1]]
        want = mins + [single[order[-1]][0][-1]]
        ok = want == sorted(want)
        m = {**meta, 'how': f'packed datasets {order}', 'columns': None, 'expected_divisions': want}
        exp = pd.concat([single[i][1] for i in order])
        try:
            r = read_parquet_dask([P[i] for i in order], load_divisions=True)
            got = r.compute()
            out = 'ok'
        except ValueError as e:
            out = 'ValueError'
        except Exception as e:
            rep.violation('read-raises:dask:' + type(e).__name__,
                          f'read_parquet_dask([two packed datasets], load_divisions=True) raised {e!r}'[:300], m)
            continue
        rep.evaluations += 1
        rep.count('divisions:list:' + ('sorted' if ok else 'unsorted'))
        rep.nontrivial(('divisions', cfg['seed'], str(order)))
        if ok and out != 'ok':
            rep.violation('divisions-refused:dask', f'divisions {want} are sorted, yet load_divisions=True raised ValueError', m)
        elif not ok and out == 'ok':
            rep.violation('divisions-unsorted:dask', f'a frame with the unsorted divisions {list(r.divisions)} was returned '
                                                     f'(single reads give {want})', m)
        elif ok:
            if list(r.divisions) != want:
                rep.violation('divisions:dask', f'divisions {list(r.divisions)} differ from those of the single reads {want}', m)
            compare_frames(rep, acc, exp, got, None, m, 'GeoDataFrame')


def refusals(rep, sc):
    """calls that cannot be a round trip are refused with the documented exception class instead of
    writing / returning something: an empty list of paths, a path that does not exist (str and
    pathlib.Path), to_parquet_dask on a frame that is not a DaskGeoDataFrame"""
    from pathlib import Path
    from spatialpandas import GeoDataFrame
    from spatialpandas.geometry import PointArray
    from spatialpandas.io import read_parquet_dask, to_parquet_dask
    missing = os.path.join(sc.dir, 'no_such_dataset')
    plain = GeoDataFrame({'g': PointArray([[0, 0], [1, 2]]), 'v': [1, 2]})
    out = os.path.join(sc.dir, 'refused_out')
    calls = [('read_parquet_dask([])', lambda: read_parquet_dask([]), ValueError),
             ('read_parquet_dask(<missing str>)', lambda: read_parquet_dask(missing), FileNotFoundError),
             ('read_parquet_dask(<missing Path>)', lambda: read_parquet_dask(Path(missing)), FileNotFoundError),
             ('read_parquet_dask([<missing>])', lambda: read_parquet_dask([missing]), FileNotFoundError),
             ('to_parquet_dask(<GeoDataFrame>)', lambda: to_parquet_dask(plain, out), TypeError)]
    for what, call, want in calls:
        m = {'stream': 'refusals', 'call': what}
        try:
            r = call()
            got = 'returned ' + type(r).__name__
        except Exception as e:
            got = type(e)
        rep.evaluations += 1
        rep.count('refusal:' + (got.__name__ if isinstance(got, type) else 'none'))
        if not (isinstance(got, type) and issubclass(got, want)):
            rep.violation('refusal-differs', f'{what}: {got if isinstance(got, str) else "raised " + got.__name__}, '
                                             f'expected {want.__name__}', m)
    if os.path.exists(out):
        rep.violation('refusal-differs', 'to_parquet_dask(<GeoDataFrame>) left files behind', {'stream': 'refusals'})


def ctor_stream(rep, n):
    """the constructors the parquet reader goes through (arrow array -> geometry array): a well-typed
    arrow (Chunked)Array comes back element for element through __arrow_array__; an arrow array of the
    wrong shape (too few list levels, a non-numeric leaf, an odd number of coordinates, a fixed-size
    array without dtype) is rejected with an exception instead of yielding an array"""
    import pyarrow as pa
    from spatialpandas import geometry as g
    rng = rep.rng
    cls = {'point': g.PointArray, 'multipoint': g.MultiPointArray, 'ring': g.RingArray, 'line': g.LineArray,
           'multiline': g.MultiLineArray, 'polygon': g.PolygonArray, 'multipolygon': g.MultiPolygonArray}
    depth = {'multipoint': 1, 'ring': 1, 'line': 1, 'multiline': 2, 'polygon': 2, 'multipolygon': 3}

    def nest(t, d):
        for _ in range(d):
            t = pa.list_(t)
        return t

    for kind in G.KINDS:
        for st in G.SUBTYPES:
            if kind == 'point':
                continue
            for rnd in range(n):
                els = U.rand_elements(rng, kind, rng.randint(1, 5), st, 0.0)
                typ = nest(pa.from_numpy_dtype(np.dtype(st)), depth[kind])
                arr = pa.array(els, type=typ)
                forms = [('array', arr)]
                if len(els) > 1:
                    c = rng.randint(1, len(els) - 1)
                    forms.append(('chunked', pa.chunked_array([arr[:c], arr[c:]])))
                    forms.append(('sliced', arr[1:]))
                for form, a in forms:
                    m = {'stream': 'ctor', 'kind': kind, 'subtype': st, 'elements': els, 'form': form}
                    want = U.canon((a.combine_chunks() if isinstance(a, pa.ChunkedArray) else a).to_pylist())
                    try:
                        got = cls[kind](a)
                        back = U.array_pylist(got)
                    except Exception as e:
                        rep.violation('ctor-raises:' + type(e).__name__,
                                      f'{cls[kind].__name__}(<arrow {form} of {typ}>) raised {e!r}'[:300], m)
                        continue
                    rep.evaluations += 1
                    rep.count('ctor:accepted')
                    rep.nontrivial(('ctor', kind, st, form, str(els)))
                    if back != want or str(got.dtype) != f'{kind}[{st}]':
                        rep.violation('ctor-element', f'{cls[kind].__name__}(<arrow {form}>) holds {back} ({got.dtype}), '
                                                      f'the arrow array holds {want}', m)
    wrong = []
    for kind in G.KINDS:
        if kind == 'point':
            wrong += [(kind, 'list-of-3', lambda: pa.array([[1.0, 2.0, 3.0]]), None),
                      (kind, 'fixed-size-binary without dtype', lambda: pa.array([b'0123456789abcdef'], type=pa.binary(16)), None),
                      (kind, 'chunked fixed-size-binary without dtype',
                       lambda: pa.chunked_array([pa.array([b'0123456789abcdef'], type=pa.binary(16))]), None)]
            continue
        d = depth[kind]

        def wrap(leaves, levels):
            x = list(leaves)
            for _ in range(levels - 1):
                x = [x]
            return x

        for lv in range(0, d):
            wrong.append((kind, f'{lv} list level(s) instead of {d}',
                          (lambda lv=lv, wrap=wrap: pa.array([1.0, 2.0] if lv == 0 else wrap([1.0, 2.0], lv + 1))), None))
        wrong.append((kind, 'string leaves', (lambda d=d, wrap=wrap: pa.array(wrap(['a', 'b'], d + 1))), None))
        wrong.append((kind, 'bool leaves', (lambda d=d, wrap=wrap: pa.array(wrap([True, False], d + 1))), None))
        wrong.append((kind, 'odd number of coordinates',
                      (lambda d=d, wrap=wrap: pa.array(wrap([1.0, 2.0, 3.0], d + 1))), None))
    wrong.append(('line', 'not an arrow array', lambda: object(), None))
    for kind, what, mk, _ in wrong:
        m = {'stream': 'ctor', 'kind': kind, 'wrong': what}
        try:
            a = mk()
        except Exception:
            continue
        try:
            got = cls[kind](a)
            outcome = 'accepted'
        except (ValueError, TypeError, AttributeError, pa.ArrowException):
            outcome = 'rejected'
        except Exception as e:
            outcome = 'other:' + type(e).__name__
        rep.evaluations += 1
        rep.count('ctor:' + outcome.split(':')[0])
        if outcome != 'rejected':
            rep.violation('ctor-accepts-wrong-type', f'{cls[kind].__name__}(<arrow array: {what}>) -> {outcome}', m)


# --------------------------------------------------------------------------
# histories that reuse a path / a glob pattern within one process
# --------------------------------------------------------------------------
def reuse_history(rep, acc, sc, cfg):
    """write k partitions -> read -> overwrite the SAME path with more, then fewer partitions -> read
    again each time (also through pack_partitions_to_parquet(overwrite=True), whose returned frame is such
    a read); read a glob -> add a dataset matching it -> read the glob again.  Every read must show the
    files as they are now."""
    import random
    import pandas as pd
    import dask.dataframe as dd
    from spatialpandas.io import read_parquet_dask
    rng = random.Random(cfg['seed'])
    meta = {'stream': 'reuse', 'path_kind': 'dask', 'cfg': cfg, 'index_kind': 'named'}
    gcols = geom_cols(rng, cfg['kinds'], cfg['subtypes'])
    step = [0]

    def frame(n, off):
        df, _ = U.make_frame(rng, n, gcols, index_kind='named', derive_steps=0, nan_p=0)
        df = df[sorted(df.columns)]
        df['v'] = df['v'] + off
        return df

    def write(df, path, nparts, **kw):
        ddf = dd.from_pandas(df, npartitions=nparts, sort=False)
        ddf.to_parquet(path, **kw)
        return [ddf.partitions[i].compute() for i in range(ddf.npartitions)]

    def read_check(arg, parts, what):
        step[0] += 1
        m = {**meta, 'step': step[0], 'what': what, 'columns': None}
        exp = pd.concat(parts) if len(parts) > 1 else parts[0]
        try:
            r = read_parquet_dask(arg)
            got = r.compute()
        except Exception as e:
            rep.violation('reuse-read-raises:' + type(e).__name__,
                          f'{what}: read_parquet_dask raised {e!r}'[:300], m)
            return
        rep.evaluations += 1
        rep.count('reuse:' + what.split(':')[0])
        rep.nontrivial(('reuse', cfg['seed'], what))
        if r.npartitions != len(parts) or len(got) != len(exp) or list(got['v']) != list(exp['v']):
            rep.violation('reuse-stale:' + what.split(':')[0],
                          f'{what}: {r.npartitions} partitions / {len(got)} rows read, the files now hold '
                          f'{len(parts)} partitions / {len(exp)} rows',
                          {**m, 'read_v': [int(x) for x in got['v']][:30], 'expected_v': [int(x) for x in exp['v']][:30]})
            return
        compare_frames(rep, acc, exp, got, None, m, 'GeoDataFrame')

    k0, kmore, kless = cfg['k']
    P = os.path.join(sc.dir, 'reused')
    a = frame(3 * k0, 0)
    read_check(P, write(a, P, k0), f'path-first:{k0}')
    b = frame(2 * kmore, 10000)
    read_check(P, write(b, P, kmore, overwrite=True), f'path-overwritten-more:{k0}->{kmore}')
    c = frame(2 * kless + 1, 20000)
    read_check(P, write(c, P, kless, overwrite=True), f'path-overwritten-fewer:{kmore}->{kless}')
    # pack_partitions_to_parquet(overwrite=True) onto the path read before
    if cfg.get('pack', True):
        step[0] += 1
        m = {**meta, 'step': step[0], 'what': 'pack-overwrite', 'columns': None}
        src = frame(3 * kmore, 30000).reset_index(drop=True)
        try:
            ret = dd.from_pandas(src, npartitions=2).pack_partitions_to_parquet(P, npartitions=kmore, p=6,
                                                                                overwrite=True)
            got = ret.compute()
            nfiles = len([f for f in os.listdir(P) if f.endswith('.parquet')])
            again = read_parquet_dask(P).compute()
        except Exception as e:
            rep.violation('reuse-read-raises:' + type(e).__name__,
                          f'pack_partitions_to_parquet(overwrite=True) on a path read before raised {e!r}'[:300], m)
        else:
            rep.evaluations += 1
            rep.count('reuse:pack-overwrite')
            if ret.npartitions != nfiles or sorted(got['v']) != sorted(src['v']) or list(again['v']) != list(got['v']):
                rep.violation('reuse-stale:pack-overwrite',
                              f'frame returned by pack_partitions_to_parquet(overwrite=True): {ret.npartitions} partitions / '
                              f'{len(got)} rows, the dataset holds {nfiles} part files / {len(src)} rows',
                              {**m, 'returned_v': sorted(int(x) for x in got['v'])[:30]})
            else:
                e2 = src.sort_values('v').reset_index(drop=True)
                g2 = got.sort_values('v').reset_index(drop=True)
                compare_frames(rep, acc, e2, g2, None, m, 'GeoDataFrame')
    # a glob pattern used twice, with a dataset added (and one rewritten) in between
    G = os.path.join(sc.dir, 'gl_*')
    pa_ = write(frame(4, 40000), os.path.join(sc.dir, 'gl_a'), 2)
    read_check(G, pa_, 'glob-first:1 dataset')
    pb_ = write(frame(2 * kmore, 50000), os.path.join(sc.dir, 'gl_b'), kmore)
    read_check(G, pa_ + pb_, 'glob-dataset-added:2 datasets')
    pa2 = write(frame(9, 60000), os.path.join(sc.dir, 'gl_a'), 3, overwrite=True)
    read_check(G, pa2 + pb_, 'glob-dataset-rewritten:2 datasets')
    read_check([os.path.join(sc.dir, 'gl_b'), os.path.join(sc.dir, 'gl_a')], pb_ + pa2, 'list-after-glob:2 datasets')


# --------------------------------------------------------------------------
# dtype names
# --------------------------------------------------------------------------
def dtype_name_cases(rng, n):
    subs = ['float64', 'float32', 'int64', 'int32', 'int16', 'uint8', 'f8', 'float', 'double', 'i2',
            'object', 'str', 'x_1', '', 'float 64', 'bool']
    out = []
    for k in KIND_ORDER:
        out.append(k)
        out.append(k.upper())
        out.append(k + '[')
        out.append(k + ']')
        out.append(k + 's[float64]')
        out.append(k + '[float64]\n')
        out.append(k + '[float64]\n\n')
        out.append(k + '\n')
        out.append(' ' + k + '[float64]')
        for s in subs:
            out.append(f'{k}[{s}]')
            out.append(f'{k.title()}[{s.upper()}]')
            out.append(f'{k}[{s}]x')
            out.append(f'{k}[[{s}]')
    for a, b in itertools.permutations(KIND_ORDER, 2):
        out.append(a + b + '[float64]')
        out.append(a + '[' + b + ']')
    out += ['', '[', 'geometry', 'geometry[float64]', 'multi', 'poly[float64]', 'linestring[float64]', 'int64']
    alpha = 'lineRINGpot[]_164f \n'
    for _ in range(n):
        out.append(''.join(rng.choice(alpha) for _ in range(rng.randint(0, 12))))
        k = rng.choice(KIND_ORDER)
        t = f'{k}[{rng.choice(subs)}]'
        t = ''.join(c.upper() if rng.random() < .3 else c for c in t)
        if rng.random() < .3:
            i = rng.randrange(len(t) + 1)
            t = t[:i] + rng.choice(alpha) + t[i:]
        out.append(t)
    return out


def dtype_name_check(rep, strings):
    import pandas as pd
    from spatialpandas.geometry import GeometryDtype
    cases, ress, metas = [], [], []
    ts_cases, ts_res = [], []
    for s in strings:
        try:
            dt = pd.api.types.pandas_dtype(s)
        except TypeError:
            dt = None
        except Exception as e:
            # numpy's own parser rejects some strings with other exceptions ('6 4x': SyntaxError);
            # that is this library's business only if one of its classes claimed the string
            if any(s.lower().startswith(k) for k in KIND_ORDER):
                rep.violation('dtype-lookup-raises:' + type(e).__name__, f'pandas_dtype({s!r}) raised {e!r}'[:200],
                              {'stream': 'dtype', 'string': s})
                continue
            dt = None
        if dt is not None and not isinstance(dt, GeometryDtype):
            continue  # a numpy / pandas dtype of its own ('int64'): not this library's name space
        low = s.lower()
        if dt is not None:
            k = KIND_ORDER.index(U.kind_of_dtype(dt))
            name = KIND_ORDER[k]
            inner = low[len(name) + 1:].rstrip('\n')[:-1] if low != name else 'float64'
            try:
                agree = np.dtype(inner) == dt.subtype
            except TypeError:
                agree = False
            if not agree:
                rep.violation('dtype-subtype', f'{s!r} gives subtype {dt.subtype}, the name says {inner!r}',
                              {'stream': 'dtype', 'string': s})
            res = C.Some((U.nN(k), inner))
            # and the way back
            ts_cases.append((U.nN(k), dt.subtype.name))
            ts_res.append(str(dt))
            if pd.api.types.pandas_dtype(str(dt)) != dt:
                rep.violation('dtype-roundtrip', f'pandas_dtype(str({dt!r})) differs', {'stream': 'dtype', 'string': s})
        else:
            # rejected: either not a well-formed name (model: None), or a well-formed name whose
            # subtype numpy does not know / is not numeric (model stops at the subtype name)
            res = None
            for k, name in enumerate(KIND_ORDER):
                m = re.match('^' + name + r'\[(?P<subtype>\w+)\]$', low)
                if m:
                    inner = m.group('subtype')
                    try:
                        # a numeric numpy dtype that Arrow can hold (float128 'g' cannot)
                        import pyarrow as pa
                        ok = np.dtype(inner).kind in 'iuf' and pa.from_numpy_dtype(np.dtype(inner)) is not None
                    except Exception:
                        ok = False
                    if ok:
                        rep.violation('dtype-rejected', f'{s!r} is a well-formed dtype name but is rejected',
                                      {'stream': 'dtype', 'string': s})
                    res = C.Some((U.nN(k), inner))
                    break
        cases.append(s)
        ress.append(res)
        metas.append({'stream': 'dtype', 'string': s, 'impl': repr(dt)})
        rep.evaluations += 1
        rep.count('dtype:' + ('accepted' if dt is not None else 'rejected'))
        if dt is not None:
            rep.nontrivial(('dtype', s))
    bad = C.coq_mismatches(PC_IMPORTS, DT_FN, DT_CASE, DT_RES, cases, ress)
    for i in bad[:3]:
        rep.violation('dtype-name-differs', 'dtype-name lookup differs from Model/ParquetCols.v parse_dtype',
                      {**metas[i], 'expected': ress[i],
                       'model': C.coq_eval(PC_IMPORTS, f'{DT_FN} {C.coq(cases[i])}')})
    bad = C.coq_mismatches(PC_IMPORTS, TS_FN, TS_CASE, TS_RES, ts_cases, ts_res)
    for i in bad[:3]:
        rep.violation('dtype-str-differs', 'str(dtype) differs from Model/ParquetCols.v dtype_to_string',
                      {'stream': 'dtype', 'impl': ts_res[i]})


# --------------------------------------------------------------------------
def configs(rep, tier):
    rng = rep.rng
    quick = tier == 'quick'
    pand, dask_ = [], []
    comp = ['snappy', 'gzip', None]
    pidx = U.INDEX_KINDS
    didx = [k for k in U.INDEX_KINDS if not k.startswith('multi')]
    combos = [(k, s) for k in G.KINDS for s in G.SUBTYPES]
    reps = 2 if quick else 12
    i = 0
    for _ in range(reps):
        rng.shuffle(combos)
        for k, s in combos:
            k2, s2 = rng.choice(combos)
            pand.append({'kinds': (k, k2), 'subtypes': (s, s2), 'nrows': rng.choice([1, 2, 5, 9, 14]),
                         'index_kind': pidx[i % len(pidx)], 'derive': i % 2, 'nan_p': rng.choice([0, 0, 0.2]),
                         'compression': comp[i % 3], 'seed': rng.randrange(10 ** 9), 'quick': quick,
                         'row_group_size': 2 if i % 4 == 3 else None})
            i += 1
    nd = 36 if quick else 420
    parts_cycle = [1, 2, 3, 11, 12, 5, 10, 12, 4, 11, 7, 12] if quick else list(range(1, 13))
    for j in range(nd):
        k, s = combos[j % len(combos)]
        k2, s2 = rng.choice(combos)
        npart = parts_cycle[j % len(parts_cycle)]
        dask_.append({'kinds': (k, k2), 'subtypes': (s, s2), 'nrows': npart * rng.randint(1, 3) + rng.randint(0, 2),
                      'npartitions': npart, 'index_kind': didx[j % len(didx)], 'derive': j % 2,
                      'nan_p': rng.choice([0, 0, 0.2]), 'compression': comp[j % 3],
                      'sort': bool(j % 2) and didx[j % len(didx)] not in ('str',),
                      'ndatasets': (2 if j % 12 == 5 else 3) if j % 6 == 5 else 1,
                      'npartitions2': [11, 2, 12, 3][(j // 6) % 4],
                      'seed': rng.randrange(10 ** 9), 'quick': quick})
    # exactly one piece and an index that is not increasing (decreasing, shuffled, non-unique unsorted)
    for t in range(1 if quick else 6):
        for ik in ('decreasing', 'named', 'unnamed', 'nonunique_shuffled'):
            k, s = rng.choice(combos)
            k2, s2 = rng.choice(combos)
            dask_.append({'kinds': (k, k2), 'subtypes': (s, s2), 'nrows': rng.randint(4, 9), 'npartitions': 1,
                          'index_kind': ik, 'derive': t % 2, 'nan_p': 0, 'compression': comp[t % 3], 'sort': False,
                          'ndatasets': 1, 'seed': rng.randrange(10 ** 9), 'quick': quick})
    # round 4: reserved-looking names, other dtype families, other ways into the reader
    names = list(U.RESERVED_NAMES)
    rng.shuffle(names)
    cold = list(U.COL_DTYPES)
    rng.shuffle(cold)
    idxd = list(U.INDEX_DTYPES)
    rng.shuffle(idxd)
    multi_unsafe = ('cat', 'cat_ord', 'dt_tz', 'period')
    cnt = {'n': 0, 'c': 0, 'i': 0, 'v': 0}

    def nxt(pool, key):
        cnt[key] += 1
        return pool[(cnt[key] - 1) % len(pool)]

    # (the index of the configurations above is left as it is: names / typed indexes get runs of their own)
    for t, cfg in enumerate(pand + dask_):
        isdask = 'npartitions' in cfg
        nds = cfg.get('ndatasets', 1)
        ex = [nxt(cold, 'c'), nxt(cold, 'c')]
        if nds > 1:
            ex = [k for k in ex if k not in multi_unsafe]
        cfg['extras'] = ex
        if t % 5 == 3:
            cfg['colnames'] = {'s': nxt(names, 'n'), 'f': nxt(names, 'n'), 'gb': 'geometry'}
        if isdask and t % 2 == 1:
            cfg['variant'] = nxt(['pathlib', 'sindex', 'geometry', 'nosel'], 'v')
    # every reserved-looking name as the index name of a pandas round trip; a dozen of them (always
    # 'index', 'level_0', '') through Dask with 1 / 2 / 3 / 11 partitions
    nkinds = ['named', 'nonunique', 'range_named', 'unnamed', 'decreasing', 'range', 'nonunique_shuffled', 'multi']
    for t, nm in enumerate(names):
        k, s = combos[t % len(combos)]
        k2, s2 = rng.choice(combos)
        ik = nkinds[t % len(nkinds)]
        pand.append({'kinds': (k, k2), 'subtypes': (s, s2), 'nrows': rng.choice([1, 3, 6]), 'index_kind': ik,
                     'derive': t % 2, 'nan_p': 0, 'compression': comp[t % 3], 'seed': rng.randrange(10 ** 9),
                     'quick': quick, 'row_group_size': None, 'extras': [nxt(cold, 'c')],
                     'index_name': [nm, names[(t + 1) % len(names)]] if ik == 'multi' else nm})
    dnames = ['index', 'level_0', ''] + [n for n in names if n not in ('index', 'level_0', '')]
    for t, nm in enumerate(dnames):
        k, s = rng.choice(combos)
        k2, s2 = rng.choice(combos)
        npart = [2, 1, 3, 11][t % 4]
        lite = quick and t >= 12          # the remaining names: one or two partitions, the whole frame only
        if lite:
            npart = 1 + t % 2
        dask_.append({**({'projections': [None]} if lite else {}),
                      'kinds': (k, k2), 'subtypes': (s, s2), 'nrows': npart * 2 + rng.randint(0, 2), 'npartitions': npart,
                      'index_kind': nkinds[(t + t // 7) % 7], 'derive': t % 2, 'nan_p': 0, 'compression': comp[t % 3],
                      'sort': t % 3 == 0, 'ndatasets': 1, 'seed': rng.randrange(10 ** 9), 'quick': True,
                      'extras': [nxt(cold, 'c')], 'index_name': nm})
    # every index dtype family on the pandas path, a third of them per run through Dask
    for t, key in enumerate(idxd):
        k, s = rng.choice(combos)
        k2, s2 = rng.choice(combos)
        base = {'kinds': (k, k2), 'subtypes': (s, s2), 'index_kind': ['named', 'unnamed'][t % 2], 'derive': t % 2,
                'nan_p': 0, 'compression': comp[t % 3], 'quick': True, 'index_dtype': key, 'extras': [nxt(cold, 'c')]}
        pand.append({**base, 'nrows': rng.choice([1, 4, 7]), 'seed': rng.randrange(10 ** 9), 'row_group_size': None})
        if not quick or t < 6:
            npart = [3, 1, 2][t % 3]
            dask_.append({**base, 'nrows': npart * 2 + 1, 'npartitions': npart, 'sort': False, 'ndatasets': 1,
                          'seed': rng.randrange(10 ** 9)})
    # an ordinary (non-index) column that is merely NAMED like the index of a packed dataset, or like a
    # placeholder, requested by name: on every run, both paths, one and several partitions
    for t, (nm, ik, npart) in enumerate([('hilbert_distance', 'range', 1), ('hilbert_distance', 'named', 3),
                                         ('hilbert_distance', 'unnamed', 11), ('index', 'unnamed', 2),
                                         ('level_0', 'range', 2)]):
        k, s = rng.choice(combos)
        k2, s2 = rng.choice(combos)
        base = {'kinds': (k, k2), 'subtypes': (s, s2), 'index_kind': ik, 'derive': t % 2, 'nan_p': 0,
                'compression': comp[t % 3], 'quick': quick, 'colnames': {'s': nm},
                'projections': [[nm, 'ga'], ['gb', 'v', nm, 'f'], None]}
        dask_.append({**base, 'nrows': npart * 2 + 1, 'npartitions': npart, 'sort': False, 'ndatasets': 1,
                      'seed': rng.randrange(10 ** 9), 'variant': 'nosel' if t == 1 else None})
        pand.append({**base, 'nrows': 5, 'seed': rng.randrange(10 ** 9), 'row_group_size': None})
    return pand, dask_


def corpus_entries():
    out = []
    d = os.path.join(C.VERIF, 'corpus', 'C11')
    if os.path.isdir(d):
        for f in sorted(os.listdir(d)):
            if f.endswith('.json'):
                out.append(json.load(open(os.path.join(d, f))))
    return out


def _cfg_from_json(cfg):
    cfg = dict(cfg)
    cfg['kinds'] = tuple(cfg['kinds'])
    cfg['subtypes'] = tuple(cfg['subtypes'])
    return cfg


def finish(rep, acc):
    # optional extras on internals: counted, never a violation by themselves (prepending or appending
    # the index columns, or letting pyarrow restore them, is the implementation's choice; what the
    # property says -- requested columns in order, index restored -- is checked on the result frames)
    for name, (fn, cty, rty), (cases, ress, metas) in (
            ('read_columns', (RC_FN, RC_CASE, RC_RES), acc.rc),
            ('cols_no_index', (CN_FN, CN_CASE, CN_RES), acc.cn)):
        if not cases:
            rep.count(f'internal-unavailable:{name}')
            continue
        bad = C.coq_mismatches(PC_IMPORTS, fn, cty, rty, cases, ress)
        rep.extra[f'internal_{name}_cases'] = len(cases)
        rep.extra[f'internal_{name}_differ_from_model'] = len(bad)
        if bad:
            rep.count(f'internal-differs:{name}', len(bad))
            rep.extra[f'internal_{name}_example'] = C.jsonable({**metas[bad[0]], 'impl': ress[bad[0]]})
    for fn, ty, (cases, ress, metas) in ((LA_FN, 'listarr * listarr', acc.la), (FA_FN, 'fixarr * fixarr', acc.fa)):
        bad = C.coq_mismatches(AR_IMPORTS, fn, ty, 'bool', cases, ress, shard=25)
        for i in bad[:3]:
            rep.violation('decode-differs:' + metas[i]['path_kind'],
                          'the buffers read back do not decode (Model/Arrow.v) to the elements written, or are ill-formed',
                          {**metas[i], 'written_buffers': cases[i][0], 'read_buffers': cases[i][1]})
    cases, ress, metas = acc.nm
    if cases:
        bad = C.coq_mismatches(PC_IMPORTS, NM_FN, NM_CASE, NM_RES, cases, ress)
        for i in bad[:3]:
            rep.violation('index-name-differs:' + metas[i]['path_kind'],
                          f'index written with name {metas[i]["index_name_written"]!r} comes back named '
                          f'{metas[i]["index_name_read"]!r}; Model/ParquetCols.v restore_index_name gives '
                          + C.coq_eval(PC_IMPORTS, f'{NM_FN} {C.coq(cases[i])}'),
                          metas[i])
    rep.extra['index_name_cases'] = len(cases)
    rep.extra['read_columns_cases'] = len(acc.rc[0])
    rep.extra['decode_pairs'] = len(acc.la[0]) + len(acc.fa[0])


def run(rep):
    import dask
    tier = getattr(rep, 'tier_run', rep.tier)
    rep.rule = ('frames of 2 geometry columns (7 kinds x 5 subtypes, missing / empty / NaN-coordinate elements, '
                'plain / sliced / concatenated / taken source arrays) + int, float(NaN) and str payload columns in '
                'shuffled column order; index kinds ' + ', '.join(U.INDEX_KINDS) + ' (MultiIndex on the pandas '
                'path only: Dask has none); compression snappy / gzip / None; row groups of 2 rows in a quarter of the files; Dask: 1..12 partitions, sort / no '
                'sort, one dataset, or two / three datasets (>= 2 partitions each, one with >= 11; directory names whose sorted order differs from the given order, one nested) read as a list in the given, reversed and rotated order and by glob; projections: None, one geometry column, reversed, '
                'random subset in random order, index column requested explicitly.  dtype names: 7 kinds x 16 '
                'subtype spellings x case / bracket / suffix / newline mutations + random strings.  Every round '
                'trip with a distinct (configuration, projection) is non-trivial.  Also: 1-partition datasets and single '
                'part files (exactly one piece) with decreasing / shuffled / non-unique unsorted indexes; histories that '
                'reuse a path (overwrite with more, then fewer partitions; pack_partitions_to_parquet(overwrite=True)) '
                'and a glob pattern (dataset added / rewritten between two reads) within the process.  Round 4: every '
                'second frame carries an index name out of ' + str(len(U.RESERVED_NAMES)) + ' reserved-looking names '
                '(index, level_0, empty / blank, None / nan spellings, dunder spellings that are not the placeholders, '
                'frame attribute names, separators, non-ASCII), every fifth has payload / geometry columns renamed to such '
                'names, a non-index column named hilbert_distance / index / level_0 is requested by name on both paths; '
                'every frame carries two extra non-geometry columns out of ' + str(len(U.COL_DTYPES)) + ' dtype families and '
                'every fourth a typed index out of ' + str(len(U.INDEX_DTYPES)) + ' (datetime64[ns] with sub-microsecond '
                'digits, tz-aware, us / ms, timedelta, bool, int8..uint64 at their extremes, float16/32/64 specials '
                'incl. -0.0 / subnormals / inf / NaN, nullable Int/Float/boolean with NA, str with missing, categorical '
                'with unused categories, period), compared exactly; read variants pathlib.Path / build_sindex=True / '
                'geometry= / bounds= selecting nothing; datasets written by Dask\'s own and pandas\' writer; '
                'load_divisions=True over one / two packed datasets; arrow->array constructors; refusals')
    acc = Acc()
    recording.rep = rep
    import time
    phases = rep.extra.setdefault('phase_seconds', {})
    t_last = [time.time()]

    def lap(name):
        now = time.time()
        phases[name] = round(phases.get(name, 0) + now - t_last[0], 1)
        t_last[0] = now

    with dask.config.set(scheduler='synchronous'), U.Scratch() as sc, recording():
        for ent in corpus_entries():
            cfg = _cfg_from_json(ent['cfg'])
            (pandas_roundtrip if ent['path_kind'] == 'pandas' else dask_roundtrip)(rep, acc, sc, cfg)
        lap('corpus')
        U.natsort_check(rep, U.natsort_cases(rep.rng, 100 if tier == 'quick' else 3000), 'C11')
        dtype_name_check(rep, dtype_name_cases(rep.rng, 150 if tier == 'quick' else 5000))
        lap('natsort+dtype-names')
        pand, dask_ = configs(rep, tier)
        for cfg in pand:
            pandas_roundtrip(rep, acc, sc, cfg)
        lap('pandas')
        for cfg in dask_:
            with U.Scratch() as s2:
                dask_roundtrip(rep, acc, s2, cfg)
        lap('dask')
        for t in range(1 if tier == 'quick' else 8):
            k, s = rep.rng.choice([(k, s) for k in G.KINDS for s in G.SUBTYPES])
            cfg = {'kinds': (k, 'point'), 'subtypes': (s, 'float64'), 'seed': rep.rng.randrange(10 ** 9),
                   'k': [(3, 12, 2), (2, 11, 1), (4, 13, 3)][t % 3], 'pack': t % 2 == 0}
            with U.Scratch() as s2:
                reuse_history(rep, acc, s2, cfg)
        lap('reuse')
        combos = [(k, s) for k in G.KINDS for s in G.SUBTYPES]
        for t in range(2 if tier == 'quick' else 12):
            k, s = rep.rng.choice(combos)
            k2, s2_ = rep.rng.choice(combos)
            cfg = {'kinds': (k, k2), 'subtypes': (s, s2_), 'seed': rep.rng.randrange(10 ** 9), 'nrows': rep.rng.randint(3, 9),
                   'k': [(2, 11, 3), (12, 1, 2), (1, 3, 11)][t % 3], 'index_kind': ['named', 'unnamed', 'range', 'str'][t % 4],
                   'derive': t % 2, 'compression': ['snappy', None, 'gzip'][t % 3],
                   'extras': [U.COL_DTYPES[(7 * t + 1) % 16], 'dt_ns'],
                   'index_name': [None, 'index', 'level_0'][t % 3]}
            with U.Scratch() as s2:
                foreign_written(rep, acc, s2, cfg)
        lap('foreign')
        for t in range(1 if tier == 'quick' else 6):
            k, s = rep.rng.choice(combos)
            cfg = {'kinds': (k, 'point'), 'subtypes': (s, 'float64'), 'seed': rep.rng.randrange(10 ** 9),
                   'k': [(1, 1), (2, 1), (3, 2)][t % 3], 'p': [6, 10, 3][t % 3]}
            with U.Scratch() as s2:
                packed_divisions(rep, acc, s2, cfg)
        lap('divisions')
        ctor_stream(rep, 1 if tier == 'quick' else 6)
        refusals(rep, sc)
        lap('ctor')
    finish(rep, acc)
    lap('coq')


def replay(rep, rp):
    import dask
    acc = Acc()
    stream = rp.get('stream')
    with dask.config.set(scheduler='synchronous'), U.Scratch() as sc, recording():
        if stream == 'natsort':
            U.natsort_check(rep, [rp['names']], 'C11')
        elif stream == 'dtype':
            dtype_name_check(rep, [rp['string']])
        elif stream == 'reuse':
            reuse_history(rep, acc, sc, _cfg_from_json(rp['cfg']))
        elif stream == 'foreign':
            cfg = _cfg_from_json(rp['cfg'])
            cfg['projections'] = [rp.get('columns')]
            foreign_written(rep, acc, sc, cfg)
        elif stream == 'divisions':
            packed_divisions(rep, acc, sc, _cfg_from_json(rp['cfg']))
        elif stream == 'ctor':
            ctor_stream(rep, 3)
        elif stream == 'refusals':
            refusals(rep, sc)
        else:
            cfg = _cfg_from_json(rp['cfg'])
            cfg['projections'] = [rp.get('columns')]
            (pandas_roundtrip if rp['path_kind'] == 'pandas' else dask_roundtrip)(rep, acc, sc, cfg)
    finish(rep, acc)
    for v in rep.violations:
        print('still:', v['signature'], v['what'])
    return not rep.violations
