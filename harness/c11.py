"""C11 -- parquet round trips are lossless for every geometry type.

Correspondence (real library on a scratch directory):
  * to_parquet / read_parquet and DaskGeoDataFrame.to_parquet / read_parquet_dask round trips:
    7 kinds x 5 subtypes x missing / empty elements x sliced / concatenated / taken sources x two
    geometry columns x index kinds x compression x 1..12 partitions x column projections x
    list / glob of two datasets.  Compared: result type, column order, dtype (kind + subtype) per
    column, every geometry element (to_pylist, and the decode of the exported buffers by
    Model/Arrow.v inside Coq), other columns' values, index values and names, partition order.
  * the columns handed to pyarrow by read_parquet (recorded) = Model/ParquetCols.v read_columns
  * dtype names: pandas' registry lookup / str(dtype) = Model/ParquetCols.v parse_dtype / dtype_to_string
  * dask.utils.natural_sort_key = Model/NatSort.v
pyarrow's byte-level write/read fidelity is validated differentially by these round trips, not proved.
"""
import itertools
import json
import math
import os
import re

import numpy as np

from . import common as C
from . import c11_util as U
from . import geomgen as G

ANCHOR_FILES = ['spatialpandas/io/parquet.py', 'spatialpandas/geometry/base.py',
                'spatialpandas/geometry/baselist.py', 'spatialpandas/geometry/basefixed.py',
                'spatialpandas/geodataframe.py']
TRUSTED = ['pyarrow parquet write/read, compression, row groups, pandas metadata; pandas extension-dtype '
           'registry; Dask from_pandas / to_parquet / from_delayed (validated differentially by the round trips)',
           're / str.lower / str.startswith as transcribed in Model/ParquetCols.v; dask.utils.natural_sort_key '
           'as transcribed in Model/NatSort.v']

PC_IMPORTS = 'Model.ParquetCols'
RC_FN = "fun '(md, ix, cols) => read_columns md ix cols"
RC_CASE = 'list mdcol * list idxdesc * option (list string)'
RC_RES = 'option (list string)'
DT_FN = 'parse_dtype_n'
DT_CASE = 'string'
DT_RES = 'option (N * string)'
TS_FN = "fun '(k, s) => to_string_n k s"
TS_CASE = 'N * string'
TS_RES = 'string'
AR_IMPORTS = 'Model.Num Model.Arrow Spec.BoundsSpec'
LA_FN = ("fun '(a, b) => wf_listarr a && wf_listarr b && nulls_empty a && nulls_empty b && "
         "eqbc (decode_flat a) (decode_flat b)")
FA_FN = "fun '(a, b) => wf_fixarr a && wf_fixarr b && eqbc (fa_decode a) (fa_decode b)"

KIND_ORDER = ['multiline', 'polygon', 'multipolygon', 'line', 'multipoint', 'ring', 'point']

READ_LOG = []
DD_LOG = []
CN_FN = "fun '(ix, cols) => cols_no_index ix cols"
CN_CASE = 'list idxdesc * option (list string)'
CN_RES = 'option (list string)'


class _Recorder:
    """stands in for pyarrow.parquet.ParquetDataset inside spatialpandas.io.parquet: records the
    pandas metadata and the columns= argument of every read"""
    real = None

    def __init__(self, *a, **k):
        self._ds = _Recorder.real(*a, **k)

    def __getattr__(self, n):
        return getattr(self._ds, n)

    def read(self, columns=None, **k):
        READ_LOG.append((self._ds.schema.pandas_metadata, None if columns is None else list(columns)))
        return self._ds.read(columns=columns, **k)


class recording:
    """OPTIONAL extra (an internal of the implementation, not behaviour the property talks about):
    when spatialpandas.io.parquet happens to hold the names ParquetDataset / dd_read_parquet they are
    wrapped to record the columns handed to pyarrow / Dask; a difference from Model/ParquetCols.v is
    counted, never reported.  When the names are not there the extra is skipped and counted."""
    rep = None

    def __enter__(self):
        self.hooked = []
        try:
            import spatialpandas.io.parquet as m
        except Exception:
            m = None
        self.m = m
        if m is not None and isinstance(getattr(m, 'ParquetDataset', None), type):
            _Recorder.real = m.ParquetDataset
            m.ParquetDataset = _Recorder
            self.hooked.append('ParquetDataset')
        elif recording.rep is not None:
            recording.rep.count('internal-unavailable:parquet.ParquetDataset')
        if m is not None and callable(getattr(m, 'dd_read_parquet', None)):
            self.dd = m.dd_read_parquet

            def dd_rec(path, columns=None, **k):
                DD_LOG.append(None if columns is None else list(columns))
                return self.dd(path, columns=columns, **k)
            m.dd_read_parquet = dd_rec
            self.hooked.append('dd_read_parquet')
        elif recording.rep is not None:
            recording.rep.count('internal-unavailable:parquet.dd_read_parquet')
        return self

    def __exit__(self, *a):
        if 'ParquetDataset' in self.hooked:
            self.m.ParquetDataset = _Recorder.real
        if 'dd_read_parquet' in self.hooked:
            self.m.dd_read_parquet = self.dd


def md_terms(md):
    cols = [(C.Some(c['field_name']) if 'field_name' in c and c['field_name'] is not None else None,
             C.Some(str(c['name'])) if c.get('name') is not None else None)
            for c in md.get('columns', [])]
    idx = []
    for d in md.get('index_columns', []):
        if isinstance(d, str):
            idx.append(C.Rec('IdxStr', d))
        elif isinstance(d, dict):
            idx.append(C.Rec('IdxDict', C.Some(d['name']) if d.get('name') is not None else None))
        else:
            idx.append(C.Rec('IdxOther'))
    return cols, idx


class Acc:
    def __init__(self):
        self.rc = ([], [], [])
        self.la = ([], [], [])
        self.fa = ([], [], [])
        self.rc_seen = set()
        self.cn = ([], [], [])


def flush_read_log(acc, requested, meta):
    if DD_LOG and READ_LOG:
        # columns handed to Dask's reader for the meta frame (index columns taken out)
        _, idx = md_terms(READ_LOG[0][0])
        for passed in DD_LOG:
            acc.cn[0].append((idx, None if requested is None else C.Some(list(requested))))
            acc.cn[1].append(None if passed is None else C.Some(passed))
            acc.cn[2].append({**meta, 'passed_to_dask': passed})
    DD_LOG.clear()
    for md, passed in READ_LOG:
        cols, idx = md_terms(md)
        case = (cols, idx, None if requested is None else C.Some(list(requested)))
        res = None if passed is None else C.Some(passed)
        key = C.coq(case) + C.coq(res)
        if key in acc.rc_seen:
            continue
        acc.rc_seen.add(key)
        acc.rc[0].append(case)
        acc.rc[1].append(res)
        acc.rc[2].append({**meta, 'index_columns': md.get('index_columns'), 'passed_to_pyarrow': passed})
    READ_LOG.clear()


def index_level_names(df):
    return [n for n in df.index.names if n is not None]


def same_values(a, b):
    """two non-geometry columns / indexes hold the same values (NaN = NaN)"""
    la, lb = list(a), list(b)
    if len(la) != len(lb):
        return False
    for x, y in zip(la, lb):
        if isinstance(x, float) and isinstance(y, float) and math.isnan(x) and math.isnan(y):
            continue
        if isinstance(x, tuple) and isinstance(y, tuple):
            if list(x) != list(y):
                return False
            continue
        if not (x == y):
            return False
    return True


def compare_frames(rep, acc, exp, got, proj, meta, want_type):
    """exp: the frame written (rows in the order expected back); got: what was read"""
    from spatialpandas.geometry import GeometryDtype
    path = meta['path_kind']

    def bad(sig, what, **kw):
        rep.violation(f'{sig}:{path}', what, {**meta, **kw})

    from spatialpandas import GeoDataFrame
    if not isinstance(got, GeoDataFrame):
        bad('result-type', f'result is {type(got).__name__}, expected {want_type}')
    idx_names = index_level_names(exp)
    if proj is None:
        exp_cols = list(exp.columns)
    else:
        exp_cols = [c for c in proj if c not in idx_names]
    if list(got.columns) != exp_cols:
        bad('columns', f'columns {list(got.columns)} differ from the requested {exp_cols}')
        return
    if len(got) != len(exp):
        bad('nrows', f'{len(got)} rows read, {len(exp)} written')
        return
    # index
    if list(got.index.names) != list(exp.index.names):
        bad('index-name', f'index names {list(got.index.names)} differ from {list(exp.index.names)}',
            index_kind=meta.get('index_kind'))
    elif not same_values(got.index, exp.index):
        sig = 'index-lost' if proj is not None else 'index-values'
        bad(sig, f'index {repr(got.index)[:100]} differs from the written {repr(exp.index)[:100]}',
            index_kind=meta.get('index_kind'))
    for c in exp_cols:
        e, g = exp[c], got[c]
        if isinstance(e.dtype, GeometryDtype):
            if type(g.dtype) is not type(e.dtype) or g.dtype.subtype != e.dtype.subtype or str(g.dtype) != str(e.dtype):
                bad('dtype', f'column {c}: dtype {g.dtype} read, {e.dtype} written', column=c)
                continue
            ea, ga = e.array, g.array
            pe, pg = U.array_pylist(ea), U.array_pylist(ga)
            if pe != pg:
                k = next((i for i in range(len(pe)) if pe[i] != pg[i]), None)
                bad('element', f'column {c} ({e.dtype}): element {k} read as {pg[k]!r}, written {pe[k]!r}',
                    column=c, position=k)
                continue
            # decode of the exported buffers, evaluated by the model
            kind = U.kind_of_dtype(e.dtype)
            try:
                if kind is None or not hasattr(ea, 'data'):
                    raise AttributeError
                if kind == 'point':
                    acc.fa[0].append((C.export_fixarr(ea), C.export_fixarr(ga)))
                    acc.fa[1].append(True)
                    acc.fa[2].append({**meta, 'column': c})
                else:
                    acc.la[0].append((C.export_listarr(ea), C.export_listarr(ga)))
                    acc.la[1].append(True)
                    acc.la[2].append({**meta, 'column': c})
            except ValueError:
                rep.count('decode_skipped_null_typed')
            except AttributeError:
                rep.count('internal-unavailable:array-buffers')
        else:
            if not same_values(e, g):
                bad('values', f'column {c}: values differ', column=c)
            if str(e.dtype) != str(g.dtype) and not (str(e.dtype) in ('object', 'str', 'string')
                                                      and 'str' in str(g.dtype).lower()):
                bad('payload-dtype', f'column {c}: dtype {g.dtype} read, {e.dtype} written', column=c)


def projections(rng, df, quick):
    cols = list(df.columns)
    geo = [c for c in cols if c.startswith('g')]
    import pandas as pd
    # a RangeIndex is stored as a descriptor, not as a column: its name cannot be requested
    idx = [] if isinstance(df.index, pd.RangeIndex) else index_level_names(df)
    out = [None, [geo[0]], list(reversed(cols))]
    sub = [c for c in cols if rng.random() < 0.6 or c == geo[-1]]
    rng.shuffle(sub)
    out.append(sub)
    if idx:
        # request the index column explicitly (in the middle / first)
        out.append([geo[0], idx[0]] + [c for c in cols if c not in (geo[0],)][:1])
        out.append([idx[-1], geo[-1]])
    if quick:
        return [out[0]] + rng.sample(out[1:], min(2, len(out) - 1))
    return out


def geom_cols(rng, kinds, subtypes):
    names = ['ga', 'gb', 'gc']
    return [(names[i], k, s) for i, (k, s) in enumerate(zip(kinds, subtypes))]


def pandas_roundtrip(rep, acc, sc, cfg):
    import random
    from spatialpandas.io import read_parquet, to_parquet
    rng = random.Random(cfg['seed'])
    df, desc = U.make_frame(rng, cfg['nrows'], geom_cols(rng, cfg['kinds'], cfg['subtypes']),
                            index_kind=cfg['index_kind'], derive_steps=cfg['derive'], nan_p=cfg['nan_p'])
    path = sc.new('f') + '.parq'
    meta = {'stream': 'roundtrip', 'path_kind': 'pandas', 'cfg': cfg, 'index_kind': cfg['index_kind']}
    try:
        kw = {'row_group_size': cfg['row_group_size']} if cfg.get('row_group_size') else {}
        to_parquet(df, path, compression=cfg['compression'], **kw)
    except Exception as e:
        rep.violation('write-raises:pandas:' + type(e).__name__, f'to_parquet raised {e!r}'[:300], meta)
        return
    for proj in (cfg.get('projections') or projections(rng, df, cfg['quick'])):
        m = {**meta, 'columns': proj}
        READ_LOG.clear()
        try:
            got = read_parquet(path, columns=proj)
        except Exception as e:
            rep.violation('read-raises:pandas:' + type(e).__name__, f'read_parquet raised {e!r}'[:300], m)
            continue
        flush_read_log(acc, proj, m)
        compare_frames(rep, acc, df, got, proj, m, 'GeoDataFrame')
        rep.evaluations += 1
        rep.count(f'pandas:{cfg["index_kind"]}:{"all" if proj is None else "proj"}')
        rep.nontrivial(('pandas', json.dumps(cfg, sort_keys=True, default=str), str(proj)))
    os.remove(path)


def dask_roundtrip(rep, acc, sc, cfg):
    import random
    import dask.dataframe as dd
    from spatialpandas.io import read_parquet_dask
    rng = random.Random(cfg['seed'])
    meta = {'stream': 'roundtrip', 'path_kind': 'dask', 'cfg': cfg, 'index_kind': cfg['index_kind']}
    frames, paths, written = [], [], []
    nds = cfg.get('ndatasets', 1)
    # several datasets: directory names whose sorted order is NOT the order they are given in
    # (b before a, a nested directory with a number in its path that sorts first)
    names = ['ds'] if nds == 1 else ['ds_b_west', 'ds_a_east', os.path.join('dr_nest', 'in.2', 'c_mid')][:nds]
    nparts = [cfg['npartitions']] if nds == 1 else \
        [max(2, cfg['npartitions']), cfg.get('npartitions2', 11), 2][:nds]
    for j in range(nds):
        df, desc = U.make_frame(rng, max(cfg['nrows'], nparts[j]), geom_cols(rng, cfg['kinds'], cfg['subtypes']),
                                index_kind=cfg['index_kind'], derive_steps=cfg['derive'], nan_p=cfg['nan_p'])
        if j:
            df = df[list(frames[0].columns)]
            df['v'] = df['v'] + 5000 * j
        ddf = dd.from_pandas(df, npartitions=nparts[j], sort=cfg['sort'])
        path = os.path.join(sc.dir, names[j])
        try:
            ddf.to_parquet(path, compression=cfg['compression'])
        except Exception as e:
            rep.violation('write-raises:dask:' + type(e).__name__, f'DaskGeoDataFrame.to_parquet raised {e!r}'[:300], meta)
            return
        frames.append(df)
        paths.append(path)
        written.append(ddf)
    import pandas as pd
    parts_by_ds = [[w.partitions[i].compute() for i in range(w.npartitions)] for w in written]
    projs = cfg.get('projections') or projections(rng, frames[0], cfg['quick'])
    single_file = None
    if nds == 1:
        arg_list = [('single', paths[0], [0], projs)]
        if len(parts_by_ds[0]) >= 2:
            # one part file read on its own: exactly one piece
            jf = rng.randrange(len(parts_by_ds[0]))
            single_file = (os.path.join(paths[0], f'part.{jf}.parquet'), jf)
    else:
        given = list(range(nds))
        rev = given[::-1]
        by_path = sorted(range(min(nds, 2)), key=lambda i: paths[i])     # the glob sees ds_a_east, ds_b_west
        arg_list = [('list', [paths[i] for i in given], given, projs),
                    ('list-reversed', [paths[i] for i in rev], rev, projs[:2]),
                    ('glob', os.path.join(sc.dir, 'ds_*'), by_path, projs[:1])]
        if nds == 3:
            rot = [2, 0, 1]
            arg_list.append(('list-rotated', [paths[i] for i in rot], rot, projs[:1]))
    if single_file is not None and os.path.exists(single_file[0]):
        arg_list.append(('single-file', single_file[0], None, projs[:1]))
    for how, arg, order, hprojs in arg_list:
        # rows come back dataset by dataset in the order the paths were GIVEN (glob: expansion order),
        # inside a dataset in part-number order, inside a part in stored order
        if how == 'single-file':
            parts, order = [parts_by_ds[0][single_file[1]]], [0]
        else:
            parts = [p for i in order for p in parts_by_ds[i]]
        exp = pd.concat(parts) if len(parts) > 1 else parts[0]
        for proj in hprojs:
            m = {**meta, 'columns': proj, 'how': how, 'dataset_order': order,
                 'dataset_dirs': [names[i] for i in order]}
            READ_LOG.clear()
            DD_LOG.clear()
            try:
                r = read_parquet_dask(arg, columns=proj)
                got = r.compute()
            except Exception as e:
                rep.violation('read-raises:dask:' + type(e).__name__, f'read_parquet_dask raised {e!r}'[:300], m)
                continue
            flush_read_log(acc, proj, m)
            from spatialpandas.dask import DaskGeoDataFrame
            if not isinstance(r, DaskGeoDataFrame):
                rep.violation('result-type:dask', f'result is {type(r).__name__}', m)
            if r.npartitions != len(parts):
                rep.violation('npartitions:dask', f'{r.npartitions} partitions read, {len(parts)} written', m)
            elif len(parts) > 1:
                # partition order (numeric, not textual, for >= 11 parts; datasets in the given order)
                js = {0, len(parts) - 1, rng.randrange(len(parts)), min(2, len(parts) - 1), min(10, len(parts) - 1)}
                for j in sorted(js):
                    pj = list(r.partitions[j].compute()['v']) if (proj is None or 'v' in proj) else None
                    if pj is not None and pj != list(parts[j]['v']):
                        rep.violation('partition-order:dask',
                                      f'{how}: partition {j} of {len(parts)} read holds rows {pj[:6]}, expected '
                                      f'{list(parts[j]["v"])[:6]} (datasets given as {[names[i] for i in order]})',
                                      {**m, 'partition': j})
                        break
            if list(r.columns) != list(got.columns):
                rep.violation('meta-columns:dask', f'meta columns {list(r.columns)} differ from the computed {list(got.columns)}', m)
            if (proj is None or 'v' in proj) and list(got['v']) != list(exp['v']) \
                    and sorted(got['v']) == sorted(exp['v']) and len(parts) == 1:
                rep.violation('row-order:dask',
                              f'{how}: the rows of a one-piece read come back in another order than stored '
                              f'(index {cfg["index_kind"]})',
                              {**m, 'read_v': [int(x) for x in got['v']][:40], 'expected_v': [int(x) for x in exp['v']][:40],
                               'read_index': [str(x) for x in got.index][:40]})
            elif (proj is None or 'v' in proj) and list(got['v']) != list(exp['v']) \
                    and sorted(got['v']) == sorted(exp['v']):
                rep.violation('dataset-order:dask',
                              f'{how}: rows are not the concatenation of the datasets in the order given '
                              f'{[names[i] for i in order]}',
                              {**m, 'read_v': [int(x) for x in got['v']][:40], 'expected_v': [int(x) for x in exp['v']][:40]})
            else:
                compare_frames(rep, acc, exp, got, proj, m, 'GeoDataFrame')
            rep.evaluations += 1
            rep.count(f'dask:{how}:{len(parts)}parts')
            rep.count(f'dask:{cfg["index_kind"]}:{"all" if proj is None else "proj"}')
            if len(parts) == 1 and len(exp) > 1 and not (exp.index.is_monotonic_increasing):
                rep.count('dask:one-piece-nonmonotonic-index')
            if nds > 1 and order != sorted(order, key=lambda i: paths[i]):
                rep.count('dask:list-not-in-path-order')
            rep.nontrivial(('dask', json.dumps(cfg, sort_keys=True, default=str), how, str(proj)))


# --------------------------------------------------------------------------
# histories that reuse a path / a glob pattern within one process
# --------------------------------------------------------------------------
def reuse_history(rep, acc, sc, cfg):
    """write k partitions -> read -> overwrite the SAME path with more, then fewer partitions -> read
    again each time (also through pack_partitions_to_parquet(overwrite=True), whose returned frame is such
    a read); read a glob -> add a dataset matching it -> read the glob again.  Every read must show the
    files as they are now."""
    import random
    import pandas as pd
    import dask.dataframe as dd
    from spatialpandas.io import read_parquet_dask
    rng = random.Random(cfg['seed'])
    meta = {'stream': 'reuse', 'path_kind': 'dask', 'cfg': cfg, 'index_kind': 'named'}
    gcols = geom_cols(rng, cfg['kinds'], cfg['subtypes'])
    step = [0]

    def frame(n, off):
        df, _ = U.make_frame(rng, n, gcols, index_kind='named', derive_steps=0, nan_p=0)
        df = df[sorted(df.columns)]
        df['v'] = df['v'] + off
        return df

    def write(df, path, nparts, **kw):
        ddf = dd.from_pandas(df, npartitions=nparts, sort=False)
        ddf.to_parquet(path, **kw)
        return [ddf.partitions[i].compute() for i in range(ddf.npartitions)]

    def read_check(arg, parts, what):
        step[0] += 1
        m = {**meta, 'step': step[0], 'what': what, 'columns': None}
        exp = pd.concat(parts) if len(parts) > 1 else parts[0]
        try:
            r = read_parquet_dask(arg)
            got = r.compute()
        except Exception as e:
            rep.violation('reuse-read-raises:' + type(e).__name__,
                          f'{what}: read_parquet_dask raised {e!r}'[:300], m)
            return
        rep.evaluations += 1
        rep.count('reuse:' + what.split(':')[0])
        rep.nontrivial(('reuse', cfg['seed'], what))
        if r.npartitions != len(parts) or len(got) != len(exp) or list(got['v']) != list(exp['v']):
            rep.violation('reuse-stale:' + what.split(':')[0],
                          f'{what}: {r.npartitions} partitions / {len(got)} rows read, the files now hold '
                          f'{len(parts)} partitions / {len(exp)} rows',
                          {**m, 'read_v': [int(x) for x in got['v']][:30], 'expected_v': [int(x) for x in exp['v']][:30]})
            return
        compare_frames(rep, acc, exp, got, None, m, 'GeoDataFrame')

    k0, kmore, kless = cfg['k']
    P = os.path.join(sc.dir, 'reused')
    a = frame(3 * k0, 0)
    read_check(P, write(a, P, k0), f'path-first:{k0}')
    b = frame(2 * kmore, 10000)
    read_check(P, write(b, P, kmore, overwrite=True), f'path-overwritten-more:{k0}->{kmore}')
    c = frame(2 * kless + 1, 20000)
    read_check(P, write(c, P, kless, overwrite=True), f'path-overwritten-fewer:{kmore}->{kless}')
    # pack_partitions_to_parquet(overwrite=True) onto the path read before
    if cfg.get('pack', True):
        step[0] += 1
        m = {**meta, 'step': step[0], 'what': 'pack-overwrite', 'columns': None}
        src = frame(3 * kmore, 30000).reset_index(drop=True)
        try:
            ret = dd.from_pandas(src, npartitions=2).pack_partitions_to_parquet(P, npartitions=kmore, p=6,
                                                                                overwrite=True)
            got = ret.compute()
            nfiles = len([f for f in os.listdir(P) if f.endswith('.parquet')])
            again = read_parquet_dask(P).compute()
        except Exception as e:
            rep.violation('reuse-read-raises:' + type(e).__name__,
                          f'pack_partitions_to_parquet(overwrite=True) on a path read before raised {e!r}'[:300], m)
        else:
            rep.evaluations += 1
            rep.count('reuse:pack-overwrite')
            if ret.npartitions != nfiles or sorted(got['v']) != sorted(src['v']) or list(again['v']) != list(got['v']):
                rep.violation('reuse-stale:pack-overwrite',
                              f'frame returned by pack_partitions_to_parquet(overwrite=True): {ret.npartitions} partitions / '
                              f'{len(got)} rows, the dataset holds {nfiles} part files / {len(src)} rows',
                              {**m, 'returned_v': sorted(int(x) for x in got['v'])[:30]})
            else:
                e2 = src.sort_values('v').reset_index(drop=True)
                g2 = got.sort_values('v').reset_index(drop=True)
                compare_frames(rep, acc, e2, g2, None, m, 'GeoDataFrame')
    # a glob pattern used twice, with a dataset added (and one rewritten) in between
    G = os.path.join(sc.dir, 'gl_*')
    pa_ = write(frame(4, 40000), os.path.join(sc.dir, 'gl_a'), 2)
    read_check(G, pa_, 'glob-first:1 dataset')
    pb_ = write(frame(2 * kmore, 50000), os.path.join(sc.dir, 'gl_b'), kmore)
    read_check(G, pa_ + pb_, 'glob-dataset-added:2 datasets')
    pa2 = write(frame(9, 60000), os.path.join(sc.dir, 'gl_a'), 3, overwrite=True)
    read_check(G, pa2 + pb_, 'glob-dataset-rewritten:2 datasets')
    read_check([os.path.join(sc.dir, 'gl_b'), os.path.join(sc.dir, 'gl_a')], pb_ + pa2, 'list-after-glob:2 datasets')


# --------------------------------------------------------------------------
# dtype names
# --------------------------------------------------------------------------
def dtype_name_cases(rng, n):
    subs = ['float64', 'float32', 'int64', 'int32', 'int16', 'uint8', 'f8', 'float', 'double', 'i2',
            'object', 'str', 'x_1', '', 'float 64', 'bool']
    out = []
    for k in KIND_ORDER:
        out.append(k)
        out.append(k.upper())
        out.append(k + '[')
        out.append(k + ']')
        out.append(k + 's[float64]')
        out.append(k + '[float64]\n')
        out.append(k + '[float64]\n\n')
        out.append(k + '\n')
        out.append(' ' + k + '[float64]')
        for s in subs:
            out.append(f'{k}[{s}]')
            out.append(f'{k.title()}[{s.upper()}]')
            out.append(f'{k}[{s}]x')
            out.append(f'{k}[[{s}]')
    for a, b in itertools.permutations(KIND_ORDER, 2):
        out.append(a + b + '[float64]')
        out.append(a + '[' + b + ']')
    out += ['', '[', 'geometry', 'geometry[float64]', 'multi', 'poly[float64]', 'linestring[float64]', 'int64']
    alpha = 'lineRINGpot[]_164f \n'
    for _ in range(n):
        out.append(''.join(rng.choice(alpha) for _ in range(rng.randint(0, 12))))
        k = rng.choice(KIND_ORDER)
        t = f'{k}[{rng.choice(subs)}]'
        t = ''.join(c.upper() if rng.random() < .3 else c for c in t)
        if rng.random() < .3:
            i = rng.randrange(len(t) + 1)
            t = t[:i] + rng.choice(alpha) + t[i:]
        out.append(t)
    return out


def dtype_name_check(rep, strings):
    import pandas as pd
    from spatialpandas.geometry import GeometryDtype
    cases, ress, metas = [], [], []
    ts_cases, ts_res = [], []
    for s in strings:
        try:
            dt = pd.api.types.pandas_dtype(s)
        except TypeError:
            dt = None
        except Exception as e:
            # numpy's own parser rejects some strings with other exceptions ('6 4x': SyntaxError);
            # that is this library's business only if one of its classes claimed the string
            if any(s.lower().startswith(k) for k in KIND_ORDER):
                rep.violation('dtype-lookup-raises:' + type(e).__name__, f'pandas_dtype({s!r}) raised {e!r}'[:200],
                              {'stream': 'dtype', 'string': s})
                continue
            dt = None
        if dt is not None and not isinstance(dt, GeometryDtype):
            continue  # a numpy / pandas dtype of its own ('int64'): not this library's name space
        low = s.lower()
        if dt is not None:
            k = KIND_ORDER.index(U.kind_of_dtype(dt))
            name = KIND_ORDER[k]
            inner = low[len(name) + 1:].rstrip('\n')[:-1] if low != name else 'float64'
            try:
                agree = np.dtype(inner) == dt.subtype
            except TypeError:
                agree = False
            if not agree:
                rep.violation('dtype-subtype', f'{s!r} gives subtype {dt.subtype}, the name says {inner!r}',
                              {'stream': 'dtype', 'string': s})
            res = C.Some((U.nN(k), inner))
            # and the way back
            ts_cases.append((U.nN(k), dt.subtype.name))
            ts_res.append(str(dt))
            if pd.api.types.pandas_dtype(str(dt)) != dt:
                rep.violation('dtype-roundtrip', f'pandas_dtype(str({dt!r})) differs', {'stream': 'dtype', 'string': s})
        else:
            # rejected: either not a well-formed name (model: None), or a well-formed name whose
            # subtype numpy does not know / is not numeric (model stops at the subtype name)
            res = None
            for k, name in enumerate(KIND_ORDER):
                m = re.match('^' + name + r'\[(?P<subtype>\w+)\]$', low)
                if m:
                    inner = m.group('subtype')
                    try:
                        # a numeric numpy dtype that Arrow can hold (float128 'g' cannot)
                        import pyarrow as pa
                        ok = np.dtype(inner).kind in 'iuf' and pa.from_numpy_dtype(np.dtype(inner)) is not None
                    except Exception:
                        ok = False
                    if ok:
                        rep.violation('dtype-rejected', f'{s!r} is a well-formed dtype name but is rejected',
                                      {'stream': 'dtype', 'string': s})
                    res = C.Some((U.nN(k), inner))
                    break
        cases.append(s)
        ress.append(res)
        metas.append({'stream': 'dtype', 'string': s, 'impl': repr(dt)})
        rep.evaluations += 1
        rep.count('dtype:' + ('accepted' if dt is not None else 'rejected'))
        if dt is not None:
            rep.nontrivial(('dtype', s))
    bad = C.coq_mismatches(PC_IMPORTS, DT_FN, DT_CASE, DT_RES, cases, ress)
    for i in bad[:3]:
        rep.violation('dtype-name-differs', 'dtype-name lookup differs from Model/ParquetCols.v parse_dtype',
                      {**metas[i], 'expected': ress[i],
                       'model': C.coq_eval(PC_IMPORTS, f'{DT_FN} {C.coq(cases[i])}')})
    bad = C.coq_mismatches(PC_IMPORTS, TS_FN, TS_CASE, TS_RES, ts_cases, ts_res)
    for i in bad[:3]:
        rep.violation('dtype-str-differs', 'str(dtype) differs from Model/ParquetCols.v dtype_to_string',
                      {'stream': 'dtype', 'impl': ts_res[i]})


# --------------------------------------------------------------------------
def configs(rep, tier):
    rng = rep.rng
    quick = tier == 'quick'
    pand, dask_ = [], []
    comp = ['snappy', 'gzip', None]
    pidx = U.INDEX_KINDS
    didx = [k for k in U.INDEX_KINDS if not k.startswith('multi')]
    combos = [(k, s) for k in G.KINDS for s in G.SUBTYPES]
    reps = 2 if quick else 12
    i = 0
    for _ in range(reps):
        rng.shuffle(combos)
        for k, s in combos:
            k2, s2 = rng.choice(combos)
            pand.append({'kinds': (k, k2), 'subtypes': (s, s2), 'nrows': rng.choice([1, 2, 5, 9, 14]),
                         'index_kind': pidx[i % len(pidx)], 'derive': i % 2, 'nan_p': rng.choice([0, 0, 0.2]),
                         'compression': comp[i % 3], 'seed': rng.randrange(10 ** 9), 'quick': quick,
                         'row_group_size': 2 if i % 4 == 3 else None})
            i += 1
    nd = 36 if quick else 420
    parts_cycle = [1, 2, 3, 11, 12, 5, 10, 12, 4, 11, 7, 12] if quick else list(range(1, 13))
    for j in range(nd):
        k, s = combos[j % len(combos)]
        k2, s2 = rng.choice(combos)
        npart = parts_cycle[j % len(parts_cycle)]
        dask_.append({'kinds': (k, k2), 'subtypes': (s, s2), 'nrows': npart * rng.randint(1, 3) + rng.randint(0, 2),
                      'npartitions': npart, 'index_kind': didx[j % len(didx)], 'derive': j % 2,
                      'nan_p': rng.choice([0, 0, 0.2]), 'compression': comp[j % 3],
                      'sort': bool(j % 2) and didx[j % len(didx)] not in ('str',),
                      'ndatasets': (2 if j % 12 == 5 else 3) if j % 6 == 5 else 1,
                      'npartitions2': [11, 2, 12, 3][(j // 6) % 4],
                      'seed': rng.randrange(10 ** 9), 'quick': quick})
    # exactly one piece and an index that is not increasing (decreasing, shuffled, non-unique unsorted)
    for t in range(1 if quick else 6):
        for ik in ('decreasing', 'named', 'unnamed', 'nonunique_shuffled'):
            k, s = rng.choice(combos)
            k2, s2 = rng.choice(combos)
            dask_.append({'kinds': (k, k2), 'subtypes': (s, s2), 'nrows': rng.randint(4, 9), 'npartitions': 1,
                          'index_kind': ik, 'derive': t % 2, 'nan_p': 0, 'compression': comp[t % 3], 'sort': False,
                          'ndatasets': 1, 'seed': rng.randrange(10 ** 9), 'quick': quick})
    return pand, dask_


def corpus_entries():
    out = []
    d = os.path.join(C.VERIF, 'corpus', 'C11')
    if os.path.isdir(d):
        for f in sorted(os.listdir(d)):
            if f.endswith('.json'):
                out.append(json.load(open(os.path.join(d, f))))
    return out


def _cfg_from_json(cfg):
    cfg = dict(cfg)
    cfg['kinds'] = tuple(cfg['kinds'])
    cfg['subtypes'] = tuple(cfg['subtypes'])
    return cfg


def finish(rep, acc):
    # optional extras on internals: counted, never a violation by themselves (prepending or appending
    # the index columns, or letting pyarrow restore them, is the implementation's choice; what the
    # property says -- requested columns in order, index restored -- is checked on the result frames)
    for name, (fn, cty, rty), (cases, ress, metas) in (
            ('read_columns', (RC_FN, RC_CASE, RC_RES), acc.rc),
            ('cols_no_index', (CN_FN, CN_CASE, CN_RES), acc.cn)):
        if not cases:
            rep.count(f'internal-unavailable:{name}')
            continue
        bad = C.coq_mismatches(PC_IMPORTS, fn, cty, rty, cases, ress)
        rep.extra[f'internal_{name}_cases'] = len(cases)
        rep.extra[f'internal_{name}_differ_from_model'] = len(bad)
        if bad:
            rep.count(f'internal-differs:{name}', len(bad))
            rep.extra[f'internal_{name}_example'] = C.jsonable({**metas[bad[0]], 'impl': ress[bad[0]]})
    for fn, ty, (cases, ress, metas) in ((LA_FN, 'listarr * listarr', acc.la), (FA_FN, 'fixarr * fixarr', acc.fa)):
        bad = C.coq_mismatches(AR_IMPORTS, fn, ty, 'bool', cases, ress, shard=25)
        for i in bad[:3]:
            rep.violation('decode-differs:' + metas[i]['path_kind'],
                          'the buffers read back do not decode (Model/Arrow.v) to the elements written, or are ill-formed',
                          {**metas[i], 'written_buffers': cases[i][0], 'read_buffers': cases[i][1]})
    rep.extra['read_columns_cases'] = len(acc.rc[0])
    rep.extra['decode_pairs'] = len(acc.la[0]) + len(acc.fa[0])


def run(rep):
    import dask
    tier = getattr(rep, 'tier_run', rep.tier)
    rep.rule = ('frames of 2 geometry columns (7 kinds x 5 subtypes, missing / empty / NaN-coordinate elements, '
                'plain / sliced / concatenated / taken source arrays) + int, float(NaN) and str payload columns in '
                'shuffled column order; index kinds ' + ', '.join(U.INDEX_KINDS) + ' (MultiIndex on the pandas '
                'path only: Dask has none); compression snappy / gzip / None; row groups of 2 rows in a quarter of the files; Dask: 1..12 partitions, sort / no '
                'sort, one dataset, or two / three datasets (>= 2 partitions each, one with >= 11; directory names whose sorted order differs from the given order, one nested) read as a list in the given, reversed and rotated order and by glob; projections: None, one geometry column, reversed, '
                'random subset in random order, index column requested explicitly.  dtype names: 7 kinds x 16 '
                'subtype spellings x case / bracket / suffix / newline mutations + random strings.  Every round '
                'trip with a distinct (configuration, projection) is non-trivial.  Also: 1-partition datasets and single '
                'part files (exactly one piece) with decreasing / shuffled / non-unique unsorted indexes; histories that '
                'reuse a path (overwrite with more, then fewer partitions; pack_partitions_to_parquet(overwrite=True)) '
                'and a glob pattern (dataset added / rewritten between two reads) within the process')
    acc = Acc()
    recording.rep = rep
    with dask.config.set(scheduler='synchronous'), U.Scratch() as sc, recording():
        for ent in corpus_entries():
            cfg = _cfg_from_json(ent['cfg'])
            (pandas_roundtrip if ent['path_kind'] == 'pandas' else dask_roundtrip)(rep, acc, sc, cfg)
        U.natsort_check(rep, U.natsort_cases(rep.rng, 100 if tier == 'quick' else 3000), 'C11')
        dtype_name_check(rep, dtype_name_cases(rep.rng, 150 if tier == 'quick' else 5000))
        pand, dask_ = configs(rep, tier)
        for cfg in pand:
            pandas_roundtrip(rep, acc, sc, cfg)
        for cfg in dask_:
            with U.Scratch() as s2:
                dask_roundtrip(rep, acc, s2, cfg)
        for t in range(1 if tier == 'quick' else 8):
            k, s = rep.rng.choice([(k, s) for k in G.KINDS for s in G.SUBTYPES])
            cfg = {'kinds': (k, 'point'), 'subtypes': (s, 'float64'), 'seed': rep.rng.randrange(10 ** 9),
                   'k': [(3, 12, 2), (2, 11, 1), (4, 13, 3)][t % 3], 'pack': t % 2 == 0}
            with U.Scratch() as s2:
                reuse_history(rep, acc, s2, cfg)
    finish(rep, acc)


def replay(rep, rp):
    import dask
    acc = Acc()
    stream = rp.get('stream')
    with dask.config.set(scheduler='synchronous'), U.Scratch() as sc, recording():
        if stream == 'natsort':
            U.natsort_check(rep, [rp['names']], 'C11')
        elif stream == 'dtype':
            dtype_name_check(rep, [rp['string']])
        elif stream == 'reuse':
            reuse_history(rep, acc, sc, _cfg_from_json(rp['cfg']))
        else:
            cfg = _cfg_from_json(rp['cfg'])
            cfg['projections'] = [rp.get('columns')]
            (pandas_roundtrip if rp['path_kind'] == 'pandas' else dask_roundtrip)(rep, acc, sc, cfg)
    finish(rep, acc)
    for v in rep.violations:
        print('still:', v['signature'], v['what'])
    return not rep.violations
