"""C06 — a Dask geo frame answers exactly like the pandas frame it represents.

For Dask frames of every geometry kind, under every split of the rows into
consecutive partitions (small n) and from every provenance (from_delayed /
from_pandas, row filtering, cached-then-filtered, column selection, set_geometry,
persist, pack_partitions, to_parquet -> read_parquet_dask with / without geometry=
and bounds=, results of cx / cx_partitions), scheduler 'synchronous':

  * differential: cx (frame and series), bounds, total_bounds, area, length,
    intersects_bounds, sjoin(inner, left), cx_partitions against the same operation on
    the pandas frame `X.compute()` with the same active geometry;
  * contracts of the Dask plumbing the proofs assume (compute = concatenation of the
    partitions, partition_bounds = each partition's total_bounds, partitions[...] keeps
    whole partitions);
  * model: Model/DaskModel.v (c06_case) evaluated by the Coq kernel on the exported
    partitions (row id, bounds row, the real intersects_bounds answers), the real
    _keys of the partition index and the cx keys, compared with the real
    partition_bounds, total_bounds, index total_bounds, and per key the rows of every
    partition of cx_partitions[key] and cx[key] and pandas' cx[key].

Beyond the small integer grid (section D of gen_specs): frames whose coordinates are ordinary
float64 numbers (k/7, 0.1*a + 0.2*b, 53 random bits of both signs, 1234567 + a 32-bit
fraction, 2^53 + 2k, multiples of 1.1e-11, 1e6 + k*2^-30) through the same provenances
(parquet round trips always), with cx keys one side of which lies exactly ON the extreme
coordinate of a partition (box and partition box only touch), one ulp beyond it, with
omitted ends, and right frames of sjoin whose lines / triangles start exactly at the points
of the left frame; read_parquet_dask(bounds=B) must hold every written row that meets B.
Every number of such a case is an exact integer under one per-case power-of-two scale
(c06_util.log2scale / znum), so the kernel-evaluated model and all comparisons stay free
of any tolerance.

Histories (section E): families of 2-3 pandas frames that differ ONLY in the geometry
content - sibling positional slices of one parent array (shared Arrow buffers, different
offset, equal length and null count), one coordinate of one row, which row is missing and
which one empty, which column is active - with the same index and payload, all turned
into Dask collections (frame and series) before any is used and all kept referenced; each
is then examined like any other frame against ITS pandas frame; likewise one Dask frame
sjoin-ed with right frames that are sibling slices.  (Model/DaskRegistry.v,
C06_registry_sound: correct iff the token separates the frames.)

Row order: cx / bounds / area / length / intersects_bounds are compared in order (the
partitions are visited in ascending order and filtered in place); sjoin and
pack_partitions are compared as multisets of complete rows.
"""
import os
import shutil
import tempfile
import time

import numpy as np

from . import common as C
from . import geomgen as G
from . import c06_util as U

ANCHOR_FILES = ['spatialpandas/dask.py', 'spatialpandas/tools/sjoin.py',
                'spatialpandas/geometry/base.py', 'spatialpandas/io/parquet.py']
TRUSTED = ['Dask collection plumbing (from_delayed, map_partitions, partitions[...], compute) as '
           'the list-of-partitions contract of Spec/DaskSpec.v, exercised by this run',
           'per-row geometry answers (bounds rows, intersects_bounds, intersects) enter the model '
           'as oracle tables read from the real library (properties C01, C02, C13 are about them)',
           'Model/Rtree.v (property C03) for the partition-level index']

IMPORTS = 'Model.Num Model.Bounds Model.Rtree Model.DaskModel'
CASE_TY = 'list (list hrow) * list nat * list cxkey'
RES_TY = 'list bbox * bbox * row * list (list (list nat) * list (list nat) * list nat)'
FN = 'c06_case'
SJ_CASE_TY = 'bool * list (list lrow) * list rrow * list (nat * nat)'
SJ_RES_TY = 'list (list nat) * list nat'
SJ_FN = 'c06_sjoin_case'

# cx keys (xs.start, xs.stop, ys.start, ys.stop), None = omitted end; the frames live
# in [0, 8] x [0, 8]
KEYS = [(2, 6, 2, 6), (1.5, 4.5, 0.5, 3.5), (None, 3, None, None), (None, None, None, None),
        (6.5, 2, 5.5, 1), (-3, -1, -3, -1), (0, 8, 0, 8), (4.5, None, None, 6),
        (3, 4, 3, 4), (6, 9, 6, 9), (-1, 2.5, 4.5, 9)]


# --------------------------------------------------------------------------
# frames
# --------------------------------------------------------------------------
def template(kind, t):
    s = lambda *b: U.shape(kind, *b)
    e = U.empty_el(kind)
    if t == 0:   # inside, missing, overlapping, outside, empty, inside
        return [s(3, 3, 4, 4), None, s(5, 5, 7, 7), s(7, 0, 8, 1), e, s(2, 2, 3, 3)]
    if t == 1:   # two missing, two inside, outside, touching the corner
        return [None, None, s(3, 4, 5, 5), s(4, 2, 6, 3), s(0, 7, 1, 8), s(6, 6, 7, 8)]
    if t == 2:   # ties: equal elements, elements on the box edge
        return [s(2, 2, 2, 6) if kind != 'point' else s(2, 6, 2, 6), s(2, 2, 6, 6), e,
                s(2, 2, 6, 6), s(6, 0, 8, 2), None]
    raise ValueError(t)


def big_frame(kind, n):
    """n <= 63 rows on an 8-wide grid inside [0, 8] x [0, 8]; rows 4 and 17 missing, row 9 empty"""
    els, els2 = [], []
    k2 = 'line' if kind == 'point' else 'point'
    for i in range(n):
        x, y = i % 8, (i // 8) % 8
        if i in (4, 17):
            els.append(None)
        elif i == 9:
            els.append(U.empty_el(kind))
        else:
            els.append(U.shape(kind, x, y, x + 1, y + 1))
        els2.append(None if i == 7 else U.shape(k2, y, x, y + 2, x + 1))
    return els, k2, els2


def second_column(kind):
    """the other geometry column: points (so that sjoin can run on it) unless g holds points"""
    if kind == 'point':
        return 'line', [[0, 0, 2, 1], None, [5, 6, 7, 6], [], [1, 5, 2, 8], [3, 3, 3, 5]]
    return 'point', [[1, 1], [5, 5], None, [2, 7], [8, 0], [5, 2]]


def right_frames():
    from spatialpandas import GeoDataFrame
    out = []
    out.append(('polygon', GeoDataFrame({
        'rg': G.make_array('polygon', [[[0, 0, 3, 0, 3, 3, 0, 3, 0, 0]], None,
                                       [[4, 4, 6, 4, 6, 6, 4, 6, 4, 4]], [],
                                       [[5, 0, 8, 0, 8, 2, 5, 2, 5, 0]]]),
        'rv': [100, 101, 102, 103, 104], 'w': [0.5, 1.5, 2.5, 3.5, 4.5]})))
    out.append(('multipoint', GeoDataFrame({
        'rg': G.make_array('multipoint', [[1, 1, 5, 5], [2, 7], None, [8, 0, 3, 3, 4, 4]]),
        'rv': [200, 201, 202, 203]}, index=[7, 5, 3, 1])))
    return out


def random_frame(rng, kind):
    n = rng.choice([1, 2, 3, 4, 5, 6, 7, 9])
    els = G.rand_elements(rng, kind, n, lo=0, hi=8, nan_p=0.0, missing_p=0.2, empty_p=0.1)
    if rng.random() < 0.1:
        els = [None] * n
    k2 = 'line' if kind == 'point' else 'point'
    els2 = G.rand_elements(rng, k2, n, lo=0, hi=8, missing_p=0.2, empty_p=0.1)
    return els, k2, els2


def random_cuts(rng, n):
    k = rng.randint(1, min(n, 4) + 1)
    cuts = sorted(rng.randint(0, n) for _ in range(k - 1))
    return [0] + cuts + [n]


def gen_specs(rep, tier):
    rng = rep.rng
    quick = tier == 'quick'
    specs = []

    def spec(kind, els, k2, els2, active, steps, keys):
        specs.append({'kind_g': kind, 'els_g': els, 'kind_h': k2, 'els_h': els2,
                      'active': active, 'steps': steps, 'keys': keys})

    # A. every split of 6 rows into consecutive partitions (+ empty partitions)
    for kind in (['point', 'line'] if quick else G.KINDS):
        for t in ((0,) if quick else (0, 1, 2)):
            els = template(kind, t)
            k2, els2 = second_column(kind)
            comps = U.compositions(6)
            extra = [[0, 0, 2, 2, 6], [0, 1, 1, 1, 6, 6], [0, 0, 6], [0, 3, 3, 6]]
            if quick and kind != 'point':
                comps = rng.sample(comps, 5)
            for cuts in comps + extra:
                keys = KEYS[:7] if not quick else [KEYS[i] for i in ((0, 2, 4) if len(cuts) % 2 else (1, 2, 6))]
                spec(kind, els, k2, els2, 'g', [['from_delayed', cuts]], keys)
        # smaller frames: every split of n <= 4 rows of the 2nd template
        for n in ((3,) if quick else (1, 2, 3, 4, 5)):
            els = template(kind, 1)[1:1 + n]
            k2, els2 = second_column(kind)
            for cuts in U.compositions(n):
                spec(kind, els, k2, els2[:n], 'g', [['from_delayed', cuts]],
                     [KEYS[0], KEYS[3], KEYS[7]])
    # B. every kind x provenance
    box = [2, 2, 6, 6]
    for kind in G.KINDS:
        for t in (((G.KINDS.index(kind) + rep.seed) % 3,) if quick else (0, 1, 2)):
            els = template(kind, t)
            k2, els2 = second_column(kind)
            reps = 1 if quick else 4
            for _ in range(reps):
                cuts = rng.choice(U.compositions(6) + [[0, 0, 2, 2, 6], [0, 1, 1, 4, 6, 6]])
                base = ['from_delayed', cuts]
                npk = rng.randint(1, 6)
                provs = [
                    [['from_pandas', npk]],
                    [base, ['filter_isin', sorted(rng.sample(range(6), rng.randint(0, 4)))]],
                    [base, ['cache'], ['filter_gt', rng.randint(0, 5)]],
                    [base, ['cache'], ['cols', ['h', 'v', 'g']], ['persist']],
                    [base, ['cache'], ['set_geometry', 'h']],
                    [['from_pandas', npk], ['set_geometry', 'h'], ['cache'], ['set_geometry', 'g']],
                    [base, ['pack', rng.randint(1, 4), rng.choice([1, 5, 15])]],
                    [base, ['parquet', None, None]],
                    [base, ['parquet', 'h', None]],
                    ([base, ['parquet', rng.choice([None, 'g']), box]] if not quick else
                     [base, ['filter_gt', rng.randint(0, 4)]]),
                    [base, ['cxp', list(KEYS[1])]],
                    [['from_concat', rng.randint(1, 5)]],
                    [base, ['mapid']],
                    [base, ['filter_isin', [0, 2, 3, 5]], ['cx', list(KEYS[0])]],
                ]
                ki = G.KINDS.index(kind)
                for pi, steps in enumerate(provs):
                    if quick and steps[-1][0] in ('pack', 'parquet') and (ki + pi) % 2:
                        continue      # thinned in the quick tier: B2 / B3 and C09 cover them
                    keys = rng.sample(KEYS, 3 if quick else 5)
                    act = 'h' if steps[-1][0] in ('from_concat', 'mapid') else rng.choice(['g', 'g', 'h'])
                    spec(kind, els, k2, els2, act, steps, keys)
    # B2. parquet datasets of 11, 12, 13, 25 partitions (two-digit partition labels in the
    #     stored bounds), written by to_parquet and by pack_partitions_to_parquet
    many = [('point', 11), ('point', 12), ('line', 13), ('point', 25)] if quick else \
        [(k, n) for k in G.KINDS for n in (11, 12, 13, 25)]
    for kind, nparts in many:
        n = nparts + 1
        els, k2, els2 = big_frame(kind, n)
        cuts = list(range(nparts)) + [n]          # nparts partitions, the last holds two rows
        keys = [KEYS[0], KEYS[1], KEYS[7]] + ([] if quick else [KEYS[2], KEYS[6]])
        spec(kind, els, k2, els2, 'g', [['from_delayed', cuts], ['parquet', None, None]], keys)
        if (kind == 'point' and nparts != 11) or not quick:
            m = min(60, 3 * nparts)               # enough distinct keys for nparts real parts
            els, k2, els2 = big_frame(kind, m)
            spec(kind, els, k2, els2, 'g',
                 [['from_delayed', [0, m // 2, m]], ['pack_to_parquet', nparts]], keys)
    # B3. bounds= that really drops partitions, two geometry columns, non-active column used,
    #     written back and re-read
    for kind in (['point', 'line'] if quick else G.KINDS):
        els = template(kind, 0)
        k2, els2 = second_column(kind)
        singles = ['from_delayed', [0, 1, 2, 3, 4, 5, 6]]
        for act, geom, bx in (('g', None, [2, 2, 4, 4]), ('h', 'h', [0, 0, 3, 3]),
                              ('g', 'g', [6.5, 0, 8, 1.5])):
            spec(kind, els, k2, els2, act, [singles, ['parquet', geom, bx]], KEYS[:3])
        spec(kind, els, k2, els2, 'g', [singles, ['parquet', None, [2, 2, 4, 4]],
                                        ['parquet', None, None]], KEYS[:3])
        spec(kind, els, k2, els2, 'g', [singles, ['parquet', None, [2, 2, 4, 4]],
                                        ['parquet', 'h', None]], KEYS[:3])
    # B4. coordinates in the millions, neighbouring boxes that agree in their first six
    #     significant digits, several lazy queries alive at once
    OFF = 5000000
    far_keys = [tuple(OFF + v for v in k) for k in
                ((2, 6, 2, 6), (1.5, 4.5, 0.5, 3.5), (3, 4, 3, 4), (6, 9, 6, 9))]
    for kind in (['point', 'multipolygon'] if quick else G.KINDS):
        els = template(kind, 0)
        k2, els2 = second_column(kind)
        base = ['from_delayed', rng.choice([[0, 2, 4, 6], [0, 3, 6], [0, 1, 2, 3, 4, 5, 6]])]
        for steps in ([base], [base, ['set_geometry', 'h']], [base, ['pack', 2, 15]],
                      [base, ['cache'], ['filter_isin', [0, 2, 3, 5]]])[:3 if quick else 4]:
            specs.append({'kind_g': kind, 'els_g': els, 'kind_h': k2, 'els_h': els2,
                          'active': 'g', 'steps': steps, 'keys': [list(k) for k in far_keys],
                          'offset': OFF, 'lazy': True})
    # C. random frames, random splits, random provenance
    for _ in range(40 if quick else 800):
        kind = rng.choice(G.KINDS)
        els, k2, els2 = random_frame(rng, kind)
        n = len(els)
        steps = [['from_delayed', random_cuts(rng, n)]]
        r = rng.random()
        if r < 0.25:
            steps.append(['filter_isin', sorted(rng.sample(range(n), rng.randint(0, n)))])
        elif r < 0.35:
            steps += [['cache'], ['set_geometry', 'h']]
        elif r < 0.45:
            steps.append(['pack', rng.randint(1, 4), rng.choice([1, 5, 15, 20])])
        elif r < 0.6:
            steps.append(['parquet', rng.choice([None, 'g', 'h']), rng.choice([None, None, box])])
        elif r < 0.7:
            steps += [['cache'], ['filter_gt', rng.randint(0, n)], ['persist']]
        keys = rng.sample(KEYS, 3) + [rand_key(rng)]
        spec(kind, els, k2, els2, rng.choice(['g', 'g', 'h']), steps, keys)
    # D. coordinates that are not small integers (computed decimals needing 17 significant
    #    digits, 53 random bits, both signs, 7 integer digits + a long fraction, 2^53, 1e-11,
    #    extents of 2^-30 at 1e6), query boxes and right shapes that TOUCH the extreme rows
    specs += float_specs(rep, quick)
    # E. several frames alive in one process that differ only in the geometry content
    #    (sibling slices of one parent array, one coordinate, which row is missing, which
    #    column is active)
    specs += family_specs(rep, quick)
    return specs


# --------------------------------------------------------------------------
# D. arbitrary float64 coordinates
# --------------------------------------------------------------------------
FPOOLS = ['dec', 'rnd', 'mixed', 'big', 'small', 'tight']


def fcoord(rng, pool):
    if pool == 'dec':        # what ordinary arithmetic produces: k/7, k*0.1, 0.1*a + 0.2*b, k/100
        r = rng.randrange(4)
        if r == 0:
            return rng.randint(0, 56) / 7
        if r == 1:
            return rng.randint(0, 80) * 0.1
        if r == 2:
            return 0.1 * rng.randint(0, 40) + 0.2 * rng.randint(0, 20)
        return rng.randint(0, 800) / 100
    if pool == 'rnd':        # 53 random bits in [-4, 4)
        return rng.getrandbits(53) / 2.0 ** 50 - 4.0
    if pool == 'mixed':      # seven integer digits and a 32-bit fraction
        return 1234567.0 + rng.getrandbits(35) / 2.0 ** 32
    if pool == 'big':        # spacing 2 (above 2^53)
        return 2.0 ** 53 + 2.0 * rng.randint(0, 40)
    if pool == 'small':      # 1e-11 .. 1e-9
        return rng.randint(1, 80) * 1.1e-11
    if pool == 'tight':      # extent 2^-24 at magnitude 1e6
        return 1.0e6 + rng.randint(0, 64) * 2.0 ** -30
    raise ValueError(pool)


def float_frame(rng, kind, pool, n=6):
    """n rows with coordinates of one pool; row 1 missing, row 4 empty (missing for points)"""
    k2 = 'line' if kind == 'point' else 'point'

    def box():
        x = sorted(fcoord(rng, pool) for _ in range(2))
        y = sorted(fcoord(rng, pool) for _ in range(2))
        return (x[0], y[0], x[1], y[1])
    els, els2 = [], []
    for i in range(n):
        els.append(None if i == 1 else U.empty_el(kind) if i == 4 else U.shape(kind, *box()))
        els2.append(None if i == 3 else U.shape(k2, *box()))
    return els, k2, els2


def touch_keys(rng, els, cuts, nkeys):
    """cx keys with one side exactly ON the extreme coordinate of a partition (from outside:
    box and partition box only touch), one ulp beyond it, with omitted ends, and boxes cut
    through the data; LO / HI lie beyond all coordinates"""
    import math
    boxes = [U.el_box(e) for e in els]
    have = [b for b in boxes if b is not None]
    if not have:
        return [(0.0, 1.0, 0.0, 1.0)]
    lo = min(min(b[0], b[1]) for b in have)
    hi = max(max(b[2], b[3]) for b in have)
    LO, HI = lo - (hi - lo) - 1.0, hi + (hi - lo) + 1.0
    chunks = [[b for b in boxes[a:z] if b is not None] for a, z in zip(cuts[:-1], cuts[1:])]
    chunks = [c for c in chunks if c] or [have]
    keys = []
    sides = ['x1', 'x0', 'y1', 'y0']
    rng.shuffle(sides)
    for i in range(nkeys):
        c = rng.choice(chunks)
        side = sides[i % 4]
        e = {'x1': max(b[2] for b in c), 'x0': min(b[0] for b in c),
             'y1': max(b[3] for b in c), 'y0': min(b[1] for b in c)}[side]
        form = ('touch', 'touch', 'omitted', 'ulp-out', 'cut')[i % 5] if i else 'touch'
        if form == 'ulp-out':
            e = math.nextafter(e, math.inf if side in ('x1', 'y1') else -math.inf)
        if form == 'cut':
            o = rng.choice(have)
            keys.append(tuple(rng.choice([(e, o[2], LO, o[3]), (o[0], e, o[1], HI),
                                          (o[0], HI, e, o[1]), (LO, o[2], o[3], e)])))
            continue
        A, Z = (None, None) if form == 'omitted' else (LO, HI)
        keys.append({'x1': (e, Z, A, Z), 'x0': (A, e, A, Z),
                     'y1': (A, Z, e, Z), 'y0': (A, Z, A, e)}[side])
    return keys


def float_specs(rep, quick):
    rng = rep.rng
    out = []
    others = [k for k in G.KINDS if k != 'point']
    for pi, pool in enumerate(FPOOLS):
        for r in range(1 if quick else 8):
            kind = 'point' if (pi + rep.seed + r) % 2 == 0 else rng.choice(others)
            if pool == 'big' and r == 0:
                kind = 'point'     # every run meets single-point partitions at 2^53 (zero extent
                                   # that x + 1.0 cannot widen: repaired in /repo, 7cf01a0)
            els, k2, els2 = float_frame(rng, kind, pool)
            cuts = rng.choice(U.compositions(6)[1:] + [[0, 0, 2, 2, 6], [0, 3, 3, 6]])
            base = ['from_delayed', cuts]
            act = 'g' if kind == 'point' or rng.random() < 0.7 else 'h'
            keys = touch_keys(rng, els if act == 'g' else els2, cuts, 5 if quick else 8)
            k0 = keys[0]                          # no omitted end
            bx = [min(k0[0], k0[1]), min(k0[2], k0[3]), max(k0[0], k0[1]), max(k0[2], k0[3])]
            menu = [[['from_pandas', rng.randint(1, 4)]],
                    [base],
                    [base, ['pack', rng.randint(1, 3), rng.choice([5, 15])]],
                    [base, ['pack_to_parquet', 2]],
                    [base, ['parquet', act, None]],
                    [base, ['parquet', g_or_none0(act), bx]],
                    [base, ['parquet', act, bx]],
                    [base, ['cache'], ['filter_gt', rng.randint(0, 2)]],
                    [base, ['cache'], ['cols', ['h', 'v', 'g']], ['persist']],
                    [base, ['parquet', None, None], ['parquet', None, None]],
                    [['from_concat', rng.randint(1, 5)]]]
            g_or_none = None if act == 'g' else 'h'     # keep the column the keys were made for
            menu = [[st if st != ['parquet', None, None] else ['parquet', g_or_none, None]
                     for st in steps] for steps in menu]
            provs = [[base, ['parquet', g_or_none, None]]] + rng.sample(menu, 2 if quick else 6)
            if pool == 'big' and r == 0:
                provs.append([['from_delayed', [0, 1, 2, 3, 4, 5, 6]]])
            for steps in provs:
                out.append({'kind_g': kind, 'els_g': els, 'kind_h': k2, 'els_h': els2,
                            'active': act, 'steps': steps, 'keys': [list(k) for k in keys],
                            'float': pool})
    return out


def g_or_none0(act):
    return None if act == 'g' else 'h'


def touching_right(bounds_rows, ev):
    """a right frame of lines (or triangles) that start exactly at the points of the left
    frame and run away from all of them"""
    from spatialpandas import GeoDataFrame
    pts = [(float(b[0]), float(b[1])) for b in bounds_rows if not np.isnan(b).any()][:5]
    if not pts:
        pts = [(0.0, 0.0)]
    hi = max(max(p) for p in pts)
    lo = min(min(p) for p in pts)
    HI = hi + (hi - lo) + 1.0
    if ev % 2:
        kind, els = 'line', [[x, y, HI, HI] for x, y in pts]
    else:
        kind, els = 'polygon', [[[x, y, HI, y, HI, HI, x, y]] for x, y in pts]
    els.insert(1, None)
    right = GeoDataFrame({'rg': G.make_array(kind, els),
                          'rv': [300 + i for i in range(len(els))]})
    return 'touching-' + kind, right


# --------------------------------------------------------------------------
# E. sibling frames
# --------------------------------------------------------------------------
def family_specs(rep, quick):
    rng = rep.rng
    out = []
    modes = ['slices', 'slices', 'values', 'nulls', 'active']
    for mi, mode in enumerate(modes * (1 if quick else 6)):
        kind = G.KINDS[(mi + rep.seed + mi // len(modes)) % len(G.KINDS)] if mi else 'line'
        if mode == 'slices' and mi % len(modes) == 1:
            kind = 'point'
        k2 = 'line' if kind == 'point' else 'point'
        s = lambda *b: U.shape(kind, *b)
        s2 = lambda *b: U.shape(k2, *b)
        members = []
        nm = 2 if mode in ('nulls', 'active') else 3
        for i in range(nm):
            dx, dy = (2 * i, i) if mode == 'slices' else (0, 0)
            g = [s(dx, dy, 1 + dx, 1 + dy), None, s(1 + dx, 2 + dy, 3 + dx, 3 + dy),
                 s(dx, 3 + dy, 2 + dx, 4 + dy)]
            h = [s2(1 + dx, 1 + dy, 2 + dx, 1 + dy), s2(dx, dy, dx, 2 + dy),
                 s2(2 + dx, 3 + dy, 3 + dx, 4 + dy), s2(dx, 2 + dy, 1 + dx, 3 + dy)]
            act = 'g'
            if mode == 'values':       # one coordinate of one row
                g[2] = s(1, 2, 3, 3 + i)
                h[3] = s2(0, 2, 1, 3 + i)
            if mode == 'nulls' and i == 1:      # which row is missing (and which one empty)
                if kind == 'point':
                    g[1], g[2] = g[2], g[1]
                else:
                    g[3] = []
                    members[0]['els_g'][3] = None
                    members[0]['els_g'][1] = []
            if mode == 'active':
                act = 'gh'[i]
            members.append({'els_g': g, 'els_h': h, 'active': act})
        order = list(range(nm))
        rng.shuffle(order)
        out.append({'kind_g': kind, 'kind_h': k2, 'els_g': members[0]['els_g'],
                    'els_h': members[0]['els_h'], 'active': 'g',
                    'family': {'mode': mode, 'members': members, 'sliced': mode == 'slices',
                               'npartitions': rng.randint(1, 3), 'order': order,
                               'reverse_creation': rng.random() < 0.5},
                    'steps': [['siblings', mode]],
                    'keys': [list(k) for k in rng.sample(KEYS[:2] + KEYS[6:9], 2)]})
    # right frames of sjoin that are sibling slices
    for r in range(1 if quick else 4):
        left = [[1 + (i % 4) * 2, 1 + (i // 4) * 2] for i in range(8)]
        left[rng.randrange(8)] = None
        rights = [[[[2 * i, j, 2 * i + 2, j, 2 * i + 2, j + 2, 2 * i, j + 2, 2 * i, j]]
                   for j in (0, 2)] + [None] for i in range(3)]
        out.append({'kind_g': 'point', 'els_g': left, 'kind_h': 'line',
                    'els_h': [[x, 0, x + 1, 1] for x in range(8)], 'active': 'g',
                    'right_family': {'members': rights, 'npartitions': rng.randint(1, 3)},
                    'steps': [['sibling-rights']], 'keys': [list(KEYS[0])]})
    return out


def member_frames(spec):
    fam = spec['family']
    ms = fam['members']
    if fam['sliced']:
        n = len(ms[0]['els_g'])
        pg = G.make_array(spec['kind_g'], sum((m['els_g'] for m in ms), []))
        ph = G.make_array(spec['kind_h'], sum((m['els_h'] for m in ms), []))
        return [U.make_frame_arrays(pg[i * n:(i + 1) * n], ph[i * n:(i + 1) * n], m['active'])
                for i, m in enumerate(ms)]
    return [U.make_frame(spec['kind_g'], m['els_g'], spec['kind_h'], m['els_h'], active=m['active'])
            for m in ms]


def run_family(ctx, spec):
    """all members become Dask collections first (and stay referenced), then each one is
    examined like any other frame against ITS pandas frame"""
    import dask.dataframe as dd
    rep = ctx.rep
    fam = spec['family']
    dfs = member_frames(spec)
    npart = fam['npartitions']
    idx = list(range(len(dfs)))
    created = {}
    for i in (idx[::-1] if fam.get('reverse_creation') else idx):
        created[i] = dd.from_pandas(dfs[i], npartitions=npart)
    series = {i: dd.from_pandas(dfs[i].geometry, npartitions=npart) for i in idx}
    rep.count('sibling-family:' + fam['mode'])
    sigs = [U.frame_sig(d) for d in dfs]
    if len(set(map(repr, sigs))) + (fam['mode'] == 'active') <= 1:
        rep.count('sibling-family-without-difference')
    for i in fam['order']:
        m = fam['members'][i]
        mspec = dict(spec, els_g=m['els_g'], els_h=m['els_h'], active=m['active'], member=i)
        check_frame(ctx, created[i], mspec, dfs[i], True, True)
        check_series_member(ctx, series[i], dfs[i].geometry, mspec)
    del created, series


def check_series_member(ctx, ds, s, spec):
    rep = ctx.rep
    rep.count('sibling-series-checked')
    try:
        tb = tuple(float(v) for v in ds.total_bounds)
        rtb = tuple(float(v) for v in s.total_bounds)
        ok = U.same_floats(tb, rtb)
        ok = ok and U.frame_sig(ds.compute()) == U.frame_sig(s)
        ok = ok and U.same_floats(np.asarray(ds.bounds.compute()), np.asarray(s.bounds))
        ok = ok and U.same_floats(np.asarray(ds.length.compute()), np.asarray(s.length))
        xs, ys = U.key_slices(tuple(spec['keys'][0]))
        ok = ok and U.frame_sig(ds.cx[xs, ys].compute()) == U.frame_sig(s.cx[xs, ys])
    except Exception as e:
        viol(ctx, 'series-raises:siblings', f'{type(e).__name__}: {str(e)[:200]}', spec)
        return
    if not ok:
        viol(ctx, 'series-differs:siblings',
             f'dd.from_pandas of GeoSeries number {spec["member"]} of a family of sibling series '
             f'(mode {spec["family"]["mode"]}) does not answer like that series '
             f'(total_bounds {tb}, pandas {rtb})', spec)


def run_right_family(ctx, spec):
    """one Dask frame joined with right frames that are sibling slices of one array: all the
    joins are built first, then computed"""
    import dask
    import dask.dataframe as dd
    from spatialpandas import GeoDataFrame, sjoin
    rep = ctx.rep
    fam = spec['right_family']
    ms = fam['members']
    n = len(ms[0])
    parent = G.make_array('polygon', sum(ms, []))
    rights = [GeoDataFrame({'rg': parent[i * n:(i + 1) * n], 'rv': np.arange(n) + 100})
              for i in range(len(ms))]
    df = U.make_frame(spec['kind_g'], spec['els_g'], spec['kind_h'], spec['els_h'], active='g')
    X = dd.from_pandas(df, npartitions=fam['npartitions'])
    rep.evaluations += 1
    rep.count('sibling-rights-family')
    for how in ('inner', 'left'):
        joins = [sjoin(X, r, how=how) for r in rights]
        got = dask.compute(*joins) if how == 'inner' else [j.compute() for j in joins[::-1]][::-1]
        for i, (g, r) in enumerate(zip(got, rights)):
            want = sjoin(df, r, how=how)
            if sorted(U.frame_sig(g)) != sorted(U.frame_sig(want)):
                viol(ctx, f'sjoin-differs:{how}:sibling-rights',
                     f'sjoin(ddf, right number {i} of {len(rights)} sibling slices, how={how!r}) '
                     f'differs from the pandas join: dask {len(g)} rows, pandas {len(want)}',
                     spec, how=how, member=i)
            elif len(want):
                rep.nontrivial(('sibling-rights', how, i, repr(spec['els_g'])))


def rand_key(rng):
    def end():
        return None if rng.random() < 0.15 else rng.randint(-2, 18) / 2
    while True:
        k = (end(), end(), end(), end())
        if (k[0] is None or k[1] is None or k[0] != k[1]) and \
           (k[2] is None or k[3] is None or k[2] != k[3]):
            return k


# --------------------------------------------------------------------------
# provenance
# --------------------------------------------------------------------------
ctx_counts = []


class Unclaimed(Exception):
    """the provenance step raised where the property claims nothing"""


def apply_steps(df, steps, tmpdirs):
    """-> (Dask frame, expected pandas frame or None, ordered?, index kept?, ids of the rows
    the frame must at least hold (after read_parquet_dask(bounds=)) or None)"""
    import dask.dataframe as dd
    from spatialpandas.io import read_parquet_dask
    X, expect, ordered, index_kept, must_have = None, df, True, True, None
    for st in steps:
        op = st[0]
        if op in ('filter_isin', 'filter_gt', 'cxp', 'cx'):
            must_have = None
        if op == 'from_delayed':
            X = U.dask_from_chunks(df, st[1])
        elif op == 'from_pandas':
            X = dd.from_pandas(df, npartitions=st[1])
        elif op == 'from_concat':
            k = st[1]
            X = dd.concat([dd.from_pandas(df.iloc[:k], npartitions=1),
                           dd.from_pandas(df.iloc[k:], npartitions=max(1, min(2, len(df) - k)))])
        elif op == 'mapid':
            X = X.map_partitions(lambda d: d.copy())
        elif op == 'filter_isin':
            X = X[X.v.isin(st[1])]
            expect = expect[expect.v.isin(st[1])] if expect is not None else None
        elif op == 'filter_gt':
            X = X[X.v > st[1]]
            expect = expect[expect.v > st[1]] if expect is not None else None
        elif op == 'cache':
            X.partition_sindex
            X.geometry.partition_bounds
            X.geometry.total_bounds
        elif op == 'cols':
            X = X[st[1]]
            expect = expect[st[1]] if expect is not None else None
        elif op == 'set_geometry':
            X = X.set_geometry(st[1])
            expect = expect.set_geometry(st[1]) if expect is not None else None
        elif op == 'persist':
            X = X.persist()
        elif op == 'pack':
            try:
                X = X.pack_partitions(npartitions=st[1], p=st[2])
                X.compute()
            except Exception as e:   # C09 is about pack_partitions itself
                raise Unclaimed('pack_partitions raises ' + type(e).__name__)
            ordered, index_kept = False, False
        elif op == 'parquet':
            d = tempfile.mkdtemp(prefix='sp_c06_')
            tmpdirs.append(d)
            path = os.path.join(d, 'f.parq')
            X.to_parquet(path)
            kw = {}
            if st[1] is not None:
                kw['geometry'] = st[1]
                expect = expect.set_geometry(st[1]) if expect is not None else None
            if st[2] is not None:
                kw['bounds'] = tuple(st[2])
            nbefore = len(X.to_delayed())
            X = read_parquet_dask(path, **kw)
            if st[2] is not None:
                if expect is not None:
                    # read_parquet_dask(bounds=B) keeps the partitions that can hold a row
                    # meeting B: every row of the written frame that intersects B is there
                    b = tuple(st[2])
                    e2 = expect if st[1] is not None else expect.set_geometry(U.active_name(X))
                    must_have = set(int(v) for v in e2.cx[b[0]:b[2], b[1]:b[3]]['v'].tolist())
                expect = None
            if st[2] is not None and len(X.to_delayed()) < nbefore:
                ctx_counts.append('bounds=-dropped-partitions')
            if st[1] is None and expect is not None:
                # which column is active after a plain read is C11 / C20's business
                expect = expect.set_geometry(U.active_name(X))
        elif op == 'pack_to_parquet':
            d = tempfile.mkdtemp(prefix='sp_c06_')
            tmpdirs.append(d)
            try:
                X = X.pack_partitions_to_parquet(os.path.join(d, 'p.parq'), npartitions=st[1])
            except Exception as e:   # C10 / C09 are about this call
                raise Unclaimed('pack_partitions_to_parquet raises ' + type(e).__name__)
            ordered, index_kept = False, False
            if expect is not None:
                expect = expect.set_geometry(U.active_name(X))
        elif op == 'cxp':
            xs, ys = U.key_slices(tuple(st[1]))
            X = X.cx_partitions[xs, ys]
            expect = None
        elif op == 'cx':
            xs, ys = U.key_slices(tuple(st[1]))
            X = X.cx[xs, ys]
            expect = expect.cx[xs, ys] if expect is not None else None
        else:
            raise ValueError(op)
    return X, expect, ordered, index_kept, must_have


# --------------------------------------------------------------------------
# the checks on one Dask frame
# --------------------------------------------------------------------------
class Ctx:
    def __init__(self, rep):
        self.rep = rep
        self.cases, self.results, self.metas = [], [], []
        self.sj_cases, self.sj_results, self.sj_metas = [], [], []
        self.rights = right_frames()


def viol(ctx, sig, what, spec, **kw):
    ctx.rep.violation(sig, what, {'spec': spec, **kw})


def check_frame(ctx, X, spec, expect, ordered, index_kept, must_have=None):
    import dask
    from spatialpandas import sjoin
    rep = ctx.rep
    prov = '+'.join(s[0] for s in spec['steps'])
    last = spec['steps'][-1][0]
    ref = X.compute()
    parts = U.compute_parts(X)
    nparts = len(parts)
    rep.evaluations += 1
    rep.count('prov:' + last)
    if nparts >= 11:
        rep.count(f'partitions>=11:{last}')
    rep.count('kind:' + spec['kind_g'] if spec['active'] == 'g' else 'kind:' + spec['kind_h'])

    # ---- contracts of the plumbing
    ref_sig = U.frame_sig(ref)
    if X.npartitions != nparts:
        rep.count('npartitions-attribute-differs-from-computed:' + last)   # not promised by C06
    if sum((U.frame_sig(p) for p in parts), []) != ref_sig:
        viol(ctx, 'contract:compute-is-not-concat:' + last,
             'X.compute() differs from the concatenation of the partitions of X', spec)
        return
    if expect is not None:
        es = U.frame_sig(expect)
        a, b = (ref_sig, es) if index_kept else ([r[1:] for r in ref_sig], [r[1:] for r in es])
        if (a != b) if ordered else (sorted(a) != sorted(b)):
            viol(ctx, 'rows-differ:' + last,
                 f'the Dask frame obtained by {prov} does not hold the rows of the pandas frame '
                 'obtained the same way', spec, dask_rows=ref_sig, pandas_rows=es)
            return
        if U.active_name(expect) != U.active_name(ref):
            viol(ctx, 'active-geometry:' + last,
                 f'after {prov} the computed frame has active geometry {U.active_name(ref)!r}, '
                 f'pandas has {U.active_name(expect)!r}', spec)
            return
    if must_have is not None:
        rep.count('bounds=-rows-required', len(must_have))
        lost = sorted(must_have - set(int(v) for v in ref['v'].tolist()))
        if lost:
            viol(ctx, 'bounds=-loses-row:' + last,
                 f'read_parquet_dask(bounds=...) after {prov} lacks rows {lost} of the written '
                 'frame although they intersect the box (pandas cx on the written frame)', spec)
            return
    an = U.active_name(X)
    if an is None or an != U.active_name(ref):
        viol(ctx, 'active-geometry:' + last,
             f'after {prov} the collection says active geometry {an!r}, its partitions '
             f'{U.active_name(ref)!r}', spec)
        return
    gs, rs = X.geometry, ref.geometry
    vs = ref['v'].tolist()
    if len(set(vs)) != len(vs):
        viol(ctx, 'contract:duplicated-rows:' + last, 'a row appears twice', spec)
        return
    classes = set()

    # ---- partition_bounds / total_bounds
    pb = np.asarray(gs.partition_bounds.values, dtype='float64')
    direct = np.array([list(p[an].total_bounds) for p in parts], dtype='float64').reshape(-1, 4)
    if not U.same_floats(pb, direct):
        viol(ctx, 'partition_bounds-differ:' + last,
             'partition_bounds differs from the total_bounds of the partitions', spec,
             partition_bounds=pb.tolist(), direct=direct.tolist())
        return
    for i, p in enumerate(parts):
        b = pb[i]
        if len(p) == 0:
            classes.add('empty-partition')
        elif np.isnan(b).all():
            classes.add('all-missing-partition')
    tb = tuple(float(v) for v in gs.total_bounds)
    rtb = tuple(float(v) for v in rs.total_bounds)
    if not U.same_floats(tb, rtb):
        viol(ctx, 'total_bounds-differ:' + last,
             f'Dask total_bounds {tb} but the pandas frame has {rtb}', spec)
    ftb = tuple(float(v) for v in X.geometry.partition_sindex.total_bounds)
    try:
        # the order in which the real index stores the partition boxes (an internal of
        # HilbertRtree); the model's answers do not depend on it (C03_independent)
        keys_arr = [int(k) for k in X.partition_sindex._keys]
        assert sorted(keys_arr) == list(range(nparts))
    except Exception:
        rep.count('internal-unavailable:sindex-keys')
        keys_arr = list(range(nparts))

    # ---- elementwise operations
    for name in ('bounds', 'area', 'length'):
        d = getattr(gs, name).compute()
        r = getattr(rs, name)
        if not (U.same_floats(np.asarray(d), np.asarray(r)) and list(d.index) == list(r.index)):
            viol(ctx, f'{name}-differ:' + last, f'Dask {name} differs from pandas', spec)
    ibox = U.resolve_key(spec['keys'][0], (0, 0, 8, 8))
    d = gs.intersects_bounds(ibox).compute()
    r = rs.intersects_bounds(ibox)
    if not (list(np.asarray(d)) == list(np.asarray(r))
            and (not hasattr(d, 'index') or list(d.index) == list(ref.index))):
        viol(ctx, 'intersects_bounds-differ:' + last,
             f'Dask intersects_bounds({ibox}) differs from pandas', spec)

    # ---- cx / cx_partitions
    if rep.evaluations % 3 == 0:
        ref_q = ref.copy()
        ref_q.build_sindex()      # the pandas side through its spatial index as well
    else:
        ref_q = ref
    part_sigs = [U.frame_sig(p) for p in parts]
    bounds_rows = np.asarray(rs.bounds.values, dtype='float64')
    per_key, hit_bits = [], []
    used_keys = []
    for key in spec['keys']:
        key = tuple(key)
        rb = U.resolve_key(key, rtb)
        if rb[0] == rb[2] or rb[1] == rb[3]:
            # the property is about boxes of positive area (an omitted end can resolve to
            # the given one); zero-extent boxes are C01 / C04's business
            rep.count('zero-area-key-skipped')
            continue
        used_keys.append(key)
        xs, ys = U.key_slices(key)
        pr = ref_q.cx[xs, ys]
        box = U.resolve_key(key, rtb)
        if any(np.isnan(v) for v in box):
            bits = [False] * len(ref)
            classes.add('nan-query')
        else:
            bits = [bool(b) for b in np.asarray(rs.intersects_bounds(box))]
            for i in range(nparts):
                b = pb[i]
                if not np.isnan(b).any():
                    if box[0] <= b[0] and b[2] <= box[2] and box[1] <= b[1] and b[3] <= box[3]:
                        classes.add('partition-inside-box')
                    elif b[2] < box[0] or b[0] > box[2] or b[3] < box[1] or b[1] > box[3]:
                        classes.add('partition-outside-box')
                    else:
                        classes.add('partition-overlaps-box')
        hit_bits.append(bits)
        try:
            import pandas as pd
            dc = X.cx[xs, ys]
            dparts = U.compute_parts(dc)
            dcc = pd.concat(dparts) if rep.evaluations % 5 else dc.compute()
        except Exception as e:
            viol(ctx, 'cx-raises:' + last, f'cx[{key}] raised {type(e).__name__}: {str(e)[:200]}',
                 spec, key=key)
            continue
        if U.frame_sig(dcc) != U.frame_sig(pr):
            viol(ctx, 'cx-differs:' + last,
                 f'ddf.cx[{key}] returns rows {dcc["v"].tolist()} but the pandas frame returns '
                 f'{pr["v"].tolist()}', spec, key=key)
        if U.active_name(dc) != an:
            viol(ctx, 'cx-active-geometry:' + last, 'cx changed the active geometry', spec, key=key)
        # series form
        sc = gs.cx[xs, ys].compute() if key == tuple(spec['keys'][0]) or not quick_ops(rep) else None
        psc = ref_q.geometry.cx[xs, ys]
        if sc is not None and U.frame_sig(sc) != U.frame_sig(psc):
            viol(ctx, 'series-cx-differs:' + last,
                 f'ddf.geometry.cx[{key}] differs from the pandas series', spec, key=key)
        # cx_partitions: whole partitions, jointly containing every intersecting row
        cp = X.cx_partitions[xs, ys]
        cparts = U.compute_parts(cp)
        got = set()
        whole = True
        avail = list(part_sigs)
        for c in cparts:
            cs = U.frame_sig(c)
            got.update(c['v'].tolist())
            if cs in avail:
                avail.remove(cs)       # every returned partition is a partition of X, once
            elif len(cs) == 0:
                pass                   # the empty frame returned when nothing is selected
            else:
                whole = False
        if not whole:
            viol(ctx, 'cx_partitions-not-whole:' + last,
                 f'cx_partitions[{key}] does not consist of whole partitions of the frame',
                 spec, key=key)
        if not set(pr['v'].tolist()) <= got:
            viol(ctx, 'cx_partitions-misses-row:' + last,
                 f'cx_partitions[{key}] lacks rows {sorted(set(pr["v"].tolist()) - got)} that '
                 'intersect the box', spec, key=key)
        per_key.append((U.nat_lists(cparts), U.nat_lists(dparts),
                        [C.Nat(int(v)) for v in pr['v'].tolist()]))
    for c in classes:
        rep.count(c)
    if any(len(p[2]) for p in per_key):
        rep.nontrivial((spec['kind_g'], spec['active'], repr(spec['steps']), repr(spec['els_g']),
                        repr(spec['keys'])))

    # ---- the model
    if len(per_key) == len(used_keys):
        # every number of the case as an exact integer under one power-of-two scale
        sk = U.log2scale([bounds_rows, pb, tb, ftb, [list(key) for key in used_keys]])
        if sk > 60:
            rep.count('model-case-scale>2^60')
        rows_by_part, k = [], 0
        for p in parts:
            rows = []
            for j in range(len(p)):
                rows.append((C.Nat(int(vs[k])), U.cbox_k(bounds_rows[k], sk),
                             [bits[k] for bits in hit_bits]))
                k += 1
            rows_by_part.append(rows)
        ctx.cases.append((rows_by_part, [C.Nat(x) for x in keys_arr],
                          [U.ckey_k(tuple(key), sk) for key in used_keys]))
        ctx.results.append(([U.cbox_k(r, sk) for r in pb], U.cbox_k(tb, sk),
                            [U.znum(v, sk) for v in ftb], per_key))
        ctx.metas.append(spec)

    # ---- every geometry column, not only the active one (column selection ddf[c])
    if last in ('parquet', 'pack_to_parquet') or rep.evaluations % (7 if quick_ops(rep) else 2) == 0:
        check_all_geometry_columns(ctx, X, ref, parts, spec, last)

    # ---- several lazy cx queries over the same partitions
    if spec.get('lazy') or rep.evaluations % (11 if quick_ops(rep) else 3) == 0:
        check_lazy_queries(ctx, X, ref, spec, last, used_keys)

    # ---- sjoin (the left geometry must be points: intersects() exists for PointArray only)
    kind_active = spec['kind_g'] if an == 'g' else spec['kind_h']
    if kind_active == 'point' and 'g' in ref.columns and 'h' in ref.columns:
        rname, right = ctx.rights[rep.evaluations % len(ctx.rights)]
        if spec.get('float'):
            # shapes that START exactly at points of the left frame (the extreme rows of the
            # partitions among them): the partition box and the shape's box only touch
            rname, right = touching_right(bounds_rows, rep.evaluations)
        for how in ('inner', 'left'):
            try:
                pj = sjoin(ref, right, how=how)
            except Exception as e:
                rep.count('sjoin-pandas-raises:' + type(e).__name__)
                continue
            try:
                dj = sjoin(X, right, how=how)
                djparts = U.compute_parts(dj)
                djc = dj.compute()
            except Exception as e:
                viol(ctx, f'sjoin-raises:{how}:' + last,
                     f'sjoin(ddf, right, how={how!r}) raised {type(e).__name__}: {str(e)[:200]} '
                     'while the pandas join succeeds', spec, how=how, right=rname)
                continue
            rep.count('sjoin:' + how)
            a, b = sorted(U.frame_sig(djc)), sorted(U.frame_sig(pj))
            if a != b or list(djc.columns) != list(pj.columns):
                viol(ctx, f'sjoin-differs:{how}:' + last,
                     f'sjoin(ddf, right, how={how!r}) differs from the join of the pandas frame '
                     f'(as multisets of complete rows): dask {len(a)} rows, pandas {len(b)}',
                     spec, how=how, right=rname)
                continue
            # model: pairs = those of the pandas inner join
            inner = pj if how == 'inner' else sjoin(ref, right, how='inner')
            rid = {lab: i for i, lab in enumerate(right.index.tolist())}
            tbl = [(C.Nat(int(v)), C.Nat(rid[ir])) for v, ir in
                   zip(inner['v_left' if 'v_left' in inner.columns else 'v'].tolist(),
                       inner['index_right'].tolist())]
            lparts, k = [], 0
            rb = np.asarray(right.geometry.bounds.values, dtype='float64')
            sk2 = U.log2scale([bounds_rows, rb])
            for p in parts:
                lparts.append([(C.Nat(int(vs[k + j])), U.cbox_k(bounds_rows[k + j], sk2))
                               for j in range(len(p))])
                k += len(p)
            rmiss = [bool(x) for x in right.geometry.isna()]
            rrows = [(C.Nat(i), U.cbox_k(rb[i], sk2), rmiss[i]) for i in range(len(right))]

            def codes(f):
                ir = f['index_right'].tolist()
                return sorted(int(v) * 64 + (0 if (x != x or x is None) else rid[int(x)] + 1)
                              for v, x in zip(f['v'].tolist(), ir))
            ctx.sj_cases.append((how == 'left', lparts, rrows, tbl))
            ctx.sj_results.append(([[C.Nat(c) for c in codes(p)] for p in djparts],
                                   [C.Nat(c) for c in codes(pj)]))
            ctx.sj_metas.append({**spec, 'how': how, 'right': rname})


def check_all_geometry_columns(ctx, X, ref, parts, spec, last):
    from spatialpandas.geometry.base import GeometryDtype
    rep = ctx.rep
    for c in ref.columns:
        if not isinstance(ref[c].dtype, GeometryDtype):
            continue
        rep.count('column-series-checked')
        try:
            s = X[c]
            pb = np.asarray(s.partition_bounds.values, dtype='float64').reshape(-1, 4)
            direct = np.array([list(p[c].total_bounds) for p in parts],
                              dtype='float64').reshape(-1, 4)
            if len(pb) != len(parts) or not U.same_floats(pb, direct):
                viol(ctx, 'column-partition_bounds-differ:' + last,
                     f'ddf[{c!r}].partition_bounds has {len(pb)} rows / differs from the extents '
                     f'of column {c!r} in the {len(parts)} partitions', spec, column=c,
                     partition_bounds=pb.tolist(), direct=direct.tolist())
                continue
            tb = tuple(float(v) for v in s.total_bounds)
            rtb = tuple(float(v) for v in ref[c].total_bounds)
            if not U.same_floats(tb, rtb):
                viol(ctx, 'column-total_bounds-differ:' + last,
                     f'ddf[{c!r}].total_bounds {tb}, pandas {rtb}', spec, column=c)
            for key in spec['keys'][:2]:
                key = tuple(key)
                rb = U.resolve_key(key, rtb)
                if rb[0] == rb[2] or rb[1] == rb[3]:
                    continue
                xs, ys = U.key_slices(key)
                d = s.cx[xs, ys].compute()
                r = ref[c].cx[xs, ys]
                if U.frame_sig(d) != U.frame_sig(r):
                    viol(ctx, 'column-cx-differs:' + last,
                         f'ddf[{c!r}].cx[{key}] differs from the pandas series', spec, column=c,
                         key=key)
                got = set(s.cx_partitions[xs, ys].compute().index.tolist())
                if not set(r.index.tolist()) <= got:
                    viol(ctx, 'column-cx_partitions-misses-row:' + last,
                         f'ddf[{c!r}].cx_partitions[{key}] lacks intersecting rows', spec,
                         column=c, key=key)
        except Exception as e:
            viol(ctx, 'column-series-raises:' + last,
                 f'using ddf[{c!r}] raised {type(e).__name__}: {str(e)[:200]} while pandas works',
                 spec, column=c)


def check_lazy_queries(ctx, X, ref, spec, last, keys):
    """build all queries first, then compute them together / concatenated / later"""
    import dask
    import dask.dataframe as dd
    import pandas as pd
    rep = ctx.rep
    keys = [tuple(k) for k in keys][:4]
    if len(keys) < 2:
        return
    rep.count('lazy-queries-checked')
    sl = [U.key_slices(k) for k in keys]
    want = [ref.cx[xs, ys] for xs, ys in sl]
    wsig = [U.frame_sig(w) for w in want]
    try:
        qs = [X.cx[xs, ys] for xs, ys in sl]
        ss = [X.geometry.cx[xs, ys] for xs, ys in sl]
        together = dask.compute(*qs)
        stog = dask.compute(*ss)
        cat = dd.concat(qs).compute()
        later = [q.compute() for q in reversed(qs)][::-1]
    except Exception as e:
        viol(ctx, 'lazy-cx-raises:' + last, f'{type(e).__name__}: {str(e)[:200]}', spec)
        return
    for name, got in (('computed-together', together), ('computed-later', later)):
        for k, g, w in zip(keys, got, wsig):
            if U.frame_sig(g) != w:
                viol(ctx, f'lazy-cx-differs:{name}:' + last,
                     f'several lazy ddf.cx queries {name}: cx[{k}] returns rows '
                     f'{g["v"].tolist()}, pandas has {len(w)} rows',
                     spec, key=k, keys=keys)
                break
    for k, g, (xs, ys) in zip(keys, stog, sl):
        if U.frame_sig(g) != U.frame_sig(ref.geometry.cx[xs, ys]):
            viol(ctx, 'lazy-series-cx-differs:' + last,
                 f'several lazy ddf.geometry.cx queries computed together: cx[{k}] differs from '
                 'pandas', spec, key=k, keys=keys)
            break
    if U.frame_sig(cat) != sum(wsig, []):
        viol(ctx, 'lazy-cx-differs:concat:' + last,
             'dd.concat of several lazy ddf.cx results differs from the concatenation of the '
             'pandas results', spec, keys=keys)


def quick_ops(rep):
    return getattr(rep, 'tier_run', rep.tier) == 'quick'


def run_spec(ctx, spec):
    from spatialpandas import GeoDataFrame  # noqa: F401
    rep = ctx.rep
    tmpdirs = []
    if 'family' in spec:
        run_family(ctx, spec)
        return
    if 'right_family' in spec:
        run_right_family(ctx, spec)
        return
    try:
        off = spec.get('offset', 0)
        df = U.make_frame(spec['kind_g'], [U.shift(e, off) for e in spec['els_g']],
                          spec['kind_h'], [U.shift(e, off) for e in spec['els_h']],
                          active=spec['active'])
        try:
            X, expect, ordered, index_kept, must = apply_steps(df, spec['steps'], tmpdirs)
        except Unclaimed as e:
            rep.count('unclaimed:' + str(e)[:40])
            return
        while ctx_counts:
            rep.count(ctx_counts.pop())
        check_frame(ctx, X, spec, expect, ordered, index_kept, must)
    finally:
        for d in tmpdirs:
            shutil.rmtree(d, ignore_errors=True)


CANON_FN = ("fun c => let '(a, b, t, l) := c06_case c in "
            "(a, b, t, map (fun x => (List.concat (snd (fst x)), snd x)) l)")
CANON_RES_TY = 'list bbox * bbox * row * list (list nat * list nat)'
SJ_CANON_FN = "fun c => let (d, p) := c06_sjoin_case c in (sort_nat (List.concat d), p)"
SJ_CANON_RES_TY = 'list nat * list nat'


def canon(res):
    """what C06 promises of a result: bounds, total bounds, the ROWS of cx[key] in order
    (not how they are split into partitions, not which partitions cx_partitions selects
    beyond the promise checked directly in check_frame)"""
    pbs, tb, ftb, per_key = res
    return (pbs, tb, ftb, [(sum(cx, []), pd) for _cp, cx, pd in per_key])


def sj_canon(res):
    dparts, pj = res
    return (sorted(sum(dparts, []), key=int), pj)


def flush(ctx):
    rep = ctx.rep
    # strict: the model of the code as it is (which partitions are read, how the result is
    # split); a strict difference alone is not a violation of C06: it is re-examined on
    # what the property promises
    bad = C.coq_mismatches(IMPORTS, FN, CASE_TY, RES_TY, ctx.cases, ctx.results, shard=40)
    if bad:
        cases = [ctx.cases[i] for i in bad]
        bad2 = C.coq_mismatches(IMPORTS, CANON_FN, CASE_TY, CANON_RES_TY, cases,
                                [canon(ctx.results[i]) for i in bad], shard=40)
        rep.count('model-structure-differs-rows-agree', len(bad) - len(bad2))
        for i in [bad[j] for j in bad2][:10]:
            model = C.coq_eval(IMPORTS, f'{FN} {C.coq(ctx.cases[i])}')
            rep.violation('model-differs:' + ctx.metas[i]['steps'][-1][0],
                          'partition_bounds / total_bounds / the rows of cx differ from '
                          'Model/DaskModel.v',
                          {'spec': ctx.metas[i], 'case': ctx.cases[i], 'impl': ctx.results[i],
                           'model': model})
    bad = C.coq_mismatches(IMPORTS, SJ_FN, SJ_CASE_TY, SJ_RES_TY, ctx.sj_cases, ctx.sj_results,
                           shard=40)
    if bad:
        cases = [ctx.sj_cases[i] for i in bad]
        bad2 = C.coq_mismatches(IMPORTS, SJ_CANON_FN, SJ_CASE_TY, SJ_CANON_RES_TY, cases,
                                [sj_canon(ctx.sj_results[i]) for i in bad], shard=40)
        rep.count('sjoin-model-structure-differs-rows-agree', len(bad) - len(bad2))
        for i in [bad[j] for j in bad2][:10]:
            model = C.coq_eval(IMPORTS, f'{SJ_FN} {C.coq(ctx.sj_cases[i])}')
            rep.violation('sjoin-model-differs:' + ctx.sj_metas[i]['how'],
                          'the joined rows differ from Model/DaskModel.v',
                          {'spec': ctx.sj_metas[i], 'case': ctx.sj_cases[i],
                           'impl': ctx.sj_results[i], 'model': model})
    rep.extra['model_cases'] = len(ctx.cases)
    rep.extra['sjoin_model_cases'] = len(ctx.sj_cases)


def run(rep):
    import dask
    tier = getattr(rep, 'tier_run', rep.tier)
    rep.rule = ('frames of 7 kinds (two geometry columns, missing / empty rows) x every split of '
                '<= 6 rows into consecutive partitions incl. empty ones x provenances (from_delayed, '
                'from_pandas, filters, cached-then-filtered, column selection, set_geometry, persist, '
                'pack_partitions, parquet round trip with/without geometry= and bounds=, results of '
                'cx / cx_partitions) x 3-7 cx keys; + float64 frames of 6 coordinate pools (many-digit '
                'decimals, 53 random bits, 2^53, 1e-11, 2^-30 extents at 1e6) x provenances with keys / '
                'right shapes touching the partition extremes; + families of sibling frames (slices of '
                'one parent array, one coordinate, missing/empty swap, active column) alive together; '
                'one evaluation = one Dask frame with all '
                'operations; non-trivial = some key selects at least one row; distinct = distinct '
                '(frame, provenance, keys)')
    ctx = Ctx(rep)
    import numba
    # the parallel kernels of PointArray.intersects start a thread team per call; one
    # thread gives the same answers without the start-up cost
    numba.set_num_threads(1)
    with dask.config.set(scheduler='synchronous'):
        for spec in gen_specs(rep, tier):
            _t0 = time.time()
            try:
                run_spec(ctx, spec)
            except Exception as e:
                import traceback
                rep.violation('harness-or-library-raises:' + spec['steps'][-1][0],
                              f'{type(e).__name__}: {str(e)[:300]}',
                              {'spec': spec, 'trace': traceback.format_exc()[-1500:]})
            _k = '+'.join(st[0] for st in spec['steps'])[:40] + ('/lazy' if spec.get('lazy') else '')
            _tt = rep.extra.setdefault('seconds_by_provenance', {})
            _tt[_k] = round(_tt.get(_k, 0) + time.time() - _t0, 1)
    import time as _t
    t0 = _t.time()
    flush(ctx)
    rep.extra['coq_phase_s'] = round(_t.time() - t0, 1)


def replay(rep, rp):
    import dask
    spec = rp['spec']

    def un(e):
        if isinstance(e, list):
            return [un(x) for x in e]
        if isinstance(e, str) and e in ('nan', 'inf', '-inf'):
            return float(e)
        return e
    spec = {k: un(v) for k, v in spec.items()}
    ctx = Ctx(rep)
    with dask.config.set(scheduler='synchronous'):
        run_spec(ctx, spec)
    flush(ctx)
    for v in rep.violations:
        print(v['signature'], '-', v['what'])
    return not rep.violations
