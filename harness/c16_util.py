"""Helpers of the C16 correspondence check: derivation steps in three views

  * `step_term`  -- the Gallina term of Model/Derive.v's [step]
  * `apply_step` -- the same request made to the real array (many surface forms)
  * `track`      -- plain Python list semantics on the list of source positions
                    (None = a filled / missing slot); raises when Python's own
                    list semantics reject the request

plus element <-> Gallina conversion and the derived quantities compared.
"""
import math
import pickle

import numpy as np

from . import common as C
from . import geomgen as G

ELLIPSIS_FORMS = ('plain', 'ell_first', 'ell_last')


# --------------------------------------------------------------------------
# elements
# --------------------------------------------------------------------------
UNREPRESENTABLE = 10 ** 40        # stands for a finite value that is no multiple of 1/scale


def _n(v, scale=1):
    """a coordinate as the model's num; with scale > 1 the value is multiplied by scale first
    (exact for the dyadic values the multi-source family uses); a finite value that is still
    not integral then becomes a sentinel no generated coordinate equals"""
    if scale == 1:
        return C.num(float(v))
    if isinstance(v, (int, np.integer)):
        return C.Some(int(v) * scale)
    f = float(v)
    if not math.isfinite(f):
        return None
    f *= scale
    return C.Some(int(f)) if f == int(f) else C.Some(UNREPRESENTABLE)


def elem_term(kind, el, scale=1):
    """Python element (nested lists / None) -> option elem"""
    if el is None:
        return None
    lev = G.LEVELS[kind]
    if lev == 0:
        return C.Some(C.Rec('EPoint', _n(el[0], scale), _n(el[1], scale)))
    if lev == 1:
        return C.Some(C.Rec('ECoords', [_n(v, scale) for v in el]))
    if lev == 2:
        return C.Some(C.Rec('EParts', [[_n(v, scale) for v in p] for p in el]))
    return C.Some(C.Rec('EPolys', [[[_n(v, scale) for v in r] for r in p] for p in el]))


def elems_term(kind, els, scale=1):
    return [elem_term(kind, e, scale) for e in els]


UNAVAILABLE = {}          # what -> count; reported as internal-unavailable:<what>, never a violation


def _unavailable(what):
    UNAVAILABLE[what] = UNAVAILABLE.get(what, 0) + 1


def arrow_of(arr):
    """the pyarrow array behind a geometry array, through the public __arrow_array__
    protocol (what pa.array(arr) calls); None when the protocol is not there"""
    try:
        import pyarrow as pa
        data = arr.__arrow_array__()
        if isinstance(data, pa.ChunkedArray):
            data = pa.concat_arrays(data.chunks) if data.num_chunks else None
        return data
    except Exception:  # noqa: BLE001
        _unavailable('arrow-export')
        return None


def subtype_of(arr):
    """numpy dtype of the coordinates, from the public dtype (e.g. polygon[float64])"""
    try:
        return np.dtype(arr.dtype.subtype)
    except Exception:  # noqa: BLE001
        return np.dtype(str(arr.dtype).split('[')[-1].rstrip(']'))


def array_to_py(kind, arr):
    """the elements of the array as nested Python lists (None = missing), read through
    the arrow protocol; None when that is unavailable"""
    data = arrow_of(arr)
    if data is None:
        return None
    if kind == 'point':
        dt = subtype_of(arr)
        out = []
        for b in data.to_pylist():
            if b is None:
                out.append(None)
            elif isinstance(b, (bytes, bytearray)):
                out.append([float(v) for v in np.frombuffer(b, dtype=dt)])
            else:
                out.append([float(v) for v in b])
        return out
    return data.to_pylist()


def scalars_to_py(kind, arr, scalars):
    """the scalars arr[i] / iteration return, as nested lists: they are put back into an
    array with pandas' _from_sequence and read like any array (no access to the scalar's
    internals)"""
    if not scalars:
        return []
    return array_to_py(kind, type(arr)._from_sequence(list(scalars), dtype=arr.dtype))


def scalar_to_py(kind, arr, sc):
    if sc is None:
        return None
    r = scalars_to_py(kind, arr, [sc])
    return None if r is None else r[0]


def same_elem(a, b):
    """NaN-aware equality of nested lists"""
    if a is None or b is None:
        return a is None and b is None
    if isinstance(a, (list, tuple)) or isinstance(b, (list, tuple)):
        if not (isinstance(a, (list, tuple)) and isinstance(b, (list, tuple))):
            return False
        return len(a) == len(b) and all(same_elem(x, y) for x, y in zip(a, b))
    fa, fb = float(a), float(b)
    return fa == fb or (math.isnan(fa) and math.isnan(fb))


def is_aei(kind, el):
    """all-empty-inner: an element of a kind with >= 2 nesting levels that is not
    empty at the outer level but holds no coordinate at all ([[]], [[], []], [[[]]], ...)"""
    return (G.LEVELS[kind] >= 2 and el is not None and len(el) > 0
            and len(G.flat_coords(el)) == 0)


def _bits(buf, nbits):
    if buf is None:
        return None
    by = np.frombuffer(buf, dtype=np.uint8)
    return [bool((by[i // 8] >> (i % 8)) & 1) for i in range(min(nbits, len(by) * 8))]


def _vals(buf, dt, upto, scale=1):
    vals = np.frombuffer(buf, dtype=dt) if buf is not None else np.array([], dtype=dt)
    vals = vals[:upto]
    if np.issubdtype(vals.dtype, np.floating):
        return [_n(float(v), scale) for v in vals]
    return [C.Some(int(v) * scale) for v in vals]


def export(kind, arr, scale=1):
    """the buffers of the arrow array behind `arr` as the model's record (RList / RFix), or
    None (counted) when the storage is not the list / fixed-size-binary layout the model
    describes.  Nothing about the layout is predicted: the kernel only asserts
    well-formedness and decodes."""
    import pyarrow as pa
    data = arrow_of(arr)
    if data is None:
        return None
    try:
        bufs = data.buffers()
        off, n = data.offset, len(data)
        dt = subtype_of(arr)
        valid = _bits(bufs[0], off + n)
        valid = None if valid is None else C.Some(valid)
        if kind == 'point':
            if not pa.types.is_fixed_size_binary(data.type):
                _unavailable('fixed-size-binary-layout')
                return None
            return C.Rec('RFix', C.Rec('Build_fixarr', C.Nat(off), C.Nat(n), valid,
                                       _vals(bufs[1], dt, 2 * (off + n), scale)))
        typ, lev, large = data.type, 0, False
        while pa.types.is_list(typ) or pa.types.is_large_list(typ):
            large = large or pa.types.is_large_list(typ)
            typ, lev = typ.value_type, lev + 1
        if lev != G.LEVELS[kind] or len(bufs) != 2 * lev + 2:
            _unavailable('list-layout')
            return None
        need, offs = off + n, []
        for k in range(lev):
            ob = bufs[1 + 2 * k]
            o = np.frombuffer(ob, dtype=np.int64 if large else np.uint32) if ob is not None \
                else np.array([0], dtype=np.uint32)
            o = o[:need + 1]            # trailing padding of the buffer is not part of the array
            offs.append([C.Nat(int(x)) for x in o])
            need = int(o[-1]) if len(o) else 0
        return C.Rec('RList', C.Rec('Build_listarr', C.Nat(off), C.Nat(n), valid, offs,
                                    _vals(bufs[-1], dt, need, scale)))
    except Exception:  # noqa: BLE001
        _unavailable('buffer-export')
        return None


# --------------------------------------------------------------------------
# steps
# --------------------------------------------------------------------------
def _oz(v):
    return None if v is None else C.Some(int(v))


def _wrap(form, idx):
    ctor = {'ell_first': 'EllipsisThen', 'ell_last': 'ThenEllipsis'}.get(form, 'Plain')
    return C.Rec('SGet', C.Rec(ctor, idx))


FILL_TERM = {'none': 'FillNone', 'nan': 'FillNaN', 'npnan': 'FillNaN', 'zero': 'FillOther',
             'NA': 'FillOther', 'geom': 'FillOther', 'str': 'FillStr'}


def step_term(st):
    op, form = st['op'], st.get('form', 'plain')
    if op == 'slice':
        s, e, k = st['args']
        return _wrap(form, C.Rec('ISlice', _oz(s), _oz(e), _oz(k)))
    if op == 'int':
        return _wrap(form, C.Rec('IInt', int(st['args'])))
    if op == 'mask':
        return _wrap(form, C.Rec('IBool', [None if b is None else C.Some(bool(b))
                                            for b in st['args']]))
    if op == 'ints':
        return _wrap(form, C.Rec('IInts', [_oz(i) for i in st['args']]))
    if op == 'other':
        return _wrap(form, C.Rec('IArrOther', C.Nat(len(st['args']))))
    if op == 'notindex':
        return _wrap(form, C.Rec('INotIndex'))
    if op == 'take':
        ix, allow_fill, fv = st['args']
        return C.Rec('STake', [int(i) for i in ix], bool(allow_fill), C.Rec(FILL_TERM[fv]))
    if op == 'concat':
        return C.Rec('SConcat', [(_oz(a), _oz(b)) for a, b in st['args']])
    if op == 'copy':
        return C.Rec('SCopy')
    raise ValueError(op)


def _ell(form, key):
    if form == 'ell_first':
        return (Ellipsis, key)
    if form == 'ell_last':
        return (key, Ellipsis)
    return key


def _mk_series(arr, labels=None):
    from spatialpandas import GeoSeries
    return GeoSeries(arr, index=labels)


def _mk_frame(arr):
    from spatialpandas import GeoDataFrame
    return GeoDataFrame({'v': np.arange(len(arr)), 'g': arr}, geometry='g')


def _fill_value(fv, arr):
    import pandas as pd
    if fv == 'none':
        return None
    if fv == 'nan':
        return float('nan')
    if fv == 'npnan':
        return np.float64('nan')
    if fv == 'zero':
        return 0
    if fv == 'NA':
        return pd.NA
    if fv == 'str':
        return 'x'
    if fv == 'geom':
        for x in arr:
            if x is not None:
                return x
        return 0
    raise ValueError(fv)


class IndexMutated(Exception):
    pass


def apply_step(kind, arr, st, notes=None):
    """the real operation; returns the derived array or raises what the library raises.
    notes: dict collecting side observations (index array mutated, ...)"""
    import pandas as pd
    op, form = st['op'], st.get('form', 'plain')
    cls = type(arr)
    ps = st.get('sindex')
    if ps:
        # the spatial index of the array the step starts from is built first: a derived
        # array must not answer from its parent's tree
        arr.build_sindex(page_size=int(ps))

    def _series(a, labels=None):                   # wrappers with a built index
        w = _mk_series(a, labels)
        return w.build_sindex(page_size=int(ps)) if ps else w

    def _frame(a):
        w = _mk_frame(a)
        return w.build_sindex(page_size=int(ps)) if ps else w
    if op == 'slice':
        s, e, k = st['args']
        sl = slice(s, e, k)
        if form == 'series_iloc':
            return _series(arr).iloc[sl].values
        if form == 'series_getitem':
            return _series(arr, [f'r{i}' for i in range(len(arr))])[sl].values
        if form == 'df_iloc':
            return _frame(arr).iloc[sl]['g'].values
        return arr[_ell(form, sl)]
    if op == 'int':
        i = st['args']
        key = {'npint': np.int64(i), 'npint32': np.int32(i)}.get(form, int(i))
        if form == 'series_iloc':
            sc = _series(arr).iloc[int(i)]
        else:
            sc = arr[_ell(form, key)]
        return cls._from_sequence([sc], dtype=arr.dtype)
    if op == 'mask':
        m = st['args']
        if form == 'numpy':
            key = np.array(m, dtype=bool)
        elif form == 'boolarray':
            key = pd.array(m, dtype='boolean')
        elif form in ('series_bool', 'series_loc_bool', 'df_bool'):
            key = np.array(m, dtype=bool)
            if form == 'series_bool':
                return _series(arr)[key].values
            if form == 'series_loc_bool':
                return _series(arr).loc[key].array
            return _frame(arr)[key]['g'].values
        else:
            key = list(m)
        return arr[_ell(form if form in ELLIPSIS_FORMS else 'plain', key)]
    if op == 'ints':
        ix = st['args']
        if form in ('numpy', 'numpy32', 'uint8', 'ell_first', 'ell_last'):
            dt = {'numpy32': 'int32', 'uint8': 'uint8'}.get(form, 'int64')
            key = np.array(ix, dtype=dt)
            before = key.copy()
            try:
                return arr[_ell(form, key)]
            finally:
                if notes is not None and not np.array_equal(before, key):
                    notes['index_array_mutated'] = notes.get('index_array_mutated', 0) + 1
                    notes['mutated_now'] = True
        if form == 'Int64':
            return arr[pd.array(ix, dtype='Int64')]
        if form == 'tuple':
            return arr[tuple(ix)]
        if form == 'series_iloc':
            return _series(arr).iloc[list(ix)].values
        if form == 'df_iloc':
            return _frame(arr).iloc[list(ix)]['g'].values
        if form == 'series_loc':
            labels = [f'r{i}' for i in range(len(arr))]
            return _series(arr, labels).loc[[labels[i] for i in ix]].values
        return arr[list(ix)]
    if op == 'other':
        vals = st['args']
        key = np.array(vals, dtype='float64') if form == 'numpy' else list(vals)
        return arr[key]
    if op == 'notindex':
        key = {'ellipsis': Ellipsis, 'none': None, 'float': 1.5}[st['args']]
        return arr[_ell(form, key)]
    if op == 'take':
        ix, allow_fill, fv = st['args']
        if form == 'series_reindex':
            labels = [f'r{i}' for i in range(len(arr))]
            want = [labels[i] if i >= 0 else f'zz{j}' for j, i in enumerate(ix)]
            return _series(arr, labels).reindex(want).values
        if form == 'series_take':
            return _series(arr).take(list(ix)).values
        if form in ('series_sort_index', 'df_sort_values'):
            # ix is a permutation: row ix[k] gets label k, sorting by label realises the take
            lab = [0] * len(ix)
            for k, i in enumerate(ix):
                lab[i] = k
            if form == 'series_sort_index':
                return _series(arr, lab).sort_index().values
            df = _frame(arr)
            df['v'] = lab
            return df.sort_values('v')['g'].values
        if form == 'pd_take':
            from pandas.api.extensions import take as pdtake
            return pdtake(arr, np.array(ix, dtype='int64'), allow_fill=allow_fill)
        key = np.array(ix, dtype='int64') if form == 'numpy' else list(ix)
        before = key.copy() if form == 'numpy' else None
        try:
            return arr.take(key, allow_fill=allow_fill, fill_value=_fill_value(fv, arr))
        finally:
            if before is not None and notes is not None and not np.array_equal(before, key):
                notes['index_array_mutated'] = notes.get('index_array_mutated', 0) + 1
                notes['mutated_now'] = True
    if op == 'concat':
        pieces = [arr[slice(a, b)] for a, b in st['args']]
        if form == 'pd_concat':
            return pd.concat([_series(p) for p in pieces], ignore_index=True).values
        return cls._concat_same_type(pieces)
    if op == 'copy':
        if form == 'pickle':
            return pickle.loads(pickle.dumps(arr))
        if form == 'series':
            return _series(arr).values
        if form == 'series_copy':
            return _series(arr).copy(deep=True).array
        if form == 'df':
            return _frame(arr).geometry.values
        if form == 'df_pickle':
            return pickle.loads(pickle.dumps(_frame(arr)))['g'].values
        if form == 'parquet':
            import os
            import shutil
            import tempfile
            from spatialpandas.io import read_parquet, to_parquet
            d = tempfile.mkdtemp(prefix='c16_pq_')
            try:
                to_parquet(_frame(arr), os.path.join(d, 'f.parq'))
                return read_parquet(os.path.join(d, 'f.parq'))['g'].values
            finally:
                shutil.rmtree(d, ignore_errors=True)
        if form == 'iter':
            return cls._from_sequence(list(arr), dtype=arr.dtype)
        if form == 'full_slice':
            return arr[:]
        return arr.copy()
    raise ValueError(op)


def track(orig, st):
    """Python's own list semantics on the list of source positions"""
    op = st['op']
    if op == 'slice':
        s, e, k = st['args']
        return orig[slice(s, e, k)]
    if op == 'int':
        return [orig[st['args']]]
    if op == 'mask':
        m = st['args']
        if len(m) == 0:
            return []
        if len(m) != len(orig) or any(b is None for b in m):
            raise IndexError('mask')
        return [o for o, b in zip(orig, m) if b]
    if op == 'ints':
        if any(i is None for i in st['args']):
            raise ValueError('NA')
        return [orig[i] for i in st['args']]
    if op == 'other':
        if len(st['args']) == 0:
            return []
        raise IndexError('kind')
    if op == 'notindex':
        raise IndexError('notindex')
    if op == 'take':
        ix, allow_fill, fv = st['args']
        if allow_fill:
            if fv not in ('none', 'nan', 'npnan'):
                raise ValueError('fill')
            if any(i < -1 for i in ix):
                raise ValueError('neg')
            return [None if i == -1 else orig[i] for i in ix]
        return [orig[i] for i in ix]
    if op == 'concat':
        if not st['args']:
            raise ValueError('empty concat')
        out = []
        for a, b in st['args']:
            out += orig[slice(a, b)]
        return out
    if op == 'copy':
        return list(orig)
    raise ValueError(op)


def exc_term(e):
    """exception -> the model's error enum (None when it is none of the three)"""
    if isinstance(e, IndexError):
        return C.Rec('IndexError')
    if isinstance(e, ValueError):
        return C.Rec('ValueError')
    if isinstance(e, TypeError):
        return C.Rec('TypeError')
    return None


# --------------------------------------------------------------------------
# random steps
# --------------------------------------------------------------------------
def _rand_bound(rng, n):
    r = rng.random()
    if r < 0.25:
        return None
    if r < 0.9:
        return rng.randint(-n - 2, n + 2)
    return rng.choice([-100, 100, 0, n, -n, -n - 1])


def rand_step(rng, n, invalid_p=0.12, pandas_forms=True, sindex_p=0.35):
    """a random step for an array of length n (mostly valid, sometimes invalid); with
    probability sindex_p the spatial index of the array is built (random page_size) first"""
    st = _rand_step(rng, n, invalid_p, pandas_forms)
    if rng.random() < sindex_p:
        st['sindex'] = rng.choice([2, 2, 3, 4, 16, 512])
    return st


def _rand_step(rng, n, invalid_p=0.12, pandas_forms=True):
    bad = rng.random() < invalid_p
    ops = ['slice'] * 5 + ['take'] * 4 + ['mask'] * 3 + ['ints'] * 3 + ['concat'] * 3 + \
          ['copy'] * 2 + ['int'] + (['other', 'notindex'] if bad else [])
    op = rng.choice(ops)
    if op == 'slice':
        k = rng.choice([None, None, 1, 1, -1, -1, 2, -2, 3, -3, rng.randint(-5, 5)])
        if k == 0 and not bad:
            k = None
        s, e = _rand_bound(rng, n), _rand_bound(rng, n)
        forms = ['plain'] * 4 + ['ell_first', 'ell_last']
        if pandas_forms and k != 0:
            forms += ['series_iloc', 'df_iloc', 'series_getitem']
        return {'op': 'slice', 'args': [s, e, k], 'form': rng.choice(forms)}
    if op == 'int':
        i = rng.randint(-n - 2, n + 1) if (bad or n == 0) else rng.randint(-n, n - 1)
        forms = ['plain', 'plain', 'npint', 'npint32', 'ell_first', 'ell_last']
        if pandas_forms and n and -n <= i < n:
            forms.append('series_iloc')
        return {'op': 'int', 'args': i, 'form': rng.choice(forms)}
    if op == 'mask':
        ln = n
        if bad and rng.random() < .5:
            ln = max(0, n + rng.choice([-2, -1, 1, 2]))
        p = rng.choice([0.0, 0.3, 0.7, 1.0, 0.5])
        m = [rng.random() < p for _ in range(ln)]
        na = bad and ln > 0 and rng.random() < .6
        if na:
            m[rng.randrange(ln)] = None
        if na:
            forms = ['list', 'boolarray']
        else:
            forms = ['numpy', 'numpy', 'list', 'boolarray', 'ell_first', 'ell_last']
            if pandas_forms and ln == n and n > 0:
                forms += ['series_bool', 'series_loc_bool', 'df_bool']
            if ln == 0:
                forms = ['numpy', 'boolarray']   # pd.array([]) of a list is not boolean
        form = rng.choice(forms)
        if form == 'list' and all(b is None for b in m):
            form = 'boolarray'          # pd.array([None]) is not inferred as boolean
        return {'op': 'mask', 'args': m, 'form': form}
    if op == 'ints':
        cnt = rng.choice([0, 1, 2, 3, n, n + 2])
        if n == 0 and not bad:
            cnt = 0
        lo, hi = (-n - 2, n + 1) if bad else (-n, n - 1)
        ix = [rng.randint(lo, hi) for _ in range(cnt)] if (n or bad) else []
        na = bad and cnt > 0 and rng.random() < .4
        if na:
            ix[rng.randrange(cnt)] = None
            forms = ['list', 'Int64']
        else:
            forms = ['list', 'numpy', 'numpy', 'numpy32', 'Int64', 'tuple', 'ell_first',
                     'ell_last']
            if all(i >= 0 for i in ix):
                forms.append('uint8')
            if pandas_forms and cnt and all(-n <= i < n for i in ix):
                forms += ['series_iloc', 'df_iloc']
                if len(set(ix)) == len(ix) and all(i >= 0 for i in ix):
                    forms.append('series_loc')
            if cnt == 0:
                forms = ['list', 'numpy', 'Int64']
            if cnt == 2 and 'tuple' in forms and False:
                pass
        form = rng.choice(forms)
        if form == 'list' and cnt and all(i is None for i in ix):
            form = 'Int64'              # pd.array([None]) is not inferred as integer
        if form == 'tuple' and cnt == 2:
            form = 'list'          # a 2-tuple is never an Ellipsis form here, but keep it plain
        if form == 'tuple' and cnt == 0:
            form = 'list'
        return {'op': 'ints', 'args': ix, 'form': form}
    if op == 'other':
        cnt = rng.choice([0, 1, 2])
        vals = [float(rng.randint(0, 3)) + 0.5 for _ in range(cnt)]
        return {'op': 'other', 'args': vals, 'form': rng.choice(['list', 'numpy'])}
    if op == 'notindex':
        return {'op': 'notindex', 'args': rng.choice(['ellipsis', 'none', 'float']),
                'form': rng.choice(['plain', 'plain', 'ell_first', 'ell_last'])}
    if op == 'take':
        allow_fill = rng.random() < .5
        cnt = rng.choice([0, 1, 2, 3, n, n + 2])
        if bad:
            lo, hi = -n - 2, n + 1
        elif allow_fill:
            lo, hi = -1, n - 1
        else:
            lo, hi = -n, n - 1
        if n == 0 and not bad:
            ix = [-1] * cnt if allow_fill else []
        else:
            ix = [rng.randint(lo, hi) for _ in range(cnt)]
            if allow_fill and cnt and rng.random() < .5:
                ix[rng.randrange(cnt)] = -1
        fv = rng.choice(['none', 'none', 'nan', 'npnan'])
        if bad and rng.random() < .5:
            fv = rng.choice(['zero', 'NA', 'str', 'geom'])
        forms = ['list', 'numpy', 'numpy']
        if not bad and n and rng.random() < .3:
            # a same-length reordering
            ix = list(range(n))
            rng.shuffle(ix)
            if rng.random() < .3:
                ix[rng.randrange(n)] = ix[0]          # ... or a repeat
            if pandas_forms and fv == 'none' and not allow_fill and len(set(ix)) == n:
                forms += ['series_sort_index', 'df_sort_values'] * 2
        if pandas_forms and not bad and fv == 'none' and n:
            if allow_fill:
                # labels must be unique for reindex
                nonneg = [i for i in ix if i >= 0]
                if len(set(nonneg)) == len(nonneg):
                    forms.append('series_reindex')
                forms.append('pd_take')
            else:
                # (pandas.api.extensions.take without allow_fill passes axis=0, which the
                # ExtensionArray.take signature does not have)
                forms += ['series_take']
        return {'op': 'take', 'args': [ix, allow_fill, fv], 'form': rng.choice(forms)}
    if op == 'concat':
        r = rng.random()
        if r < .4:
            k = rng.randint(-n - 1, n + 1)
            pieces = [[k, None], [None, k]]            # rotate
        elif r < .55:
            pieces = [[None, None], [None, None]]      # self + self
        else:
            pieces = [[_rand_bound(rng, n), _rand_bound(rng, n)]
                      for _ in range(rng.randint(1, 3))]
        if bad and rng.random() < .2:
            pieces = []
        forms = ['direct', 'direct']
        if pandas_forms and pieces:
            forms.append('pd_concat')
        return {'op': 'concat', 'args': pieces, 'form': rng.choice(forms)}
    forms = ['copy', 'pickle', 'full_slice', 'iter']
    if pandas_forms:
        forms += ['series', 'series_copy', 'df', 'df_pickle', 'parquet']
    return {'op': 'copy', 'args': None, 'form': rng.choice(forms)}


# --------------------------------------------------------------------------
# derived quantities
# --------------------------------------------------------------------------
BOXES = [(0.0, 0.0, 3.0, 3.0), (2.0, 2.0, 2.0, 2.0), (-8.0, -1.0, 0.0, 9.0), (4.0, 5.0, 1.0, 0.0)]
HB = (-10.0, -10.0, 10.0, 10.0)
_POLY = None


def _poly():
    global _POLY
    if _POLY is None:
        from spatialpandas.geometry import Polygon
        _POLY = Polygon([[0, 0, 4, 0, 4, 3, 0, 3, 0, 0], [1, 1, 1, 2, 2, 2, 2, 1, 1, 1]])
    return _POLY


def quantities(kind, arr):
    """name -> (numpy array, elementwise?)"""
    q = {}
    q['bounds'] = (np.asarray(arr.bounds), True)
    q['total_bounds'] = (np.asarray(arr.total_bounds, dtype='float64'), False)
    q['isna'] = (np.asarray(arr.isna()), True)
    q['length'] = (np.asarray(arr.length), True)
    q['area'] = (np.asarray(arr.area), True)
    for j, b in enumerate(BOXES):
        q[f'intersects_bounds{j}'] = (np.asarray(arr.intersects_bounds(b)), True)
    if kind == 'point':
        q['intersects'] = (np.asarray(arr.intersects(_poly())), True)
    q['hilbert5'] = (np.asarray(arr.hilbert_distance(total_bounds=HB, p=5)), True)
    q['hilbert10'] = (np.asarray(arr.hilbert_distance(total_bounds=HB)), True)
    return q


def same_array(a, b):
    a, b = np.asarray(a), np.asarray(b)
    if a.shape != b.shape:
        return False
    if a.dtype.kind == 'f' or b.dtype.kind == 'f':
        a = a.astype('float64')
        b = b.astype('float64')
        return bool(np.all((a == b) | (np.isnan(a) & np.isnan(b))))
    return bool(np.array_equal(a, b))


# --------------------------------------------------------------------------
# cx / spatial index of a derived array = those of a fresh array of its elements
# --------------------------------------------------------------------------
CX_KEYS = [(slice(None), slice(None)), (slice(0, 3), slice(0, 3)), (slice(2, None), slice(None, 1)),
           (slice(None, -1), slice(-8, 9)), (slice(4, 1), slice(5, 0)), (slice(-6, 0), slice(None)),
           (slice(1, 1), slice(-9, 9))]


def _key_str(k):
    f = lambda v: '' if v is None else str(v)            # noqa: E731
    return f'cx[{f(k[0].start)}:{f(k[0].stop)}, {f(k[1].start)}:{f(k[1].stop)}]'


def cx_compare(kind, arr, fresh, page_sizes=(), nkeys=None, wrappers=False, query_own=False):
    """None, or (signature, what): arr.cx / arr's spatial index against a fresh array's.

    Only public observations: whether `arr` carries a built index is not looked at.
    `page_sizes` are the page sizes build_sindex was called with earlier in the history; an
    answer is right when it is the answer of a fresh array of the same elements without an
    index or with an index of one of those page sizes (they all agree except on one-vertex
    lines / rings, where cx with and without an index differ -- C04's subject)."""
    keys = CX_KEYS if nkeys is None else nkeys if isinstance(nkeys, list) else CX_KEYS[:nkeys]

    built = [fresh]
    todo = sorted(set(page_sizes) | {512})

    def fresh_variants():
        i = 0
        while True:
            if i < len(built):
                yield built[i]
            elif todo:
                f = fresh.copy()
                f.build_sindex(page_size=todo.pop(0))
                built.append(f)
                yield f
            else:
                return
            i += 1

    wrapped = {}

    def holder(a, wrap):
        """the array, or (built once) a GeoSeries / GeoDataFrame around it"""
        if wrap is None:
            return a
        if (id(a), wrap) not in wrapped:
            if wrap == 'series':
                from spatialpandas import GeoSeries
                wrapped[(id(a), wrap)] = (a, GeoSeries(a))
            else:
                from spatialpandas import GeoDataFrame
                wrapped[(id(a), wrap)] = (a, GeoDataFrame({'v': np.arange(len(a)), 'g': a},
                                                          geometry='g'))
        return wrapped[(id(a), wrap)][1]

    def rows(a, key, wrap=None):
        r = holder(a, wrap).cx[key]
        if wrap == 'series':
            return array_to_py(kind, r.values), list(r.index)
        if wrap == 'frame':
            return array_to_py(kind, r['g'].values), list(r['v'])
        return array_to_py(kind, r), None

    def same(x, y):
        return x[1] == y[1] and x[0] is not None and y[0] is not None and len(x[0]) == len(y[0]) \
            and all(same_elem(p, q) for p, q in zip(x[0], y[0]))

    for wrap in ([None, 'series', 'frame'] if wrappers else [None]):
        for key in (keys if wrap is None else keys[:2]):
            try:
                got = rows(arr, key, wrap)
            except Exception as e:  # noqa: BLE001
                return (f'cx-raises:{type(e).__name__}',
                        f'{_key_str(key)} ({wrap or "array"}) raised {type(e).__name__}: {str(e)[:160]}')
            if got[0] is None:
                return None                      # no arrow protocol: counted, not judged
            want = None
            for f in fresh_variants():
                w = rows(f, key, wrap)
                want = want or w
                if same(got, w):
                    break
            else:
                return ('cx-differs',
                        f'{_key_str(key)} on the derived {wrap or "array"} selects {got[0]!r} '
                        f'(rows {got[1]}), on a fresh one of the same elements {want[0]!r} '
                        f'(rows {want[1]})')
    # the spatial index: of the derived array itself (this builds and keeps one when there is
    # none) or of a copy of it
    sx = (arr if query_own else arr.copy()).sindex
    fx = fresh.copy().sindex
    for b in BOXES:
        g = sorted(int(i) for i in sx.intersects(b))
        w = sorted(int(i) for i in fx.intersects(b))
        if g != w:
            return ('sindex-differs',
                    f'the spatial index of the derived array{"" if query_own else " (of a copy)"} '
                    f'answers intersects({b}) = {g}, a fresh array\'s {w}')
    return None
