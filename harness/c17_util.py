"""Helpers of the C17 check (missing and empty geometries are inert).

* the catalogue of inert elements of every kind (missing / empty / NaN-only /
  inf-only / NaN and +-inf mixed: for points every mixture per coordinate) and their
  classification,
* generators of non-inert base elements with arbitrary (non-exact) floats,
* the placements of inert rows (first, last, a whole R-tree page, a whole Dask
  partition, interleaved, all rows),
* comparison helpers (bitwise float equality with NaN = NaN).
"""
import math

import numpy as np

from . import geomgen as G

NAN = float('nan')
INF = float('inf')


# --------------------------------------------------------------------------
# inert elements
# --------------------------------------------------------------------------
def classify(el):
    """'missing' | 'empty' | 'nan' | 'inf' | 'mixed' for an inert element, None otherwise
    ('mixed': no finite coordinate, NaN and infinite coordinates side by side)"""
    if el is None:
        return 'missing'
    cs = G.flat_coords(el)
    if not cs:
        return 'empty'
    if any(math.isfinite(c) for c in cs):
        return None
    if all(c != c for c in cs):
        return 'nan'
    return 'inf' if all(c == c for c in cs) else 'mixed'


NONFINITE = [NAN, INF, -INF]


def point_mixtures():
    """every point without a finite coordinate: NaN / +inf / -inf independently in x and y"""
    return [[a, b] for a in NONFINITE for b in NONFINITE]


def mixed_pool(kind):
    """elements whose coordinates are ALL non-finite but not all equal: NaN, +inf and -inf side by
    side, inside one vertex and from vertex to vertex (points: all nine mixtures)"""
    l4a = [-INF, NAN, INF, NAN]
    l4b = [NAN, -INF, NAN, INF]
    l6 = [-INF, NAN, NAN, INF, INF, -INF]
    l2 = [-INF, NAN]
    # closed rings; r8a is one through which finite points have a non-zero winding number
    r8a = [-INF, NAN, INF, NAN, INF, INF, -INF, NAN]
    r8b = [NAN, -INF, INF, NAN, -INF, INF, NAN, -INF]
    r10 = [INF, NAN, NAN, NAN, -INF, INF, NAN, -INF, INF, NAN]
    n8 = [NAN] * 8
    i8 = [-INF, -INF, INF, -INF, INF, INF, -INF, -INF]
    return {
        'point': point_mixtures(),
        'multipoint': [l2, l4a, l4b, l6, [NAN, INF, NAN, NAN], [INF, INF, NAN, NAN]],
        'line': [l4a, l4b, l6, l2, [INF, INF, NAN, NAN, -INF, -INF]],
        'ring': [r8a, r8b, r10],
        'multiline': [[l4a], [l4b, l6], [l6, []], [[NAN] * 4, l4a], [[], l2, l4b]],
        'polygon': [[r8a], [r8b], [r10, r8b], [r8a, n8], [n8, r8b], [i8, r8a], [r8b, []]],
        'multipolygon': [[[r8a]], [[r8b]], [[r10], [r8b, n8]], [[n8], [r8a]], [[i8], [r8b]],
                         [[], [r8a]]],
    }[kind]


def inert_pool(kind, with_inf=False, with_mixed=None):
    """inert elements the constructors accept, by class; with_mixed defaults to with_inf"""
    n2, n4, n8 = [NAN] * 2, [NAN] * 4, [NAN] * 8
    pool = {
        'point': [None, n2],
        'multipoint': [None, [], n2, n4],
        'line': [None, [], n4, n2],
        'ring': [None, [], n8],
        'multiline': [None, [], [[]], [[], []], [n4], [n4, n2], [n2, []], [[], n4]],
        'polygon': [None, [], [[]], [[], []], [n8], [n8, n8], [n8, []]],
        'multipolygon': [None, [], [[]], [[[]]], [[[]], [[]]], [[], [[]]], [[n8]], [[n8], [n8, n8]]],
    }[kind]
    if with_inf:
        i4 = [-INF, -INF, INF, INF]
        i8 = [-INF, -INF, INF, -INF, INF, INF, -INF, -INF]
        pool = pool + {
            'point': [[INF, -INF]],
            'multipoint': [i4],
            'line': [i4],
            'ring': [i8],
            'multiline': [[i4]],
            'polygon': [[i8]],
            'multipolygon': [[[i8]]],
        }[kind]
    if with_mixed if with_mixed is not None else with_inf:
        pool = pool + mixed_pool(kind)
    return pool


# --------------------------------------------------------------------------
# non-inert base elements (every coordinate finite)
# --------------------------------------------------------------------------
def rand_coord(rng, exact):
    if exact:
        return float(rng.randint(-4, 4))
    u = rng.random()
    if u < 0.35:
        return float(rng.randint(-5, 5))
    if u < 0.5:
        return rng.randint(-10, 10) / 2.0
    if u < 0.9:
        return rng.uniform(-5, 5)
    if u < 0.95:
        return rng.uniform(-1e-3, 1e-3)
    return rng.uniform(-1e6, 1e6)


def rand_pts(rng, n, exact):
    out = []
    for _ in range(n):
        out.append(rand_coord(rng, exact))
        out.append(rand_coord(rng, exact))
    return out


def rand_ring(rng, exact):
    # a box around the origin, a triangle, or a random closed ring
    u = rng.random()
    if u < 0.3:
        a, b = abs(rand_coord(rng, exact)) + 1, abs(rand_coord(rng, exact)) + 1
        pts = [-a, -b, a, -b, a, b, -a, b]
        if rng.random() < 0.5:
            pts = [pts[6], pts[7], pts[4], pts[5], pts[2], pts[3], pts[0], pts[1]]
    else:
        pts = rand_pts(rng, rng.randint(3, 5), exact)
    return pts + pts[:2]


def rand_base_element(rng, kind, exact):
    if kind == 'point':
        return rand_pts(rng, 1, exact)
    if kind == 'multipoint':
        return rand_pts(rng, rng.randint(1, 4), exact)
    if kind == 'line':
        return rand_pts(rng, rng.randint(2, 4), exact)
    if kind == 'ring':
        return rand_ring(rng, exact)
    if kind == 'multiline':
        return [rand_pts(rng, rng.randint(2, 4), exact) for _ in range(rng.randint(1, 3))]
    if kind == 'polygon':
        return [rand_ring(rng, exact) for _ in range(rng.randint(1, 2))]
    if kind == 'multipolygon':
        return [[rand_ring(rng, exact) for _ in range(rng.randint(1, 2))]
                for _ in range(rng.randint(1, 2))]
    raise ValueError(kind)


# --------------------------------------------------------------------------
# placements
# --------------------------------------------------------------------------
PATTERNS = ['first', 'last', 'page', 'partition', 'interleaved', 'all', 'random']


def place(rng, base, pool, pattern, block):
    """-> (full elements, inert mask).  `block` = R-tree page size / Dask chunk size
    used by the 'page' and 'partition' patterns."""
    n = len(base)

    def some(k):
        return [rng.choice(pool) for _ in range(k)]
    if pattern == 'all' or n == 0:
        k = rng.choice([1, 2, block, block + 1, 2 * block])
        return some(k), [True] * k
    if pattern == 'first':
        k = rng.choice([1, 1, 2, 3])
        return some(k) + list(base), [True] * k + [False] * n
    if pattern == 'last':
        k = rng.choice([1, 1, 2, 3])
        return list(base) + some(k), [False] * n + [True] * k
    if pattern == 'interleaved':
        full, mask = [], []
        lead = rng.random() < 0.5
        for i, e in enumerate(base):
            if lead or i > 0:
                full += some(1)
                mask.append(True)
            full.append(e)
            mask.append(False)
        if rng.random() < 0.5:
            full += some(1)
            mask.append(True)
        return full, mask
    if pattern == 'page':
        # at least a whole page of inert rows in one run (NaN rows share Hilbert cell 0,
        # so they fill whole leaves of the tree), anywhere in the array
        k = rng.choice([block, block, block + 1, 2 * block])
        at = rng.randint(0, n)
        return list(base[:at]) + some(k) + list(base[at:]), \
            [False] * at + [True] * k + [False] * (n - at)
    if pattern == 'partition':
        # rows [j*block, (j+1)*block) are all inert: one whole chunk of from_pandas(chunksize=block)
        nchunks = n // block
        j = rng.randint(0, nchunks)
        at = j * block
        return list(base[:at]) + some(block) + list(base[at:]), \
            [False] * at + [True] * block + [False] * (n - at)
    # random positions
    full, mask = list(base), [False] * n
    for _ in range(rng.randint(1, n + 1)):
        at = rng.randint(0, len(full))
        full.insert(at, rng.choice(pool))
        mask.insert(at, True)
    return full, mask


# --------------------------------------------------------------------------
# comparisons
# --------------------------------------------------------------------------
def same_floats(a, b):
    a = np.asarray(a, dtype='float64')
    b = np.asarray(b, dtype='float64')
    return a.shape == b.shape and bool(np.all((a == b) | (np.isnan(a) & np.isnan(b))))


def all_nan(a):
    a = np.asarray(a, dtype='float64')
    return bool(np.all(np.isnan(a)))


def un_json(e):
    """inverse of common.jsonable on nested element lists ('nan'/'inf' strings -> floats)"""
    if isinstance(e, list):
        return [un_json(x) for x in e]
    if isinstance(e, str):
        return float(e) if e in ('nan', 'inf', '-inf') else e
    return e


def rand_box(rng, exact, tb=None):
    """a query box: mostly around the data, sometimes everything / degenerate / inverted"""
    u = rng.random()
    if u < 0.15:
        return (-1e7, -1e7, 1e7, 1e7)
    if u < 0.25 and tb is not None and all(math.isfinite(x) for x in tb):
        return tuple(float(x) for x in tb)           # exactly the extent (ties on every side)
    x0, x1 = sorted((rand_coord(rng, exact), rand_coord(rng, exact)))
    y0, y1 = sorted((rand_coord(rng, exact), rand_coord(rng, exact)))
    if u < 0.35:
        return (x0, y0, x0, y0)                      # degenerate
    if u < 0.42:
        return (x1, y1, x0, y0)                      # inverted
    if u < 0.6:
        return (min(x0, -0.5), min(y0, -0.5), max(x1, 0.5), max(y1, 0.5))   # contains the origin
    return (x0, y0, x1, y1)
