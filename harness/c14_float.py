"""C14, float part -- .length / .area of the real arrays and scalars against the bit-exact
binary64 model coq/Model/FloatMeasures.v, evaluated by the Coq kernel with primitive floats
on the very same coordinate buffers.  NO tolerance: the implementation's float64 results are
written as exact hex literals and compared bit for bit inside the kernel (all NaNs
identified, +0.0 and -0.0 distinguished).

Inputs (all from rep.rng): general float64 / float32 coordinates -- decimals that are not
representable (multiples of 0.1), magnitudes 1e-300 .. 1e300 (squares overflow / underflow,
differences overflow), subnormals, +-0.0, NaN / +inf / -inf vertices in every position,
lines of 1 .. 200 vertices (summation order matters), rings with catastrophic cancellation
(large offset + small extent), unclosed rings, several rings / parts per element, missing
and empty elements, sliced arrays (non-zero buffer offsets).

What a violation means: the compiled kernels no longer compute, operation for operation and
in the same order, what measures.py computes in binary64 today (d*d for `** 2`, separate
multiply and add, correctly rounded sqrt, strict left-to-right accumulation from +0.0,
float64 arithmetic whatever the coordinate type of the array).
"""
import math

import numpy as np

from . import common as C
from . import geomgen as G
from . import c14_util as U

# (the second line is spliced into the `From SP Require Import ... .` header of the case
#  files: float literals such as 0x1.999999999999ap-4%float need PrimFloat's number notation)
IMPORTS = ('Model.Num Model.Arrow Model.Measures Model.FloatMeasures.\n'
           'From Coq Require Import PrimFloat')
ARR_FN = "fun '(k, a, fv) => f_arr_measures k a fv"
ARR_TY = 'kind * listarr * list float'
ARR_RES = 'option (list float * list float)'
SC_FN = "fun '(k, s, fv) => f_sc_measures k s fv"
SC_TY = 'kind * listarr * list float'
SC_RES = 'float * float'

KINDS = ('line', 'ring', 'multiline', 'polygon', 'multipolygon')
NAN, INF = float('nan'), float('inf')


# ---------------------------------------------------------------------------
# floats <-> Gallina / JSON
# ---------------------------------------------------------------------------
def flit(x):
    """a binary64 value as an exact Gallina literal"""
    x = float(x)
    if x != x:
        return 'nan'
    if x == INF:
        return 'infinity'
    if x == -INF:
        return 'neg_infinity'
    return '(' + x.hex() + ')%float'


def flist(xs):
    return C.Raw('[' + '; '.join(flit(x) for x in xs) + ']')


def fhex(x):
    x = float(x)
    return x.hex() if math.isfinite(x) else repr(x)


def unhex(s):
    return float.fromhex(s) if s.startswith(('0x', '-0x')) else float(s)


def map_el(f, el):
    if el is None:
        return None
    if isinstance(el, (list, tuple)):
        return [map_el(f, x) for x in el]
    return f(el)


def same_bits(a, b):
    a, b = float(a), float(b)
    if a != a or b != b:
        return a != a and b != b
    return a == b and math.copysign(1.0, a) == math.copysign(1.0, b)


# ---------------------------------------------------------------------------
# coordinate families: each yields a chain of n vertices (2n floats)
# ---------------------------------------------------------------------------
def _fam_decimal(rng, n):
    return [rng.randint(-100, 100) * 0.1 for _ in range(2 * n)]


def _fam_uniform(rng, n):
    return [rng.uniform(-1e3, 1e3) for _ in range(2 * n)]


def _fam_scaled(rng, n):
    s = 10.0 ** rng.randint(-300, 300)
    return [rng.uniform(-1, 1) * s for _ in range(2 * n)]


def _fam_mixed(rng, n):
    return [rng.uniform(-1, 1) * 10.0 ** rng.randint(-300, 300) for _ in range(2 * n)]


def _fam_sqrt_edge(rng, n):
    # differences whose squares sit at the overflow / underflow boundary of binary64
    s = rng.choice([1.3e154, 1e154, 9e153, 1.5e-162, 2e-154, 1e-160, 1.7e308, 8e307])
    return [rng.uniform(-1, 1) * s for _ in range(2 * n)]


def _fam_subnormal(rng, n):
    return [rng.randint(-2 ** rng.randint(1, 60), 2 ** rng.randint(1, 60)) * 5e-324
            for _ in range(2 * n)]


def _fam_zeros(rng, n):
    return [rng.choice([0.0, -0.0, 0.0, -0.0, 5e-324, -5e-324, 1.0, -1.0, 0.1])
            for _ in range(2 * n)]


def _fam_cancel(rng, n):
    # a large offset and a small extent: products ~ base**2 cancel to ~ extent**2
    bx = rng.choice([1e8, 123456789.125, 1e15, 2.0 ** 52, 1e22, -3e7, 6378137.0])
    by = rng.choice([1e8, -1e15, 2.0 ** 53, 4e6, 1e-3, 0.1])
    e = rng.choice([1.0, 0.1, 1e-3, 1e3])
    out = []
    for _ in range(n):
        out += [bx + rng.uniform(-e, e), by + rng.uniform(-e, e)]
    return out


def _fam_grid(rng, n):
    # many equal / collinear / repeated vertices, tenths
    return [rng.randint(-3, 3) / 10.0 for _ in range(2 * n)]


FAMILIES = [('decimal', _fam_decimal), ('uniform', _fam_uniform), ('scaled', _fam_scaled),
            ('mixed', _fam_mixed), ('sqrt-edge', _fam_sqrt_edge), ('subnormal', _fam_subnormal),
            ('zeros', _fam_zeros), ('cancel', _fam_cancel), ('grid', _fam_grid)]
# float32 cannot hold the extreme decades: families scaled into its range
FAMILIES32 = [('decimal', _fam_decimal), ('uniform', _fam_uniform), ('zeros', _fam_zeros),
              ('cancel', _fam_cancel), ('grid', _fam_grid),
              ('scaled', lambda rng, n: [rng.uniform(-1, 1) * 10.0 ** rng.randint(-44, 38)
                                         for _ in range(2 * n)])]


def to_subtype(vals, st):
    """the values as the array of that subtype will hold them (float32: rounded once, here)"""
    if st == 'float32':
        with np.errstate(all='ignore'):
            return [float(np.float32(v)) for v in vals]
    return [float(v) for v in vals]


def chain(rng, st, n, nonfinite_p=0.0, close=False, fam=None):
    name, f = fam or rng.choice(FAMILIES32 if st == 'float32' else FAMILIES)
    v = to_subtype(f(rng, n), st)
    if close and n >= 1:
        v = v + v[:2]
    if nonfinite_p:
        for i in range(len(v)):
            if rng.random() < nonfinite_p:
                v[i] = rng.choice([NAN, INF, -INF])
    return name, v


def nvert(rng, tier, ring=False):
    c = rng.random()
    lo = 0 if not ring else 0
    if c < 0.25:
        return rng.randint(lo, 4)
    if c < 0.7:
        return rng.randint(2, 30)
    return rng.randint(30, 200 if not ring else 120)


def gen_element(rng, kind, st, tier):
    """(family names used, element as nested lists of floats) ; lists of 1..200 vertices"""
    fams = []

    def one(ring):
        n = nvert(rng, tier, ring)
        nm, v = chain(rng, st, n, nonfinite_p=rng.choice([0, 0, 0, 0.02, 0.15]),
                      close=ring and rng.random() < 0.75)
        fams.append(nm)
        return v
    if kind in ('line', 'ring'):
        el = one(kind == 'ring')
    elif kind in ('multiline', 'polygon'):
        el = [one(kind == 'polygon') for _ in range(rng.choice([0, 1, 1, 2, 3]))]
    else:
        el = [[one(True) for _ in range(rng.choice([0, 1, 1, 2]))]
              for _ in range(rng.choice([0, 1, 1, 2, 3]))]
    return fams, el


def position_arrays(st):
    """NaN / +inf / -inf in every coordinate position of a short open path and of a closed
    ring, +-0.0 likewise: one array per special value, one element per position"""
    base_line = to_subtype([0.1, 0.2, 0.7, 1.3, 2.9, -0.4, 3.3, 3.1, -1.7, 0.6], st)
    base_ring = to_subtype([0.1, 0.2, 4.3, 0.7, 5.9, 3.6, 1.1, 4.4, -0.3, 2.2, 0.1, 0.2], st)
    for special in (NAN, INF, -INF, 0.0, -0.0, 1.7e308 if st == 'float64' else 3e38):
        for kind, base in (('line', base_line), ('ring', base_ring), ('polygon', base_ring),
                           ('multiline', base_line), ('multipolygon', base_ring)):
            els = []
            for pos in list(range(len(base))) + [(0, 1), (2, 3), (len(base) - 2, len(base) - 1)]:
                v = list(base)
                for p in (pos if isinstance(pos, tuple) else (pos,)):
                    v[p] = special
                els.append(wrap(kind, v))
            yield kind, els


def wrap(kind, ring):
    lev = G.LEVELS[kind]
    return ring if lev == 1 else [ring] if lev == 2 else [[ring]]


# ---------------------------------------------------------------------------
# export of a real array: offsets / validity as the model's [listarr] (values left out),
# values widened to float64 (exact) as float literals
# ---------------------------------------------------------------------------
def export_float_la(arr):
    data = U.pa_of(arr)
    vb, offs, _ = U._levels(data)
    if not offs or U.is_null_typed(data):
        raise ValueError('null-typed array: not modelled')
    off, n = data.offset, len(data)
    bits = C._bits(vb, off + n)
    trimmed, need = U._trim(offs, off + n)
    vals = U._vals(data)[:need]
    if not np.issubdtype(vals.dtype, np.floating):
        raise ValueError('not a float array')
    rec = C.Rec('Build_listarr', C.Nat(off), C.Nat(n), None if bits is None else C.Some(bits),
                trimmed, [])
    return rec, [float(v) for v in vals]      # float(np.float32) is exact


def _offs_from(lists):
    out, s = [C.Nat(0)], 0
    for l in lists:
        s += len(l)
        out.append(C.Nat(s))
    return out


def fresh_scalar(kind, el):
    """a scalar's own nested lists encoded with offsets starting at 0 (as U.fresh_scalar),
    values separately as floats"""
    lev = G.LEVELS[kind]
    if lev == 1:
        return C.Rec('Build_listarr', C.Nat(0), C.Nat(len(el)), None, [], []), list(el)
    if lev == 2:
        return (C.Rec('Build_listarr', C.Nat(0), C.Nat(len(el)), None, [_offs_from(el)], []),
                [v for r in el for v in r])
    rings = [r for part in el for r in part]
    return (C.Rec('Build_listarr', C.Nat(0), C.Nat(len(el)), None,
                  [_offs_from(el), _offs_from(rings)], []), [v for r in rings for v in r])


# ---------------------------------------------------------------------------
# one array: public API, queue the Coq cases
# ---------------------------------------------------------------------------
def build(kind, st, els, desc):
    arr = G.make_array(kind, els, st)
    for d in desc or []:
        if d[0] == 'slice':
            arr = arr[d[1]:d[2]]
        elif d[0] == 'take':
            arr = arr.take(np.array(d[1], dtype='int64'))
    return arr


def check_float_array(rep, ctx, kind, st, els, desc, label, scalars=True):
    meta = {'float_measures': True, 'kind': kind, 'subtype': st, 'elements_hex': map_el(fhex, els),
            'derivation': desc, 'family': label}
    K = C.Raw(U.KIND_CTOR[kind])
    try:
        arr = build(kind, st, els, desc)
    except Exception as e:      # the constructors reject some shapes: not this check's business
        rep.count(f'float:construct-error:{type(e).__name__}')
        return
    try:
        L = [float(x) for x in arr.length]
        A = [float(x) for x in arr.area]
    except Exception as e:
        rep.violation(f'raises:{kind}-array:{type(e).__name__}',
                      f'{kind} array length/area raised {type(e).__name__}: {e}', meta)
        return
    rep.evaluations += 1
    rep.count('float:array')
    rep.count(f'float:family:{label}')
    try:
        rec, fv = export_float_la(arr)
    except ValueError:
        rep.count('float:null-typed')
        return
    if any(len(r) >= 4 for e in U.decode(arr) if e is not None for r in U.rings_of(kind, e)):
        rep.nontrivial(('float', kind, st, C.stable_hash([fhex(v) for v in fv])))
    ctx.append(('arr', kind, (K, rec, flist(fv)), (L, A), meta))
    if not scalars:
        return
    # scalar forms: arr[i] and a scalar built directly from the nested lists
    dec = list(els)
    for d in desc or []:
        if d[0] == 'slice':
            dec = dec[d[1]:d[2]]
        elif d[0] == 'take':
            dec = [dec[i] for i in d[1]]
    for i, el in enumerate(dec):
        if el is None:
            continue
        smeta = {**meta, 'row': i}
        try:
            e = arr[i]
            l, a = float(e.length), float(e.area)
        except Exception as ex:
            rep.violation(f'raises:{kind}-scalar:{type(ex).__name__}',
                          f'{kind} arr[{i}].length/area raised {type(ex).__name__}: {ex}', smeta)
            continue
        rep.count('float:scalar')
        if not (same_bits(l, L[i]) and same_bits(a, A[i])):
            rep.violation(f'float-scalar-array-differ:{kind}',
                          f'{kind} ({st}): arr[{i}].length/area = ({fhex(l)}, {fhex(a)}) but '
                          f'arr.length/area[{i}] = ({fhex(L[i])}, {fhex(A[i])}) -- not the same '
                          f'binary64 value', smeta)
        if st == 'float64' and i % 3 == 0:
            try:
                e2 = G.scalar_class(kind)(el)
                l2, a2 = float(e2.length), float(e2.area)
            except Exception:
                rep.count('float:scalar-construct-error')
                continue
            srec, sfv = fresh_scalar(kind, el)
            ctx.append(('sc', kind, (K, srec, flist(sfv)), (l2, a2), {**smeta, 'direct_scalar': True}))


def _res_arr(L, A):
    return C.Some((flist(L), flist(A)))


def flush(rep, ctx, explain=6):
    """evaluate the queued cases in the kernel; for every mismatch find out which measure
    differs (by the model's printed value) and report it"""
    arrs = [c for c in ctx if c[0] == 'arr']
    scs = [c for c in ctx if c[0] == 'sc']
    nbad = 0
    for group, fn, ty, rty, mk in ((arrs, ARR_FN, ARR_TY, ARR_RES, lambda r: _res_arr(*r)),
                                   (scs, SC_FN, SC_TY, SC_RES,
                                    lambda r: (C.Raw(flit(r[0])), C.Raw(flit(r[1]))))):
        if not group:
            continue
        cases = [c[2] for c in group]
        results = [mk(c[3]) for c in group]
        bad = C.coq_mismatches(IMPORTS, fn, ty, rty, cases, results, shard=120)
        # which measure: compare again with the other measure masked out
        lbad = abad = set()
        if bad:
            sub = [cases[i] for i in bad]
            if group is arrs:
                lfn = "fun '(k, a, fv) => option_map fst (f_arr_measures k a fv)"
                afn = "fun '(k, a, fv) => option_map snd (f_arr_measures k a fv)"
                lres = [C.Some(flist(group[i][3][0])) for i in bad]
                ares = [C.Some(flist(group[i][3][1])) for i in bad]
                lty = aty = 'option (list float)'
            else:
                lfn = "fun '(k, s, fv) => f_sc_length k s fv"
                afn = "fun '(k, s, fv) => f_sc_area k s fv"
                lres = [C.Raw(flit(group[i][3][0])) for i in bad]
                ares = [C.Raw(flit(group[i][3][1])) for i in bad]
                lty = aty = 'float'
            lbad = {bad[j] for j in C.coq_mismatches(IMPORTS, lfn, ty, lty, sub, lres, shard=120)}
            abad = {bad[j] for j in C.coq_mismatches(IMPORTS, afn, ty, aty, sub, ares, shard=120)}
        for n, i in enumerate(bad):
            _, kind, case, res, meta = group[i]
            form = 'array' if group is arrs else 'scalar'
            model = None
            if n < explain:
                try:
                    model = C.coq_eval(IMPORTS, f'({fn}) {C.coq(case)}')
                except Exception as e:      # the printed value is only an explanation
                    model = f'unavailable: {e}'
            which = [w for w, s in (('length', lbad), ('area', abad)) if i in s] or ['length', 'area']
            for w in which:
                nbad += 1
                impl = res[0] if w == 'length' else res[1]
                rep.violation(
                    f'float-measure-differs:{w}:{kind}',
                    f'{kind} {form} (subtype {meta["subtype"]}, family {meta["family"]}): .{w} is not '
                    f'bit for bit the binary64 value of the model (d*d, no FMA, correctly rounded '
                    f'sqrt, left-to-right sum in float64)',
                    {**meta, 'impl_' + w: map_el(fhex, impl), 'model (length, area)': model})
    return nbad


# ---------------------------------------------------------------------------
# the stream
# ---------------------------------------------------------------------------
def gen_cases(rep, tier):
    rng = rep.rng
    for st in ('float64', 'float32'):
        for kind, els in position_arrays(st):
            yield kind, st, els, [], 'nonfinite-positions', (st == 'float64')
    n_rand = 800 if tier == 'quick' else 8000
    for it in range(n_rand):
        kind = KINDS[it % len(KINDS)]
        st = 'float32' if it % 3 == 2 else 'float64'
        els, labels = [], set()
        for _ in range(rng.randint(1, 4)):
            c = rng.random()
            if c < 0.12:
                els.append(None)
            elif c < 0.2:
                els.append([])
            else:
                fams, el = gen_element(rng, kind, st, tier)
                labels.update(fams)
                els.append(el)
        desc = []
        if len(els) >= 2 and rng.random() < 0.4:
            lo = rng.randint(0, len(els) - 1)
            desc = [('slice', lo, rng.randint(lo + 1, len(els)))]
        elif rng.random() < 0.15:
            desc = [('take', [rng.randrange(len(els)) for _ in range(rng.randint(1, 4))])]
        yield kind, st, els, desc, '+'.join(sorted(labels)) or 'empty', (it % 2 == 0)


def run_float_measures(rep):
    """the float part of ./check C14 (called at the end of c14.run)"""
    import time
    t0 = time.time()
    tier = getattr(rep, 'tier_run', rep.tier)
    import numba
    nthreads = numba.get_num_threads()
    numba.set_num_threads(1)
    ctx = []
    try:
        for n, (kind, st, els, desc, label, scalars) in enumerate(gen_cases(rep, tier)):
            if n % 40 == 0:
                numba.set_num_threads(nthreads)
            check_float_array(rep, ctx, kind, st, els, [list(d) for d in desc], label, scalars)
            if n % 40 == 0:
                numba.set_num_threads(1)
    finally:
        numba.set_num_threads(nthreads)
    flush(rep, ctx)
    rep.extra['coq_cases_float'] = {'array': sum(1 for c in ctx if c[0] == 'arr'),
                                    'scalar': sum(1 for c in ctx if c[0] == 'sc'),
                                    'wall_s': round(time.time() - t0, 1)}
    rep.rule += ('; FLOAT: .length/.area of line / ring / multiline / polygon / multipolygon arrays '
                 '(float64 and float32) and scalars on general binary64 coordinates (0.1 multiples, '
                 '1e-300..1e300, subnormals, +-0.0, NaN/inf in every position, 1..200 vertices, '
                 'cancellation rings) equal bit for bit Model/FloatMeasures.v evaluated with Coq\'s '
                 'primitive floats')


def replay(rep, rp):
    els = map_el(unhex, rp['elements_hex'])
    ctx = []
    check_float_array(rep, ctx, rp['kind'], rp['subtype'], els, rp.get('derivation') or [],
                      rp.get('family', 'replay'))
    flush(rep, ctx)
    for v in rep.violations:
        print(v['signature'], '-', v['what'])
    return not rep.violations
