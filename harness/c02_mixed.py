"""C02 -- the two sides of the predicate stored in DIFFERENT coordinate subtypes.

The point array (and its Point elements) has one coordinate subtype, the shape another one
(every ordered pair of float64 / float32 / int64 / int32 / int16), and the coordinates are
chosen so that a point and a vertex / an edge / a ring COINCIDE ONLY AFTER ROUNDING to the
narrower of the two types:

  frac30   k + j*2^-30          float64 only for j != 0         (float32(1 + 2^-30) == 1)
  frac20   k + j*2^-20          float64 and float32              (int(k + 2^-20) == k)
  half     k/2, also negative   floats                           (truncation towards zero)
  big24    2^24 + j             float64, int64, int32; float32 only for even j >= 0
  wrap16   j and 65536 + j      everything but int16             (65538 -> int16 wraps to 2)
  wrap32   j and 2^32 + j       float64 and int64                (2^32 + 2 -> int32 wraps to 2)
  dec      0.1, float32(0.1), +-1 ulp

One axis (x in some configurations, y in the others) carries the values of the cluster, the
other one the integers 0..4, so that every difference and every product the kernels form is
exact in the arithmetic they are carried out in (float64 after promotion; float32 for the
differences inside a float32 shape and for float32 against int16): the answer of the real code
is then the exact answer, and it is demanded without any tolerance from

  * the Coq model (Model/PointShape.v three_forms over Z) on the exported buffers of the same
    point array, all coordinates scaled by 2^60 (the predicate is invariant under scaling),
    for the array form, the positions form and the scalar form of every element;
  * an independent exact oracle (integers after scaling: equality, parametric on-segment test,
    crossing parity of a ray that meets no vertex) for every point not exactly on a ring;
  * GeoSeries.intersects == the array form.

The scalar shape really STORES its coordinates in the other subtype: it is built by the public
constructor from numpy arrays of that dtype or from a typed zero-offset arrow scalar (an element
taken out of a list-geometry array is rebuilt by the library from Python numbers and arrives as
float64 / int64 whatever the array's subtype; that route is added in the thorough tier).

Shapes of the six kinds: points / multipoints on the values next to the other side's extra
values, lines along and across the cluster axis (zero-length segments, the bounding box ending
exactly at a near-tie), rectangles / triangles / a rectangle with a hole whose edges lie on
such values (a point 2^-30 inside or outside an edge), two-part multipolygons with a gap of
one near-tie between the parts.

quick tier: kind `point` (all three forms; no compiled kernel) and the scalar form against
multipoints for all 20 ordered pairs; the compiled kernels (one numba specialisation per pair
and kind, ~4 s per pair) for the pairs of CORE_PAIRS plus two pairs drawn from rep.rng.
thorough tier: everything for all 20 pairs, both axes.

Integers beyond 2^53 stored as int64 against float64 (2^53 + 1 against 2^53) are NOT in the
class: there the real code itself converts int64 to binary64 (A-FLOAT); that boundary is probed
once per run and its outcome recorded in the evidence (beyond_binary64), the three forms still
having to agree.
"""
import time
from fractions import Fraction as F

import numpy as np

from . import c02_util as U
from . import common as C
from . import geomgen as G

Nat, Rec, Some = C.Nat, C.Rec, C.Some

SCALE_BITS = 60
SC = 1 << SCALE_BITS
GV = [0, 1, 2, 3, 4]                      # the other axis
SUBTYPES = list(G.SUBTYPES)
CORE_PAIRS = [('float32', 'float64'), ('float64', 'float32'), ('int64', 'float32'), ('float64', 'int32')]
# set to True to turn the recorded A-FLOAT boundary (int64 beyond 2^53 against float64) into a violation
BEYOND_BINARY64_IS_VIOLATION = False

_D32 = F(float(np.float32(0.1)))
_U32 = F(1, 2 ** 27)                      # ulp of float32 at 0.1
CLUSTERS = {
    'frac30': [F(k) + F(j, 2 ** 30) for k in (1, 2, 3, 4) for j in (-1, 0, 1)],
    'frac20': [F(k) + F(j, 2 ** 20) for k in (1, 2, 3) for j in (-1, 0, 1)],
    'half': [F(k, 2) for k in range(-4, 7)],
    'big24': [F(2 ** 24 + j) for j in range(-2, 5)],
    'wrap16': [F(j) for j in range(4)] + [F(65536 + j) for j in range(4)],
    'wrap32': [F(j) for j in range(4)] + [F(2 ** 32 + j) for j in range(4)],
    'dec': [F(0.1), F(0.1) + F(1, 2 ** 56), _D32, _D32 + _U32, _D32 - _U32],
}


# --------------------------------------------------------------------------
# values and subtypes
# --------------------------------------------------------------------------
def representable(v, st):
    dt = np.dtype(st)
    if dt.kind in 'iu':
        info = np.iinfo(dt)
        return v.denominator == 1 and info.min <= v <= info.max
    x = float(v)
    if F(x) != v:
        return False
    return F(float(dt.type(x))) == v


def narrow(v, st):
    """what a conversion of the exact value v to the subtype st yields (numpy astype: round to
    nearest for floats, truncation towards zero and wrap-around for integers)"""
    dt = np.dtype(st)
    if dt.kind in 'iu':
        z = int(v)                         # towards zero
        bits = dt.itemsize * 8
        z &= (1 << bits) - 1
        if dt.kind == 'i' and z >= 1 << (bits - 1):
            z -= 1 << bits
        return F(z)
    return F(float(dt.type(float(v))))


def pyval(v, st):
    """the Python number handed to the constructors for the exact value v"""
    return int(v) if np.dtype(st).kind in 'iu' else float(v)


def scaled(v):
    z = F(v) * SC
    if z.denominator != 1:
        raise ValueError(f'{v!r} is not a multiple of 2^-{SCALE_BITS}')
    return int(z)


def fstr(v):
    return str(F(v))


def pool(cluster, st):
    vals = sorted(v for v in CLUSTERS[cluster] if representable(v, st))
    if st == 'float32':
        # differences inside a float32 shape are formed in float32: they must be exact
        while len(vals) > 1 and not all(representable(a - b, st) for a in vals for b in vals):
            vals = vals[:-1]
    return vals


def applicable(cluster, p, s):
    a, b = pool(cluster, p), pool(cluster, s)
    return len(a) >= 2 and len(b) >= 2 and a != b


def xy(f, g, axis):
    return (f, F(g)) if axis == 'x' else (F(g), f)


# --------------------------------------------------------------------------
# point arrays
# --------------------------------------------------------------------------
class MixedVariant:
    """duck-typed like c02.Variant: arr, els, pts (scaled integer pairs / None), rec, n, name"""

    def __init__(self, st, cluster, axis):
        self.subtype, self.cluster, self.axis = st, cluster, axis
        self.name = f'mixed:{st}:{cluster}:{axis}'
        fs = pool(cluster, st)
        exact = [xy(f, g, axis) for f in fs for g in GV]
        exact = exact[:7] + [None] + exact[7:] + [None]
        self.exact = exact
        self.arr = G.make_array('point', [None if e is None else [pyval(e[0], st), pyval(e[1], st)]
                                          for e in exact], st)
        self.pts = [None if e is None else (scaled(e[0]), scaled(e[1])) for e in exact]
        self.n = len(exact)
        self.els = [self.arr[i] for i in range(self.n)]
        self.twin_els = self.els
        self.rec, self.rec_source, self.stored_ok = export_points_scaled(self.arr, self.pts)


def export_points_scaled(arr, pts):
    """Build_fixarr from buffers() of the public __arrow_array__(), every stored value scaled by
    2^60 exactly; (record, source, stored values are the intended ones)"""
    try:
        data = arr.__arrow_array__()
        bufs = data.buffers()
        off, n = data.offset, len(data)
        dt = np.dtype(arr.dtype.subtype)
        valid = C._bits(bufs[0], off + n)
        raw = np.frombuffer(bufs[1], dtype=dt)[:2 * (off + n)].tolist() if n else []
        assert n == len(pts) and len(raw) == 2 * (off + n)
        vals = []
        for x in raw:
            try:
                vals.append(Some(scaled(F(x))))
            except (ValueError, OverflowError):          # NaN / inf / junk in a missing slot
                vals.append(None)
        ok = all(p is None or (vals[2 * (off + i)] == Some(p[0]) and vals[2 * (off + i) + 1] == Some(p[1]))
                 for i, p in enumerate(pts))
        return Rec('Build_fixarr', Nat(off), Nat(n), None if valid is None else Some(valid), vals), 'arrow', ok
    except Exception:  # noqa: BLE001
        valid = [p is not None for p in pts]
        vals = [c for p in pts for c in (p if p is not None else (0, 0))]
        return Rec('Build_fixarr', Nat(0), Nat(len(pts)), None if all(valid) else Some(valid),
                   [Some(int(v)) for v in vals]), 'rebuilt', True


# --------------------------------------------------------------------------
# shapes, in (f, g) coordinates: f on the cluster axis, g in 0..4
# --------------------------------------------------------------------------
def hot_values(fs, other):
    """values of this side next to a value only the other side has, and values only this side has"""
    hot = set()
    for o in other:
        if o not in fs:
            hot.add(min(fs, key=lambda s: (abs(s - o), s)))
    for s in fs:
        if s not in other:
            hot.add(s)
    return sorted(hot) or list(fs)


def rect(fa, fb, ga, gb):
    return [(fa, ga), (fb, ga), (fb, gb), (fa, gb)]


def _ring_variant(rng, r):
    k = rng.randrange(len(r))
    r = r[k:] + r[:k]
    return r[::-1] if rng.random() < 0.5 else r


def _sc_ring(r, axis):
    return [tuple(scaled(c) for c in xy(f, g, axis)) for f, g in r]


def gen_fg_shapes(rng, fs, hot, quick):
    """[(kind, cls, fg)] -- fg: a vertex, a vertex list, a list of vertex lists (rings are open
    lists here), a list of lists of rings"""
    out = []

    def pick():
        return rng.choice(hot) if rng.random() < 0.7 else rng.choice(fs)

    def two(sort=True):
        for _ in range(30):
            a, b = pick(), pick()
            if a != b:
                return (min(a, b), max(a, b)) if sort else (a, b)
        return fs[0], fs[-1]

    for f in (hot[:3] + [rng.choice(fs)]) if quick else (hot[:6] + [rng.choice(fs)]):
        out.append(('point', 'point', (f, rng.choice(GV))))
    for _ in range(2):
        out.append(('multipoint', 'multipoint', [(pick(), rng.choice(GV)) for _ in range(rng.randint(2, 6))]))
    f0 = pick()
    lines = [[(f0, 0), (f0, 4)],                       # along g at a near-tie value
             [(f0, 1), (f0, 1), (f0, 3)],              # with a zero-length segment
             [(fs[0], 2), (fs[-1], 2)]]                # along the cluster axis: the box ends on its extremes
    fa, fb = two(sort=False)
    lines += [[(fa, 0), (fb, 4)], [(fa, 4), (fb, 0), (fb, 2)]]
    for _ in range(1 if quick else 3):
        lines.append([(pick(), rng.choice(GV)) for _ in range(rng.randint(2, 4))])
    for vs in lines:
        out.append(('line', 'line', vs))
    for _ in range(2):
        out.append(('multiline', 'multiline', [list(rng.choice(lines)) for _ in range(rng.randint(1, 3))]))
    # polygons
    polys = []
    polys.append(('polygon:rect_extremes', [rect(fs[0], fs[-1], 0, 4)]))
    fa, fb = two()
    ga, gb = sorted(rng.sample(GV, 2))
    polys.append(('polygon:rect_near_tie', [rect(fa, fb, ga, gb)]))
    for _ in range(1 if quick else 3):
        for _ in range(20):
            t = [(pick(), rng.choice(GV)) for _ in range(3)]
            if U.is_simple(_sc_ring(t, 'x')):
                polys.append(('polygon:triangle', [t]))
                break
    if len(fs) >= 4:
        i, j = sorted(rng.sample(range(1, len(fs) - 1), 2))
        shell, hole = rect(fs[0], fs[-1], 0, 4), rect(fs[i], fs[j], 1, 3)[::-1]
        polys.append(('polygon:rect_with_hole', [shell, hole]))
        polys.append(('polygon:rect_with_hole_reversed', [shell[::-1], hole[::-1]]))
    for cls, rings in polys:
        if len(rings) == 1:
            rings = [_ring_variant(rng, rings[0])]         # any start vertex, either way round
        else:
            k = rng.randrange(4)                           # any start vertex (the windings stay opposite)
            rings = [r[k % len(r):] + r[:k % len(r)] for r in rings]
        out.append(('polygon', cls, rings))
    fa, fb = two()
    fc, fd = two()
    out.append(('multipolygon', 'multipolygon:stacked',
                [[_ring_variant(rng, rect(fa, fb, 0, 1))], [_ring_variant(rng, rect(fc, fd, 2, 4))]]))
    if len(fs) >= 4:
        i0, i1, i2, i3 = sorted(rng.sample(range(len(fs)), 4))
        out.append(('multipolygon', 'multipolygon:side_by_side',
                    [[_ring_variant(rng, rect(fs[i0], fs[i1], 0, 4))],
                     [_ring_variant(rng, rect(fs[i2], fs[i3], 1, 3))]]))
    return out


def realise(kind, fg, axis, st):
    """-> (coords for the constructor, exact coords as strings, model coords (scaled), sem (scaled))"""
    def v3(f, g):
        x, y = xy(f, g, axis)
        return (pyval(x, st), pyval(y, st)), (fstr(x), fstr(y)), (scaled(x), scaled(y))

    def flat(vs, close):
        vs = list(vs) + ([vs[0]] if close else [])
        t = [v3(f, g) for f, g in vs]
        return ([c for a in t for c in a[0]], [c for a in t for c in a[1]], [c for a in t for c in a[2]],
                [a[2] for a in t][:len(t) - (1 if close else 0)])
    if kind == 'point':
        a = v3(*fg)
        return list(a[0]), list(a[1]), list(a[2]), a[2]
    if kind in ('multipoint', 'line'):
        return flat(fg, False)
    if kind in ('multiline', 'polygon'):
        parts = [flat(p, kind == 'polygon') for p in fg]
        return tuple([p[i] for p in parts] for i in range(4))
    parts = [[flat(r, True) for r in part] for part in fg]
    return tuple([[r[i] for r in part] for part in parts] for i in range(4))


def valid_polygon(kind, sem):
    parts = [sem] if kind == 'polygon' else sem
    for rings in parts:
        if not all(U.is_simple(list(r)) for r in rings):
            return False
        for h in rings[1:]:
            if not U.hole_fits(list(rings[0]), list(h)) or (U.area2(h) > 0) == (U.area2(rings[0]) > 0):
                return False
    return True


ROUTES = ('numpy', 'arrow', 'element')


def _np_nested(coords, st, depth):
    if depth == 1:
        return np.array(coords, dtype=st)
    return [_np_nested(c, st, depth - 1) for c in coords]


def build_shape(kind, coords, st, route):
    """a scalar shape whose coordinates are STORED in the subtype st:
      numpy    the public constructor on (nested lists of) numpy arrays of that dtype
      arrow    the public constructor on a typed, zero-offset pyarrow scalar
      element  element 1 of a three-element array of that subtype (what sjoin hands over; the
               library rebuilds such a scalar from Python numbers, so a list shape arrives as
               float64 / int64 whatever the array's subtype -- a Point keeps the subtype)"""
    if kind == 'point':
        if route == 'element':
            return G.make_array('point', [[9, 9], list(coords), None], st)[1]
        return G.scalar_class('point')(np.asarray(coords, dtype=st))
    if route == 'element':
        return U.make_shape(kind, coords, 'array:' + st)
    if route == 'numpy':
        return G.scalar_class(kind)(_np_nested(coords, st, G.LEVELS[kind]))
    import pyarrow as pa
    t = pa.from_numpy_dtype(np.dtype(st))
    for _ in range(G.LEVELS[kind]):
        t = pa.list_(t)
    return G.scalar_class(kind)(pa.array([coords], type=t)[0])


def narrowed_sem(kind, sem, st):
    """the shape's vertices after a conversion to the subtype st (for the coverage counters)"""
    def nv(v):
        return tuple(scaled(narrow(F(c, SC), st)) for c in v)
    if kind == 'point':
        return nv(sem)
    if kind in ('multipoint', 'line'):
        return [nv(v) for v in sem]
    if kind in ('multiline', 'polygon'):
        return [[nv(v) for v in p] for p in sem]
    return [[[nv(v) for v in r] for r in part] for part in sem]


def _safe_oracle(M, kind, sem, pts):
    try:
        return M.oracle_row(kind, sem, pts)
    except Exception:  # noqa: BLE001  (a narrowed polygon need not be valid)
        return None


# --------------------------------------------------------------------------
# the section
# --------------------------------------------------------------------------
def choose_kernel_pairs(rng, tier):
    pairs = [(p, s) for p in SUBTYPES for s in SUBTYPES if p != s]
    if tier != 'quick':
        return pairs, pairs
    rest = [pr for pr in pairs if pr not in CORE_PAIRS]
    return pairs, CORE_PAIRS + rng.sample(rest, 2)


def run_case(rep, M, batch, vidx, v, kind, cls, fg, s, axis, inds, gs, route, scalar_only=False):
    """one shape against one point array.  scalar_only: no compiled kernel may be triggered
    (quick tier, pair outside the kernel pairs): the scalar form against the oracle only."""
    coords, exact, mcoords, sem = realise(kind, fg, axis, s)
    if kind in ('polygon', 'multipolygon') and not valid_polygon(kind, sem):
        rep.count('mixed:skipped-invalid-polygon')
        return
    meta = {'family': 'mixed-subtypes', 'kind': kind, 'coords': exact, 'model_coords': mcoords,
            'constructor_coords': coords, 'scale_bits': SCALE_BITS,
            'points_subtype': v.subtype, 'shape_subtype': s, 'cluster': v.cluster, 'axis': axis,
            'variant': v.name, 'route': route, 'sem': sem, 'inds': inds,
            'points_exact': [None if e is None else [fstr(e[0]), fstr(e[1])] for e in v.exact]}
    try:
        shape = build_shape(kind, coords, s, route)
    except Exception as e:  # noqa: BLE001
        rep.violation(f'construct:{kind}', f'cannot build {kind}[{s}] ({route}) from {coords!r}: '
                      f'{type(e).__name__} {e}', meta)
        return
    rep.count('mixed:route:' + route)
    if route != 'element':
        try:
            if np.dtype(shape.numpy_dtype) != np.dtype(s):
                rep.count('mixed:shape-subtype-not-kept:' + kind)
        except Exception:  # noqa: BLE001
            rep.count('internal-unavailable:shape-numpy_dtype')
    orow = M.oracle_row(kind, sem, v.pts)
    # does the case tell a conversion of one side to the other side's subtype from the exact answer?
    for who, row in (('points-narrowed', _safe_oracle(M, kind, sem, [None if e is None else
                                                                    tuple(scaled(narrow(c, s)) for c in e)
                                                                    for e in v.exact])),
                     ('shape-narrowed', _safe_oracle(M, kind, narrowed_sem(kind, sem, v.subtype), v.pts))):
        if row is None:
            continue
        if any(a is not None and b is not None and a != b for a, b in zip(orow, row)):
            rep.count(f'mixed:discriminates:{who}')
            rep.count(f'mixed:discriminates:{who}:{kind}')
        if any(a is not None and b is None for a, b in zip(orow, row)):
            # (the narrowed point / ring coincide: the half-open edge rule then answers)
            rep.count(f'mixed:narrowed-onto-ring:{who}')
    if scalar_only:
        got = []
        for e in v.els:
            r = None if e is None else M.call(lambda e=e: e.intersects(shape))
            got.append(False if r is None else bool(r[1]) if r[0] == 'ok' else r)
        bad = [i for i, (g, o) in enumerate(zip(got, orow)) if o is not None and g != o]
        rep.evaluations += 1
        rep.count(f'mixed:scalar-only:{kind}')
        if bad:
            i = bad[0]
            what = 'raises' if isinstance(got[i], tuple) else 'inside' if orow[i] else 'outside'
            rep.violation(f'oracle:{kind}:{what}:scalar-form',
                          f'{kind}[{s}] {exact}: the {v.subtype} point ({fstr(v.exact[i][0])}, {fstr(v.exact[i][1])}) '
                          f'is {what} by exact arithmetic, '
                          f'Point.intersects says {got[i]}',
                          {**meta, 'scalar_only': True, 'point_index': i, 'oracle': orow, 'impl': got})
        return
    nbefore = len(batch.cases)
    M.check_one(rep, batch, vidx, kind, shape, inds, meta, sem=sem, use_internal=False)
    rep.evaluations += 1
    rep.count('mixed:' + cls)
    if len(batch.cases) > nbefore:
        got = batch.meta[-1]['impl']['arr']
        if got != 'empty' and any(got) and not all(got):
            rep.nontrivial(('mixed', v.name, s, kind, repr(exact)))
        # the three forms among themselves (an exact relation between runs of the real code)
        impl = batch.meta[-1]['impl']
        sc = [False if r is None else r for r in impl['scalars']]
        if got != 'empty' and (sc != got or impl['inds'] != [got[i] for i in inds]):
            which = 'scalar' if sc != got else 'positions'
            i = next((k for k, (a, b) in enumerate(zip(sc, got)) if a != b), None) if sc != got else None
            rep.violation(f'forms-differ:{kind}:{which}',
                          f'PointArray[{v.subtype}].intersects({kind}[{s}] {exact}) and its {which} form differ'
                          + (f' at the point ({fstr(v.exact[i][0])}, {fstr(v.exact[i][1])}): array form {got[i]}, '
                             f'Point.intersects {sc[i]}' if i is not None and v.exact[i] is not None else ''),
                          {**meta, 'impl': impl, 'oracle': orow})
        # the GeoSeries form
        r = M.call(lambda: gs.intersects(shape).values)
        g2 = M.bools(r[1]) if r[0] == 'ok' else list(r)
        if g2 != got:
            rep.violation(f'geoseries-form-differs:{kind}',
                          f'GeoSeries.intersects({kind}[{s}]) differs from PointArray[{v.subtype}].intersects',
                          {**meta, 'geoseries': g2, 'array_form': got})


def mixed_subtypes_section(rep, tier, only=None):
    """only = (points subtype, shape subtype, cluster, axis): replay of one configuration"""
    from . import c02 as M
    from spatialpandas import GeoSeries
    t0 = time.time()
    rng = rep.rng
    quick = tier == 'quick'
    pairs, kernel_pairs = choose_kernel_pairs(rng, tier)
    if only:
        pairs = kernel_pairs = [(only[0], only[1])]
    stats = {'pairs': len(pairs), 'kernel_pairs': [f'{p}>{s}' for p, s in kernel_pairs], 'configurations': 0,
             'cases': 0}
    for p in SUBTYPES:
        mine = [(pp, s) for pp, s in pairs if pp == p]
        if not mine:
            continue
        # the configurations of this points subtype
        confs = []
        for _, s in mine:
            for cl in CLUSTERS:
                if only and cl != only[2]:
                    continue
                if not applicable(cl, p, s):
                    continue
                axes = [only[3]] if only else ['x', 'y'] if not quick else [rng.choice('xy')]
                for axis in axes:
                    confs.append((s, cl, axis))
        keys = sorted(set((cl, axis) for _, cl, axis in confs))
        variants = [MixedVariant(p, cl, axis) for cl, axis in keys]
        for v in variants:
            if not v.stored_ok:
                rep.violation('construct:mixed-points',
                              f'PointArray[{p}] does not hold the values it was given',
                              {'family': 'mixed-subtypes', 'variant': v.name,
                               'points_exact': [None if e is None else [fstr(e[0]), fstr(e[1])] for e in v.exact]})
        series = [GeoSeries(v.arr) for v in variants]
        batch = M.Batch(variants)
        for s, cl, axis in confs:
            vidx = keys.index((cl, axis))
            v = variants[vidx]
            fs = pool(cl, s)
            hot = hot_values(fs, pool(cl, p))
            kernels = (p, s) in kernel_pairs
            stats['configurations'] += 1
            rep.count(f'mixed:pair:{p}>{s}')
            rep.count(f'mixed:cluster:{cl}')
            rep.count(f'mixed:axis:{axis}')
            for kind, cls, fg in gen_fg_shapes(rng, fs, hot, quick):
                inds = M.rand_inds(rng, v.n)
                route = rng.choice(ROUTES[:2] if quick else ROUTES)
                if kernels or kind == 'point':
                    run_case(rep, M, batch, vidx, v, kind, cls, fg, s, axis, inds, series[vidx], route)
                elif kind == 'multipoint':
                    run_case(rep, M, batch, vidx, v, kind, cls, fg, s, axis, inds, series[vidx], route,
                             scalar_only=True)
                else:
                    continue
                stats['cases'] += 1
        M.flush(rep, batch)
    if not only:
        beyond_binary64_probe(rep, M)
    stats['seconds'] = round(time.time() - t0, 1)
    rep.extra['mixed_subtypes'] = {**rep.extra.get('mixed_subtypes', {}), **stats}


def beyond_binary64_probe(rep, M):
    """int64 coordinates beyond 2^53 against float64 ones: outside the class (the code converts
    int64 to binary64: A-FLOAT).  The outcome is recorded; the three forms must still agree."""
    from spatialpandas.geometry import Point, PointArray
    b = 2 ** 53
    pi = PointArray(np.array([[b + 1, 0], [b, 0], [b + 2, 0]], dtype='int64'))
    q = Point(np.array([float(b), 0.0], dtype='float64'))
    arr = M.call(lambda: M.bools(pi.intersects(q)))
    ind = M.call(lambda: M.bools(pi.intersects(q, np.array([2, 1, 0], dtype='int64'))))
    sca = M.call(lambda: [bool(pi[i].intersects(q)) for i in range(3)])
    exact = [False, True, False]
    rec = {'input': 'PointArray(int64)[[2^53+1,0],[2^53,0],[2^53+2,0]].intersects(Point(float64)(2^53,0))',
           'array_form': arr[1] if arr[0] == 'ok' else list(arr), 'scalar_form': sca[1] if sca[0] == 'ok' else list(sca),
           'exact': exact}
    rep.extra.setdefault('mixed_subtypes', {})['beyond_binary64'] = rec
    if arr[0] != 'ok' or ind[0] != 'ok' or sca[0] != 'ok' or arr[1] != sca[1] or ind[1] != arr[1][::-1]:
        rep.violation('forms-differ:beyond-binary64',
                      'int64 points beyond 2^53 against a float64 point: the array, positions and scalar forms differ',
                      {'family': 'mixed-subtypes', 'probe': 'beyond-binary64', **rec, 'inds_form': list(ind)})
    elif arr[1] != exact:
        rep.count('mixed:beyond-binary64:inexact(A-FLOAT)')
        if BEYOND_BINARY64_IS_VIOLATION:
            rep.violation('oracle:point:beyond-binary64',
                          'the int64 point (2^53+1, 0) is reported as equal to the float64 point (2^53, 0)',
                          {'family': 'mixed-subtypes', 'probe': 'beyond-binary64', **rec})
    else:
        rep.count('mixed:beyond-binary64:exact')


def replay(rep, rp):
    from . import c02 as M
    if rp.get('probe') == 'beyond-binary64':
        beyond_binary64_probe(rep, M)
    else:
        p, s, cl, axis = rp['points_subtype'], rp['shape_subtype'], rp['cluster'], rp['axis']
        v = MixedVariant(p, cl, axis)
        batch = M.Batch([v])
        kind = rp['kind']
        sem = M.tuplify(rp['sem']) if rp.get('sem') is not None else None
        shape = build_shape(kind, rp['constructor_coords'], s, rp.get('route', 'numpy'))
        meta = {k: rp[k] for k in ('family', 'kind', 'coords', 'model_coords', 'constructor_coords',
                                   'points_subtype', 'shape_subtype', 'cluster', 'axis', 'variant', 'route',
                                   'inds') if k in rp}
        print('points:', p, [None if e is None else (float(e[0]), float(e[1])) for e in v.exact])
        print('shape :', type(shape).__name__, f'[{s}]', rp['coords'])
        if rp.get('scalar_only'):
            orow = M.oracle_row(kind, sem, v.pts)
            got = [False if e is None else bool(e.intersects(shape)) for e in v.els]
            print('scalar form:', got)
            print('oracle     :', orow)
            return all(o is None or g == o for g, o in zip(got, orow))
        M.check_one(rep, batch, 0, kind, shape, rp['inds'], {**meta, 'sem': sem}, sem=sem, use_internal=False)
        if batch.cases:
            print('impl  :', batch.meta[0]['impl'])
            print('oracle:', batch.meta[0]['oracle'])
            print('model :', M.decode_model(C.coq_eval(M.IMPORTS, f'{batch.fn} {C.coq(batch.cases[0])}'), 0, 0))
            M.flush(rep, batch)
    for vio in rep.violations:
        print('  ', vio['signature'], '-', vio['what'])
    return not rep.violations
