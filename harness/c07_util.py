"""Helpers shared by the C07 / C08 correspondence checks (Hilbert curve)."""
import numpy as np

from . import common as C


def NN(v):
    """a non-negative Python int as an N literal"""
    v = int(v)
    if v < 0:
        raise ValueError(f"negative value {v} cannot be written in N")
    return C.Raw(f"{v}%N")


def nlist(vs):
    return [NN(v) for v in vs]


def nrows(rows):
    return [nlist(r) for r in rows]


def hilbert_mod():
    from spatialpandas.spatialindex import hilbert_curve as H
    return H


def cfd_vector(p, n, hs):
    """coordinates_from_distances -> list of rows of Python ints"""
    H = hilbert_mod()
    if len(hs) == 0:
        return []
    out = H.coordinates_from_distances(p, n, np.asarray(hs, dtype=np.int64))
    return [[int(x) for x in row] for row in np.asarray(out).tolist()]


def cfd_scalar(p, n, hs):
    H = hilbert_mod()
    return [[int(x) for x in H.coordinate_from_distance(p, n, int(h))] for h in hs]


def dfc_vector(p, coords):
    H = hilbert_mod()
    if len(coords) == 0:
        return [], True
    arr = np.asarray(coords, dtype=np.int64).reshape(len(coords), -1)
    before = arr.copy()
    out = H.distances_from_coordinates(p, arr)
    return [int(x) for x in np.asarray(out).tolist()], bool((arr == before).all())


def dfc_scalar(p, coords):
    """scalar entry on private copies; returns (distances, argument contents afterwards)"""
    H = hilbert_mod()
    ds, states = [], []
    for c in coords:
        a = np.array(c, dtype=np.int64)
        ds.append(int(H.distance_from_coordinate(p, a)))
        states.append([int(x) for x in a.tolist()])
    return ds, states


def transpose_form(p, n, h):
    """the distance h de-interleaved into n coordinates of p bits ("transposed" form, computed
    here from the public result only): coordinate i takes the bits i, i+n, i+2n, ... of the
    n*p-bit big-endian expansion of h"""
    out = []
    for i in range(n):
        x = 0
        for j in range(p):
            x = (x << 1) | ((h >> (n * p - 1 - (i + j * n))) & 1)
        out.append(x)
    return out


# ---- a pure-Python reference of the *classical* curve (n = 2), used only for
# extra direct checks at orders the kernel-evaluated theorems do not reach
def hilbert_ref(p, d):
    x = y = 0
    # iterative form of the quadrant recursion of Spec/Curve.v (least significant level first)
    for k in range(p):
        s = 1 << k
        q = (d >> (2 * k)) & 3
        if q == 0:
            x, y = y, x
        elif q == 1:
            x, y = x, y + s
        elif q == 2:
            x, y = x + s, y + s
        else:
            x, y = 2 * s - 1 - y, s - 1 - x
    return [x, y]


# --------------------------------------------------------------------------
# running the implementation side in a child process with a deadline: a kernel
# that loops forever (numba nopython code cannot be interrupted from Python) is
# reported instead of hanging the check
# --------------------------------------------------------------------------
class ImplHang(Exception):
    pass


class ImplCrash(Exception):
    pass


def _worker(conn, table):
    import traceback
    while True:
        try:
            msg = conn.recv()
        except EOFError:
            return
        if msg is None:
            return
        name, args = msg
        try:
            conn.send(('ok', table[name](*args)))
        except Exception as e:   # the callee reports expected exceptions itself
            conn.send(('exc', f'{type(e).__name__}: {e}\n{traceback.format_exc()[-1500:]}'))


class ImplRunner:
    """table: name -> function, executed in a forked child; call(name, args, timeout)"""

    def __init__(self, table):
        import multiprocessing as mp
        self.ctx = mp.get_context('fork')
        self.table = table
        self.proc = None
        self.conn = None
        self.hangs = 0

    def _start(self):
        parent, child = self.ctx.Pipe()
        self.proc = self.ctx.Process(target=_worker, args=(child, self.table), daemon=True)
        self.proc.start()
        child.close()
        self.conn = parent

    def submit(self, name, args):
        if self.proc is None or not self.proc.is_alive():
            self._start()
        self.conn.send((name, args))

    def call(self, name, args, timeout):
        self.submit(name, args)
        return self.collect(timeout)

    def collect(self, timeout):
        try:
            ready = self.conn.poll(timeout)
        except (EOFError, OSError):
            ready = True
        if not ready:
            self.hangs += 1
            self.kill()
            raise ImplHang(f'no answer within {timeout:.0f} s')
        try:
            kind, val = self.conn.recv()
        except (EOFError, OSError):
            self.kill()
            raise ImplCrash('the implementation process died')
        if kind == 'exc':
            raise ImplCrash(val)
        return val

    def kill(self):
        if self.proc is not None:
            try:
                self.proc.kill()
                self.proc.join(5)
            except Exception:
                pass
        self.proc = None
        self.conn = None

    def close(self):
        if self.proc is not None and self.proc.is_alive():
            try:
                self.conn.send(None)
                self.proc.join(2)
            except Exception:
                pass
        self.kill()
