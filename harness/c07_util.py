"""Helpers shared by the C07 / C08 correspondence checks (Hilbert curve)."""
import numpy as np

from . import common as C


def NN(v):
    """a non-negative Python int as an N literal"""
    v = int(v)
    if v < 0:
        raise ValueError(f"negative value {v} cannot be written in N")
    return C.Raw(f"{v}%N")


def nlist(vs):
    return [NN(v) for v in vs]


def nrows(rows):
    return [nlist(r) for r in rows]


def hilbert_mod():
    from spatialpandas.spatialindex import hilbert_curve as H
    return H


def cfd_vector(p, n, hs):
    """coordinates_from_distances -> list of rows of Python ints"""
    H = hilbert_mod()
    if len(hs) == 0:
        return []
    out = H.coordinates_from_distances(p, n, np.asarray(hs, dtype=np.int64))
    return [[int(x) for x in row] for row in np.asarray(out).tolist()]


def cfd_scalar(p, n, hs):
    H = hilbert_mod()
    return [[int(x) for x in H.coordinate_from_distance(p, n, int(h))] for h in hs]


def dfc_vector(p, coords):
    H = hilbert_mod()
    if len(coords) == 0:
        return [], True
    arr = np.asarray(coords, dtype=np.int64).reshape(len(coords), -1)
    before = arr.copy()
    out = H.distances_from_coordinates(p, arr)
    return [int(x) for x in np.asarray(out).tolist()], bool((arr == before).all())


def dfc_scalar(p, coords):
    """scalar entry on private copies; returns (distances, argument contents afterwards)"""
    H = hilbert_mod()
    ds, states = [], []
    for c in coords:
        a = np.array(c, dtype=np.int64)
        ds.append(int(H.distance_from_coordinate(p, a)))
        states.append([int(x) for x in a.tolist()])
    return ds, states


# ---- a pure-Python reference of the *classical* curve (n = 2), used only for
# extra direct checks at orders the kernel-evaluated theorems do not reach
def hilbert_ref(p, d):
    x = y = 0
    # iterative form of the quadrant recursion of Spec/Curve.v (least significant level first)
    for k in range(p):
        s = 1 << k
        q = (d >> (2 * k)) & 3
        if q == 0:
            x, y = y, x
        elif q == 1:
            x, y = x, y + s
        elif q == 2:
            x, y = x + s, y + s
        else:
            x, y = 2 * s - 1 - y, s - 1 - x
    return [x, y]
