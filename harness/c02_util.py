"""Helpers of the C02 correspondence check (point versus shape).

* export of a *scalar* shape's own listarray buffers as Model/PointShape.v's [shape]
* an exact, independent oracle (Fractions; interior by counting proper crossings of a ray
  of slope 1/D, D a large prime, which passes through no lattice vertex -- no half-open rule)
* the small-scope enumerators of DESIGN section 4 C02
"""
import itertools
from fractions import Fraction

import numpy as np

from . import common as C
from . import geomgen as G

Nat, Rec, Some = C.Nat, C.Rec, C.Some
D_PRIME = 1000003


# --------------------------------------------------------------------------
# export
# --------------------------------------------------------------------------
def _ints(buf, dtype):
    if buf is None or dtype is None:
        return []
    v = np.frombuffer(buf, dtype=dtype)
    out = []
    for x in v.tolist():
        if x != int(x):
            raise ValueError(f'non-integral coordinate {x!r}')
        out.append(int(x))
    return out


KIND_CODE = {'multipoint': 1, 'line': 2, 'multiline': 3, 'polygon': 4, 'multipolygon': 5}


def wire_shape(kind, shape):
    """(code, off, len, offs, vals): the scalar shape's own listarray as _ListArrayBufferMixin
    sees it through .buffers() / .offset / len(); see Model/PointShapeHarness.v mk_shape.
    Every entry of every buffer is exported (numpy slices clip at the buffers' real lengths)."""
    if kind == 'point':
        fv = shape.flat_values
        assert len(fv) == 2
        return (0, 0, 2, [], [int(fv[0]), int(fv[1])])
    la = shape.listarray
    bufs = la.buffers()
    k = KIND_CODE[kind]
    if len(bufs) < 2:
        return (3 * k + 0, 0, 0, [], [])
    if len(bufs) < 3:
        return (3 * k + 1, la.offset, len(la), [], _ints(bufs[1], shape.numpy_dtype))
    offs = []
    for i in range(1, len(bufs) - 1, 2):
        ob = np.frombuffer(bufs[i], dtype=np.uint32) if bufs[i] is not None else np.array([], dtype=np.uint32)
        offs.append([int(x) for x in ob])
    # an odd number of buffers: the innermost child is a NullArray (values buffer None)
    vals = _ints(bufs[-1], shape.numpy_dtype) if len(bufs) % 2 == 0 else []
    return (3 * k + 2, la.offset, len(la), offs, vals)


def wire_from_coords(kind, coords):
    """the same wire tuple rebuilt from the PUBLIC nested coordinate lists as a fresh
    zero-offset buffer (what pa.array([coords])[0] holds; library-built scalars are
    zero-offset).  Used as the model's input; the shape's own buffers (wire_shape) are an
    optional internal extra."""
    if kind == 'point':
        return (0, 0, 2, [], [int(coords[0]), int(coords[1])])
    k = KIND_CODE[kind]
    if kind in ('multipoint', 'line'):
        return (3 * k + 1, 0, len(coords), [], [int(c) for c in coords])
    if kind in ('multiline', 'polygon'):
        o, vals = [0], []
        for part in coords:
            vals.extend(int(c) for c in part)
            o.append(len(vals))
        return (3 * k + 2, 0, len(coords), [o], vals)
    o0, o1, vals = [0], [0], []
    for part in coords:
        for ring in part:
            vals.extend(int(c) for c in ring)
            o1.append(len(vals))
        o0.append(len(o1) - 1)
    return (3 * k + 2, 0, len(coords), [o0, o1], vals)


def export_points(arr, pts):
    """Build_fixarr of a public PointArray from buffers() of its __arrow_array__();
    (record, 'arrow') or, when that is unavailable, a zero-offset rebuild from the known
    slots (record, 'rebuilt') -- equivalent for the model by C02_forms_agree /
    C02_missing_false (any offset, any placeholder bytes in missing slots)."""
    try:
        data = arr.__arrow_array__()
        bufs = data.buffers()
        off, n = data.offset, len(data)
        dt = np.dtype(arr.dtype.subtype)
        valid = C._bits(bufs[0], off + n)
        vals = _ints(bufs[1], dt)[:2 * (off + n)] if n else []
        assert n == len(pts) and (n == 0 or len(vals) == 2 * (off + n))
        return Rec('Build_fixarr', Nat(off), Nat(n), None if valid is None else Some(valid),
                   [Some(v) for v in vals]), 'arrow'
    except Exception:  # noqa: BLE001
        valid = [p is not None for p in pts]
        vals = [c for p in pts for c in (p if p is not None else (0, 0))]
        return Rec('Build_fixarr', Nat(0), Nat(len(pts)), None if all(valid) else Some(valid),
                   [Some(int(v)) for v in vals]), 'rebuilt'


def zlist(l):
    return '[' + '; '.join(zlist(x) if isinstance(x, list) else str(int(x)) for x in l) + ']'


def enc_bools(l):
    return sum(1 << i for i, b in enumerate(l) if b) + (1 << len(l))


def make_shape(kind, coords, route):
    """route: 'direct' (the scalar constructor on the nested list), 'array:<subtype>'
    (element 1 of a 3-element array of that subtype, through __getitem__)"""
    if kind == 'point':
        st = route.split(':')[1] if ':' in route else 'float64'
        return G.scalar_class('point')(np.asarray(coords, dtype=st))
    if route == 'direct':
        return G.scalar_class(kind)(coords)
    st = route.split(':')[1]
    filler = {'multipoint': [9, 9], 'line': [9, 9, 8, 8], 'multiline': [[9, 9, 8, 8]],
              'polygon': [[9, 9, 8, 8, 9, 8, 9, 9]], 'multipolygon': [[[9, 9, 8, 8, 9, 8, 9, 9]]]}[kind]
    arr = G.make_array(kind, [filler, coords, None], st)
    return arr[1]


# --------------------------------------------------------------------------
# exact geometry (integers / Fractions only)
# --------------------------------------------------------------------------
def cross(o, a, b):
    return (a[0] - o[0]) * (b[1] - o[1]) - (a[1] - o[1]) * (b[0] - o[0])


def on_segment(p, a, b):
    """P = A + t(B-A) for some t in [0,1], computed parametrically"""
    dx, dy = b[0] - a[0], b[1] - a[1]
    if dx == 0 and dy == 0:
        return p[0] == a[0] and p[1] == a[1]
    if dx != 0:
        t = Fraction(p[0] - a[0], dx)
    else:
        t = Fraction(p[1] - a[1], dy)
    return 0 <= t <= 1 and a[0] + t * dx == p[0] and a[1] + t * dy == p[1]


def sgn(v):
    return (v > 0) - (v < 0)


def segs_meet(a, b, c, d):
    """closed segments AB and CD share a point (non-degenerate or degenerate)"""
    o1, o2 = sgn(cross(a, b, c)), sgn(cross(a, b, d))
    o3, o4 = sgn(cross(c, d, a)), sgn(cross(c, d, b))
    if o1 != o2 and o3 != o4:
        return True
    return on_segment(c, a, b) or on_segment(d, a, b) or on_segment(a, c, d) or on_segment(b, c, d)


def segs_cross_properly(a, b, c, d):
    o1, o2 = sgn(cross(a, b, c)), sgn(cross(a, b, d))
    o3, o4 = sgn(cross(c, d, a)), sgn(cross(c, d, b))
    return o1 * o2 < 0 and o3 * o4 < 0


def ring_edges(verts):
    """verts: open list of vertices; closed edge cycle"""
    n = len(verts)
    return [(verts[i], verts[(i + 1) % n]) for i in range(n)]


def area2(verts):
    return sum(a[0] * b[1] - a[1] * b[0] for a, b in ring_edges(verts))


def is_simple(verts):
    n = len(verts)
    if n < 3 or len(set(verts)) != n or area2(verts) == 0:
        return False
    es = ring_edges(verts)
    for i in range(n):
        for j in range(i + 1, n):
            adjacent = (j == i + 1) or (i == 0 and j == n - 1)
            if adjacent:
                # share exactly the common vertex: the far ends must not lie on the other edge
                (a, b), (c, d) = es[i], es[j]
                if j == i + 1:
                    far1, far2 = a, d
                    if on_segment(far1, c, d) or on_segment(far2, a, b):
                        return False
                else:
                    far1, far2 = b, c
                    if on_segment(far1, c, d) or on_segment(far2, a, b):
                        return False
            elif segs_meet(*es[i], *es[j]):
                return False
    return True


def on_ring(p, verts):
    return any(on_segment(p, a, b) for a, b in ring_edges(verts))


def inside_ring(p, verts):
    """p not on the ring: parity of the proper crossings of the ray p + t(D,1), t > 0.
    The ray meets no lattice point other than p itself (|dx| < D), so every crossing is
    proper and no tie-breaking rule is involved."""
    for dprime in RAY_PRIMES:
        r = _inside_ring_dir(p, verts, (dprime, 1))
        if r is not None:
            return r
    raise AssertionError('ray through a vertex for every direction tried')


RAY_PRIMES = (D_PRIME, 999983, 1000033, 1000037, 15485863)


def _inside_ring_dir(p, verts, d):
    """crossing parity along p + t*d; None when the ray passes through a vertex (coordinates
    that are not small integers, e.g. scaled by 2^60: another direction is tried then)"""
    q = (p[0] + d[0], p[1] + d[1])
    n = 0
    for a, b in ring_edges(verts):
        sa, sb = sgn(cross(p, q, a)), sgn(cross(p, q, b))
        if sa == 0 or sb == 0:
            return None
        if sa == sb:
            continue
        # intersection parameter along the ray: t = cross(a-p, b-a) / cross(d, b-a)
        e = (b[0] - a[0], b[1] - a[1])
        den = d[0] * e[1] - d[1] * e[0]
        num = (a[0] - p[0]) * e[1] - (a[1] - p[1]) * e[0]
        t = Fraction(num, den)
        if t > 0:
            n += 1
    return n % 2 == 1


def classify_polygon(p, rings):
    """rings: [shell, hole, ...] as open vertex lists (a valid polygon).
    'on' | 'in' | 'out'"""
    if any(on_ring(p, r) for r in rings):
        return 'on'
    if not inside_ring(p, rings[0]):
        return 'out'
    return 'out' if any(inside_ring(p, h) for h in rings[1:]) else 'in'


def classify_multipolygon(p, parts):
    cs = [classify_polygon(p, rings) for rings in parts]
    if 'on' in cs:
        return 'on'
    return 'in' if 'in' in cs else 'out'


def hole_fits(shell, hole):
    """hole strictly inside the shell: no common point of the rings, one vertex inside"""
    for e in ring_edges(hole):
        for f in ring_edges(shell):
            if segs_meet(*e, *f):
                return False
    return inside_ring(hole[0], shell)


def centroid3(verts):
    return (Fraction(sum(v[0] for v in verts), len(verts)), Fraction(sum(v[1] for v in verts), len(verts)))


def inside_ring_frac(p, verts):
    """as inside_ring for a rational point (used for part-disjointness only)"""
    d = (D_PRIME, 1)
    q = (p[0] + d[0], p[1] + d[1])
    n = 0
    for a, b in ring_edges(verts):
        sa, sb = sgn(cross(p, q, a)), sgn(cross(p, q, b))
        if sa == 0 or sb == 0:
            raise ValueError('degenerate')
        if sa == sb:
            continue
        e = (b[0] - a[0], b[1] - a[1])
        den = d[0] * e[1] - d[1] * e[0]
        num = (a[0] - p[0]) * e[1] - (a[1] - p[1]) * e[0]
        if Fraction(num, den) > 0:
            n += 1
    return n % 2 == 1


def interiors_disjoint(r1, r2):
    """two convex rings (triangles): no proper edge crossing, no vertex of one strictly
    inside the other, centroid of neither inside the other"""
    for e in ring_edges(r1):
        for f in ring_edges(r2):
            if segs_cross_properly(*e, *f):
                return False
    for a, b in ((r1, r2), (r2, r1)):
        for v in a:
            if not on_ring(v, b) and inside_ring(v, b):
                return False
        c = centroid3(a)
        try:
            if inside_ring_frac(c, b):
                return False
        except ValueError:
            return False
    return True


def rings_touch(r1, r2):
    return any(segs_meet(*e, *f) for e in ring_edges(r1) for f in ring_edges(r2))


# --------------------------------------------------------------------------
# oracle for the other kinds
# --------------------------------------------------------------------------
def oracle_points(p, verts):
    return any(p[0] == v[0] and p[1] == v[1] for v in verts)


def oracle_line(p, verts):
    if oracle_points(p, verts):
        return True
    return any(on_segment(p, verts[i], verts[i + 1]) for i in range(len(verts) - 1))


def collinear_beyond(p, verts):
    """p on the supporting line of a non-degenerate segment but not on the segment"""
    for i in range(len(verts) - 1):
        a, b = verts[i], verts[i + 1]
        if a != b and cross(a, b, p) == 0 and not on_segment(p, a, b):
            return True
    return False


def ray_classes(p, rings):
    """which measure-zero configurations the rightward ray of p meets (p not on a ring)"""
    out = set()
    for r in rings:
        for a, b in ring_edges(r):
            if a[1] == p[1] and a[0] >= p[0]:
                out.add('ray_through_vertex')
            if a[1] == b[1] == p[1] and max(a[0], b[0]) >= p[0]:
                out.add('ray_along_horizontal_edge')
            if a[1] != b[1] and cross(a, b, p) == 0:
                out.add('collinear_with_edge_beyond_end')
    return out


# --------------------------------------------------------------------------
# enumeration
# --------------------------------------------------------------------------
GRID3 = [(x, y) for x in (0, 2, 4) for y in (0, 2, 4)]


def flat(verts, close=False):
    vs = list(verts) + ([verts[0]] if close else [])
    return [c for v in vs for c in v]


def all_simple_rings(nverts, grid=GRID3):
    """every cyclic vertex sequence (every start vertex, both directions) of a simple
    polygon with nverts distinct vertices on the grid"""
    return [list(p) for p in itertools.permutations(grid, nverts) if is_simple(list(p))]


def canonical(verts):
    """one representative per polygon (as a set of edges), counter-clockwise, smallest start"""
    vs = list(verts)
    if area2(vs) < 0:
        vs = vs[::-1]
    k = vs.index(min(vs))
    return tuple(vs[k:] + vs[:k])


def interior_lattice_points(shell):
    xs = [v[0] for v in shell]
    ys = [v[1] for v in shell]
    return [(x, y) for x in range(min(xs), max(xs) + 1) for y in range(min(ys), max(ys) + 1)
            if not on_ring((x, y), shell) and inside_ring((x, y), shell)]


def holes_for(shell, nverts=(3,)):
    """simple rings on the lattice points strictly inside the shell that fit strictly inside,
    one representative per ring, wound opposite to the shell"""
    pts = interior_lattice_points(shell)
    seen, out = set(), []
    ccw_shell = area2(shell) > 0
    for n in nverts:
        for p in itertools.permutations(pts, n):
            p = list(p)
            if not is_simple(p):
                continue
            c = canonical(p)
            if c in seen:
                continue
            seen.add(c)
            if not hole_fits(shell, list(c)):
                continue
            h = list(c)            # ccw
            if ccw_shell:
                h = h[::-1]
            out.append(h)
    return out


def polylines(maxv, grid=GRID3):
    """every vertex sequence of 1..maxv vertices, repeats allowed (zero-length segments,
    back-tracking)"""
    out = []
    for n in range(1, maxv + 1):
        out.extend(list(p) for p in itertools.product(grid, repeat=n))
    return out


# --------------------------------------------------------------------------
# the `inds` argument in every form a caller may give it (used by C02 and by C01)
# --------------------------------------------------------------------------
INDS_DTYPES = ['int8', 'uint8', 'int16', 'uint16', 'int32', 'uint32', 'int64']
# positions on both sides of half the range / the range of the 8- and 16-bit types:
# 2 * position wraps in int8 from 64, in uint8 from 128, in int16 from 16384, in uint16 from 32768
EDGE_POS = [0, 1, 63, 64, 65, 127, 128, 129, 255, 256, 257, 299, 16383, 16384, 16385, 32767, 32768, 32769]


def inds_forms(rng, n, tuples, must=()):
    """[(name, positions object, normalised positions)] for an array of n >= 300 elements:

      * an integer array of each width and signedness, holding positions BEYOND HALF the type's
        range whenever the array is long enough (int8 / uint8: n >= 300; int16 / uint16:
        n >= 33000), the type's largest usable position, and positions around 64 / 128 / 256 /
        16384 / 32768; `must` positions (where the answers are known to be interesting) included
      * a Python list, a list of numpy integers, a tuple (only when `tuples`)
      * negative positions (int64 array, int8 array down to -128, int16 array, list)
      * empty list / tuple / arrays
      * a read-only array, a strided view, a 0-based range turned into a list
    """
    assert n >= 300

    def norm(p):
        return p + n if p < 0 else p
    forms = []
    for dt in INDS_DTYPES:
        info = np.iinfo(dt)
        hi = min(n - 1, int(info.max))
        half = (int(info.max) + 1) // 2
        pos = [p for p in EDGE_POS if p <= hi] + [hi, hi - 1] + [p for p in must if p <= hi]
        if hi >= half:
            pos += [rng.randint(half, hi) for _ in range(10)]
        pos += [rng.randint(0, hi) for _ in range(4)]
        rng.shuffle(pos)
        forms.append((dt, np.array(pos, dtype=dt), pos))
    some = [p for p in EDGE_POS if p < n] + [n - 1] + [p for p in must if p < n] + \
        [rng.randrange(n) for _ in range(6)]
    rng.shuffle(some)
    forms.append(('list', list(some), some))
    forms.append(('list-of-numpy-ints', [np.int16(p) if p < 32768 else np.int64(p) for p in some[:9]],
                  some[:9]))
    if tuples:
        forms.append(('tuple', tuple(some), some))
    neg = [-1, -2, -n, -(n - 1), -64, -65, -128, -129, -256, 3, -1] + [p - n for p in must if p < n]
    forms.append(('negative:int64', np.array(neg, dtype='int64'), [norm(p) for p in neg]))
    forms.append(('negative:list', list(neg), [norm(p) for p in neg]))
    neg8 = [-1, -128, -127, -64, -65, -100, 5, 127]
    forms.append(('negative:int8', np.array(neg8, dtype='int8'), [norm(p) for p in neg8]))
    neg16 = [-1, -300, -257, -129, 7] + ([-16384, -16385, -32768, -20000] if n >= 32768 else [])
    forms.append(('negative:int16', np.array(neg16, dtype='int16'), [norm(p) for p in neg16]))
    forms.append(('empty:list', [], []))
    forms.append(('empty:int64', np.array([], dtype='int64'), []))
    forms.append(('empty:uint8', np.array([], dtype='uint8'), []))
    if tuples:
        forms.append(('empty:tuple', (), []))
    ro = np.array(some, dtype='int64')
    ro.setflags(write=False)
    forms.append(('readonly:int64', ro, some))
    small = [p for p in some if p <= 255] + [200, 255, 130]
    ro8 = np.array(small, dtype='uint8')
    ro8.setflags(write=False)
    forms.append(('readonly:uint8', ro8, small))
    forms.append(('strided:int32', np.array(some + some[::-1], dtype='int32')[::2], (some + some[::-1])[::2]))
    forms.append(('strided:int8', np.array([100, 0, 127, 1, 64, 2, 90, 3], dtype='int8')[::2], [100, 127, 64, 90]))
    return forms


def check_inds_forms(forms, call, full, scalar_at):
    """call(positions object) -> the at-positions form; full = the whole-array form (bool array);
    scalar_at(p) = the scalar form of element p (False for a missing element).
    -> [(form name, problem, detail)] with problem in
       raises:<Exception> | not-boolean | length | differs-from-array-form | differs-from-scalar-form |
       positions-modified"""
    out = []
    for name, inds, pos in forms:
        before = inds.copy() if isinstance(inds, np.ndarray) else list(inds)
        try:
            r = np.asarray(call(inds))
        except Exception as e:  # noqa: BLE001
            out.append((name, 'raises:' + type(e).__name__, {'error': str(e)[:200]}))
            continue
        after = inds.copy() if isinstance(inds, np.ndarray) else list(inds)
        if (isinstance(inds, np.ndarray) and not (before.dtype == after.dtype and np.array_equal(before, after))) \
                or (not isinstance(inds, np.ndarray) and before != after):
            out.append((name, 'positions-modified', {}))
        if r.dtype != np.bool_:
            out.append((name, 'not-boolean', {'dtype': str(r.dtype)}))
            continue
        if r.shape != (len(pos),):
            out.append((name, 'length', {'shape': list(r.shape), 'expected': len(pos)}))
            continue
        got = [bool(x) for x in r.tolist()]
        exp_a = [bool(full[p]) for p in pos]
        exp_s = [bool(scalar_at(p)) for p in pos]
        for what, exp in (('differs-from-array-form', exp_a), ('differs-from-scalar-form', exp_s)):
            bad = [i for i, (g, e) in enumerate(zip(got, exp)) if g != e]
            if bad:
                i = bad[0]
                out.append((name, what, {'k': i, 'position_given': int(np.asarray(inds).tolist()[i]),
                                         'position': pos[i], 'got': got[i], 'expected': exp[i],
                                         'n_differ': len(bad), 'n': len(pos)}))
                break
    return out
