"""Correspondence of the binary64 model coq/Model/FloatKernels.v with the real numba kernels,
on ALL kinds of float64 inputs (not only the exact regime |integer| <= 2^25 in which
coq/Proofs/FloatExact.v proves the float model equal to the integer model).

  triangle_orientation, segments_intersect_1d, segments_intersect      (called by C01)
  segment_intersects_point, point_intersects_polygon                   (called by C02)
  the wrappers Point / PointArray._intersects_polygon (fpolygon_intersects: no finite value in
  the polygon's buffer => False), on real Polygon scalars                (called by C02)
  compute_area                                                         (on request: kernels=['area'])

The real kernels are called directly (spatialpandas.geometry._algorithms.*), the model is
evaluated by the Coq kernel (vm_compute over primitive floats) on the same inputs, written as
exact hexadecimal float literals.  Inputs, all drawn from rep.rng:

  * integer and half-integer grids, integers around 2^25, 2^26, 2^52, 2^53 (the edge of exactness)
  * decimal grids (0.1 .. 0.9: inexact differences and products)
  * near-degenerate configurations: a third point computed ON a segment in floating point, then
    moved by -3..3 ulps in each coordinate (the sign of the cross product depends on the order
    and rounding of every operation); Kettner-style points 0.5 + k*2^-53 against a long diagonal
  * random doubles with 53 significant bits over many binades
  * magnitudes up to 1e300 / 1.79e308 (products overflow to inf, inf - inf = NaN), around 1e154
    (products at the overflow edge), 1e-160 .. 5e-324 (products underflow, subnormals)
  * +0.0 / -0.0, +inf, -inf, NaN in every argument position; for point_intersects_polygon every
    mixture of NaN / +inf / -inf in the two coordinates of the point (the kernel's guard for
    points without any finite coordinate)

Every difference is the violation  float-kernel-differs:<kernel>  with the inputs (as float.hex
strings) as replay.
"""
import concurrent.futures as cf
import math
import time

import numpy as np

from . import common as C

IMPORTS = 'Model.Num Model.FloatKernels'

NAN, INF = float('nan'), float('inf')
NONFINITE = [NAN, INF, -INF]

KERNELS_OF = {'C01': ['orient', 'si1d', 'si'], 'C02': ['sip', 'pip', 'pipw']}
SIG = {'orient': 'triangle_orientation', 'si1d': 'segments_intersect_1d', 'si': 'segments_intersect',
       'sip': 'segment_intersects_point', 'pip': 'point_intersects_polygon', 'area': 'compute_area',
       'pipw': 'PointArray._intersects_polygon'}
ARITY = {'orient': 6, 'si1d': 4, 'si': 8, 'sip': 6}
RUN_FN = {'orient': 'run_orient', 'si1d': 'run_si1d', 'si': 'run_si', 'sip': 'run_sip',
          'pip': 'run_pip', 'area': 'run_area', 'pipw': 'run_pipw'}
RES_TY = {'orient': 'list Z', 'si1d': 'list bool', 'si': 'list bool', 'sip': 'list bool',
          'pip': 'list bool', 'area': 'list (Z * Z * Z)', 'pipw': 'list bool'}
CHUNK = 64          # scalar-kernel inputs per Coq case
MAXV = 3            # violations reported per kernel


def _ftuple(n):
    return ' * '.join(['float'] * n)


CASE_TY = {'orient': f'list ({_ftuple(6)})', 'si1d': f'list ({_ftuple(4)})', 'si': f'list ({_ftuple(8)})',
           'sip': f'list ({_ftuple(6)})', 'pip': 'list float * list nat * list (float * float)',
           'area': 'list (list float * list nat)',
           'pipw': 'list float * list nat * list (float * float)'}


# --------------------------------------------------------------------------
# floats as Gallina
# --------------------------------------------------------------------------
def lit(x):
    """an exact Coq primitive-float term for the float64 x"""
    x = float(x)
    if x != x:
        return 'nan'
    if x == INF:
        return 'infinity'
    if x == -INF:
        return 'neg_infinity'
    h = x.hex()
    return f'({h})%float' if h[0] == '-' else f'{h}%float'


def ftuple(t):
    return C.Raw('(' + ', '.join(lit(v) for v in t) + ')')


def flist(vs):
    return C.Raw('[' + '; '.join(lit(v) for v in vs) + ']')


def fkey(x):
    """Model/FloatKernels.v fkey: NaN / (sign, 53-bit mantissa, shifted exponent)"""
    x = float(x)
    if x != x:
        return (2, 0, 0)
    s = 1 if math.copysign(1.0, x) < 0 else 0
    if math.isinf(x):
        return (s, -1, 0)
    if x == 0:
        return (s, 0, 0)
    m, e = math.frexp(abs(x))
    return (s, int(m * 2 ** 53), e + 2101)


def hexes(t):
    return [float(v).hex() for v in t]


def unhex(l):
    return [float.fromhex(s) if isinstance(s, str) else float(s) for s in l]


# --------------------------------------------------------------------------
# value pools
# --------------------------------------------------------------------------
SPECIAL = [0.0, -0.0, INF, -INF, NAN, 5e-324, -5e-324, 2.2250738585072014e-308, 1.7976931348623157e308,
           -1.7976931348623157e308, 1e300, -1e300, 1e154, 1.4e154, -1.4e154, 1e-160, 1e-200, 3e-310]
EDGE_INTS = [2.0 ** 25, 2.0 ** 25 - 1, -2.0 ** 25, 2.0 ** 26, 2.0 ** 26 + 1, 2.0 ** 27 - 1, 2.0 ** 52 + 1,
             2.0 ** 53, 2.0 ** 53 - 1, -2.0 ** 53, 2.0 ** 53 + 2, 94906267.0, 94906265.0, 134217729.0]
DECIMALS = [0.1, 0.2, 0.3, 0.4, 0.5, 0.6, 0.7, 0.8, 0.9, 1.1, 1.0 / 3.0, 2.0 / 3.0, 1e-3, 12.3, 24.00000000000005]


def rnd_double(rng, emin=-8, emax=8):
    """53 random significant bits, random binade, random sign"""
    m = 1.0 + rng.getrandbits(52) / 2.0 ** 52
    return math.ldexp(m, rng.randint(emin, emax)) * (1 if rng.random() < 0.5 else -1)


def ulps(x, k):
    for _ in range(abs(k)):
        x = math.nextafter(x, INF if k > 0 else -INF)
    return x


def pick(rng, mode):
    if mode == 'int':
        return float(rng.randint(-3, 3))
    if mode == 'half':
        return rng.randint(-6, 6) / 2.0
    if mode == 'edge':
        return rng.choice(EDGE_INTS) * rng.choice((1, 1, -1)) if rng.random() < 0.7 else float(rng.randint(-3, 3))
    if mode == 'dec':
        return rng.choice(DECIMALS) * rng.choice((1, 1, -1))
    if mode == 'dgrid':
        return rng.randint(-9, 9) * 0.1
    if mode == 'rnd':
        return rnd_double(rng)
    if mode == 'rnd1':
        return 1.0 + rng.getrandbits(52) / 2.0 ** 52
    if mode == 'wide':
        return rnd_double(rng, -1070, 1020)
    if mode == 'huge':
        return rnd_double(rng, 500, 1023)
    if mode == 'tiny':
        return rnd_double(rng, -1074, -520)
    if mode == 'special':
        return rng.choice(SPECIAL)
    raise ValueError(mode)


MODES = ['int', 'half', 'edge', 'dec', 'dgrid', 'rnd', 'rnd1', 'wide', 'huge', 'tiny', 'special']


def plain_tuple(rng, n):
    """n values of one mode, with some positions replaced by another mode / a special value /
    a copy of another position (ties)"""
    mode = rng.choice(MODES)
    t = [pick(rng, mode) for _ in range(n)]
    r = rng.random()
    if r < 0.35:
        for _ in range(rng.randint(1, 2)):
            t[rng.randrange(n)] = pick(rng, rng.choice(('special', 'special', 'int', 'huge', 'tiny')))
    if rng.random() < 0.4:
        i, j = rng.randrange(n), rng.randrange(n)
        t[i] = t[j]
        if rng.random() < 0.3:
            t[i] = ulps(t[j], rng.choice((-1, 1))) if math.isfinite(t[j]) else t[j]
    return t


def near_collinear(rng):
    """a, b and a point c on (or within a few ulps of) the line through a and b"""
    mode = rng.choice(('rnd1', 'rnd', 'dec', 'dgrid', 'half', 'rnd1', 'kettner', 'wide1', 'subn'))
    if mode == 'subn':
        # a segment through the origin with ordinary coordinates, the third point a few
        # subnormal steps away from the origin (products of a normal and a subnormal number)
        eps = 5e-324
        bx, by = pick(rng, 'half'), pick(rng, 'half')
        k = rng.choice((0.0, -1.0, -0.5, -2.0))
        ax, ay = k * bx, k * by
        cx, cy = rng.randint(-3, 3) * eps, rng.randint(-3, 3) * eps
        pts = [(ax, ay), (bx, by), (cx, cy)]
        if rng.random() < 0.3:
            rng.shuffle(pts)
        (ax, ay), (bx, by), (cx, cy) = pts
        return ax, ay, bx, by, cx, cy
    if mode == 'kettner':
        ax, ay = 0.5 + rng.randint(0, 255) * 2.0 ** -53, 0.5 + rng.randint(0, 255) * 2.0 ** -53
        bx, by, cx, cy = 12.0, 12.0, 24.0, 24.0
        pts = [(ax, ay), (bx, by), (cx, cy)]
        rng.shuffle(pts)
        (ax, ay), (bx, by), (cx, cy) = pts
        return ax, ay, bx, by, cx, cy
    if mode == 'wide1':
        sc = math.ldexp(1.0, rng.choice((-1072, -1060, -1040, -1022, -600, -400, 300, 480, 505, 511, 1000)))
        ax, ay, bx, by = (pick(rng, 'rnd1') * sc for _ in range(4))
    else:
        ax, ay, bx, by = (pick(rng, mode) for _ in range(4))
    t = rng.choice((0.0, 1.0, 0.5, 0.25, 2.0, -1.0, 1.0 / 3.0, rng.random(), rng.random() * 3 - 1))
    cx = ax + t * (bx - ax)
    cy = ay + t * (by - ay)
    if math.isfinite(cx) and math.isfinite(cy):
        cx, cy = ulps(cx, rng.randint(-3, 3)), ulps(cy, rng.randint(-3, 3))
    return ax, ay, bx, by, cx, cy


def gen_orient(rng, n):
    out = [(0.0, 0.0, 1.0, 0.0, 0.0, 1.0), (0.0, 0.0, 1.0, 1.0, 2.0, 2.0), (-0.0, 0.0, 1.0, 1.0, 2.0, 2.0),
           (0.0, 0.0, 1e200, 1e200, 1e200, -1e200), (0.0, 0.0, 1e200, 1e200, -1e200, 1e200),
           (0.0, 0.0, 1e-200, 1e-200, 1e-200, 2e-200), (0.0, 0.0, INF, 1.0, 1.0, INF)]
    while len(out) < n:
        r = rng.random()
        if r < 0.55:
            a = near_collinear(rng)
            out.append(rng.choice((a, a[2:4] + a[4:6] + a[0:2], a[4:6] + a[0:2] + a[2:4],
                                   a[0:2] + a[4:6] + a[2:4])))
        else:
            out.append(tuple(plain_tuple(rng, 6)))
    return out


def gen_si1d(rng, n):
    out = []
    pool = [0.0, -0.0, 1.0, 2.0, 3.0, 0.5, NAN, INF, -INF, 1e300, 5e-324, -5e-324]
    # every 4-tuple over a small pool with NaN / inf / signed zeros (exhaustive around the ties)
    small = [0.0, -0.0, 1.0, 2.0, NAN, INF, -INF]
    for a in small:
        for b in small:
            for c in small:
                for d in small:
                    out.append((a, b, c, d))
    while len(out) < n:
        if rng.random() < 0.5:
            out.append(tuple(rng.choice(pool) for _ in range(4)))
        else:
            t = plain_tuple(rng, 4)
            if rng.random() < 0.5:      # touching end points
                t[rng.choice((2, 3))] = t[rng.choice((0, 1))]
            out.append(tuple(t))
    return out


def gen_sip(rng, n):
    out = [(0.0, 0.0, 2.0, 2.0, 1.0, 1.0), (0.0, 0.0, 2.0, 2.0, 3.0, 3.0), (2.0, 2.0, 2.0, 2.0, 2.0, 2.0),
           (NAN, 0.0, 1.0, 0.0, 0.5, 0.0), (1.0, 0.0, NAN, 0.0, 0.5, 0.0), (0.0, NAN, 1.0, 0.0, 0.5, 0.0),
           (0.0, 0.0, 1.0, NAN, 0.5, 0.0), (0.0, 0.0, 1.0, 1.0, NAN, 0.5), (0.0, 0.0, 1.0, 1.0, 0.5, NAN),
           (-INF, 0.0, INF, 0.0, 0.0, 0.0), (-1e300, -1e300, 1e300, 1e300, 0.0, 0.0),
           (-1e300, -1e300, 1e300, 1e300, 1e10, 1e10), (0.0, 0.0, 1e-200, 1e-200, 1e-201, 2e-201),
           (0.0, 0.0, 5e-324, 5e-324, 0.0, 5e-324), (-0.0, -0.0, 0.0, 0.0, 0.0, -0.0)]
    while len(out) < n:
        r = rng.random()
        if r < 0.6:
            ax, ay, bx, by, cx, cy = near_collinear(rng)
            out.append((ax, ay, bx, by, cx, cy))          # (cx, cy) is the point
        elif r < 0.7:
            # axis-parallel segments and points on their bounding box
            t = plain_tuple(rng, 6)
            k = rng.choice((0, 1))
            t[2 + k] = t[k]
            t[4 + (1 - k)] = rng.choice((t[1 - k], t[3 - k], t[4 + (1 - k)]))
            out.append(tuple(t))
        else:
            out.append(tuple(plain_tuple(rng, 6)))
    return out


def gen_si(rng, n):
    out = [(0.0, 0.0, 1.0, 1.0, 0.0, 1.0, 1.0, 0.0), (0.0, 0.0, 1.0, 1.0, 1.0, 1.0, 2.0, 2.0),
           (0.0, 0.0, 0.0, 0.0, 0.0, 0.0, 1.0, 1.0), (0.0, 0.0, -0.0, -0.0, -0.0, 0.0, 1.0, 1.0),
           (0.0, 0.0, 1.0, 1.0, NAN, NAN, NAN, NAN), (NAN, 0.0, NAN, 0.0, NAN, 0.0, 1.0, 1.0),
           (-1e300, -1e300, 1e300, 1e300, -1e300, 1e300, 1e300, -1e300),
           (-INF, 0.0, INF, 0.0, 0.0, -INF, 0.0, INF), (0.0, 0.0, INF, INF, 0.0, 1.0, 1.0, 0.0)]
    while len(out) < n:
        r = rng.random()
        if r < 0.45:
            # an end point of b on / near the line of a (and sometimes the other one too)
            ax, ay, bx, by, cx, cy = near_collinear(rng)
            if rng.random() < 0.4:
                _, _, _, _, dx, dy = near_collinear(rng)
                if rng.random() < 0.5:
                    t = rng.random() * 2 - 0.5
                    dx, dy = ax + t * (bx - ax), ay + t * (by - ay)
            else:
                dx, dy = pick(rng, 'rnd'), pick(rng, 'rnd')
            t = (ax, ay, bx, by, cx, cy, dx, dy)
            if rng.random() < 0.5:
                t = t[4:] + t[:4]
            if rng.random() < 0.3:
                t = t[2:4] + t[0:2] + t[4:]
            out.append(t)
        elif r < 0.6:
            # zero-length segments, shared end points
            t = plain_tuple(rng, 8)
            c = rng.random()
            if c < 0.4:
                t[2], t[3] = t[0], t[1]
            if 0.2 < c < 0.7:
                t[6], t[7] = t[4], t[5]
            if c > 0.5:
                i, j = rng.choice(((0, 4), (0, 6), (2, 4), (2, 6)))
                t[j], t[j + 1] = t[i], t[i + 1]
            out.append(tuple(t))
        elif r < 0.7:
            # a segment against an axis-parallel one (what the rectangle edges are)
            t = plain_tuple(rng, 8)
            k = rng.choice((0, 1))
            t[6 + k] = t[4 + k]
            out.append(tuple(t))
        else:
            out.append(tuple(plain_tuple(rng, 8)))
    return out


def gen_polygon(rng):
    """(values, offsets, points): rings of one coordinate mode (closed or not), holes, an empty
    ring, a one-vertex ring, a non-zero first offset; points on vertices' coordinates, near
    edges (interpolated, +-ulps), specials, and points without any finite coordinate (each
    mixture of NaN / +inf / -inf in x and y)"""
    mode = rng.choice(('int', 'half', 'dgrid', 'dec', 'rnd1', 'rnd', 'int', 'half', 'edge', 'huge', 'tiny',
                       'mixed', 'wide'))

    def coord():
        if mode == 'mixed':
            return pick(rng, rng.choice(('int', 'special', 'half', 'huge', 'special')))
        return pick(rng, mode)
    vals, offs = [], []
    lead = rng.choice((0, 0, 2, 4))
    vals += [coord() for _ in range(lead)]
    offs.append(len(vals))
    for _ in range(rng.choice((1, 1, 1, 2, 3))):
        nv = rng.choice((0, 1, 2, 3, 3, 4, 4, 5, 6))
        ring = [(coord(), coord()) for _ in range(nv)]
        if nv >= 3 and rng.random() < 0.8:
            ring.append(ring[0])
        if ring and rng.random() < 0.25:           # a horizontal / vertical edge
            i = rng.randrange(len(ring))
            j = (i + 1) % len(ring)
            ring[j] = (ring[j][0], ring[i][1]) if rng.random() < 0.6 else (ring[i][0], ring[j][1])
        for x, y in ring:
            vals += [x, y]
        offs.append(len(vals))
    vals += [coord() for _ in range(rng.choice((0, 0, 2)))]
    xs, ys = vals[0::2] or [0.0], vals[1::2] or [0.0]
    pts = []
    for _ in range(24):
        r = rng.random()
        if r < 0.3:
            pts.append((rng.choice(xs), rng.choice(ys)))
        elif r < 0.6 and len(vals) >= 4:
            k = 2 * rng.randrange(len(vals) // 2 - 1)
            x0, y0, x1, y1 = vals[k:k + 4]
            t = rng.choice((0.5, 0.25, rng.random(), 1.0 / 3.0))
            px, py = x0 + t * (x1 - x0), y0 + t * (y1 - y0)
            if math.isfinite(px) and math.isfinite(py):
                px, py = ulps(px, rng.randint(-2, 2)), ulps(py, rng.randint(-2, 2))
            pts.append((px, py))
        elif r < 0.7:
            pts.append((rng.choice(xs), pick(rng, 'special')) if rng.random() < 0.5
                       else (pick(rng, 'special'), rng.choice(ys)))
        else:
            pts.append((coord(), coord()))
    # points WITHOUT any finite coordinate (the kernel's first test): every mixture of NaN / +inf /
    # -inf for one polygon in three, three of the nine mixtures otherwise
    mixtures = [(a, b) for a in NONFINITE for b in NONFINITE]
    pts += mixtures if rng.random() < 0.34 else rng.sample(mixtures, 3)
    return vals, offs, pts


def gen_area(rng):
    mode = rng.choice(('int', 'half', 'dgrid', 'dec', 'rnd1', 'rnd', 'edge', 'huge', 'tiny', 'mixed', 'wide'))

    def coord():
        if mode == 'mixed':
            return pick(rng, rng.choice(('int', 'special', 'half', 'huge', 'special')))
        return pick(rng, mode)
    vals, offs = [coord() for _ in range(rng.choice((0, 0, 2)))], []
    offs.append(len(vals))
    for _ in range(rng.choice((1, 1, 2, 3))):
        nv = rng.choice((0, 1, 2, 3, 4, 4, 5, 6, 9))
        vals += [coord() for _ in range(2 * nv)]
        offs.append(len(vals))
    vals += [coord() for _ in range(rng.choice((0, 0, 2)))]
    return vals, offs


# --------------------------------------------------------------------------
# the real kernels
# --------------------------------------------------------------------------
def kernels():
    from spatialpandas.geometry._algorithms import intersection as I
    from spatialpandas.geometry._algorithms import measures as M
    from spatialpandas.geometry._algorithms import orientation as O
    return {'orient': O.triangle_orientation, 'si1d': I.segments_intersect_1d, 'si': I.segments_intersect,
            'sip': I.segment_intersects_point, 'pip': I.point_intersects_polygon, 'area': M.compute_area}


def impl_scalar(f, kern, t):
    r = f(*[float(v) for v in t])
    return int(r) if kern == 'orient' else bool(r)


def impl_pip(f, vals, offs, pts):
    v = np.array(vals, dtype=np.float64)
    o = np.array(offs, dtype=np.uint32)
    return [bool(f(float(x), float(y), v, o)) for x, y in pts]


def impl_area(f, vals, offs):
    return fkey(f(np.array(vals, dtype=np.float64), np.array(offs, dtype=np.uint32)))


def classify(rep, kern, t):
    if any(v != v for v in t):
        rep.count(f'float:{kern}:nan')
    elif any(math.isinf(v) for v in t):
        rep.count(f'float:{kern}:inf')
    elif any(abs(v) > 1e150 for v in t):
        rep.count(f'float:{kern}:huge')
    elif any(v != 0 and abs(v) < 1e-150 for v in t):
        rep.count(f'float:{kern}:tiny')
    elif all(v == int(v) and abs(v) <= 2 ** 25 for v in t):
        rep.count(f'float:{kern}:exact-regime')
    else:
        rep.count(f'float:{kern}:inexact')


# --------------------------------------------------------------------------
# model evaluation and comparison
# --------------------------------------------------------------------------
def _coq_list(text):
    """elements of the (flat) list Coq printed"""
    body = text.strip()
    body = body[body.index('[') + 1: body.rindex(']')]
    return [x.strip() for x in body.split(';')] if body.strip() else []


def model_scalar(kern, inputs):
    txt = C.coq_eval(IMPORTS, f'{RUN_FN[kern]} {C.coq([ftuple(t) for t in inputs])}')
    out = []
    for x in _coq_list(txt):
        if kern == 'orient':
            out.append(int(x.replace('%Z', '').replace('(', '').replace(')', '')))
        else:
            out.append(x == 'true')
    return out


def pip_case(vals, offs, pts):
    return (flist(vals), [C.Nat(o) for o in offs], [ftuple(p) for p in pts])


def _job(kern, cases, res, explain):
    """the kernel-evaluated comparison is run later, the jobs of all kernels side by side"""
    return {'kern': kern, 'cases': cases, 'res': res, 'explain': explain}


def prepare_scalar_compare(rep, kern, inputs, results):
    cases, res = [], []
    for lo in range(0, len(inputs), CHUNK):
        cases.append([ftuple(t) for t in inputs[lo:lo + CHUNK]])
        res.append(results[lo:lo + CHUNK])
    return _job(kern, cases, res, lambda bad: explain_scalar(rep, kern, inputs, results, bad))


def explain_scalar(rep, kern, inputs, results, bad):
    nv = 0
    for b in bad:
        if nv >= MAXV:
            break
        chunk = inputs[b * CHUNK:(b + 1) * CHUNK]
        got = results[b * CHUNK:(b + 1) * CHUNK]
        model = model_scalar(kern, chunk)
        for t, g, m in zip(chunk, got, model):
            if g != m and nv < MAXV:
                nv += 1
                rep.violation(f'float-kernel-differs:{SIG[kern]}',
                              f'{SIG[kern]}{tuple(t)!r} returns {g!r}; the binary64 model '
                              f'(Model/FloatKernels.v) returns {m!r}',
                              {'float_kernel': kern, 'args': hexes(t), 'args_repr': [repr(v) for v in t],
                               'impl': g, 'model': m})
        if len(model) != len(got) and nv < MAXV:
            nv += 1
            rep.violation(f'float-kernel-differs:{SIG[kern]}', 'model output not understood',
                          {'float_kernel': kern, 'batch': [hexes(t) for t in chunk]})


def run_scalar_kernel(rep, kern, f, n):
    gen = {'orient': gen_orient, 'si1d': gen_si1d, 'sip': gen_sip, 'si': gen_si}[kern]
    inputs = gen(rep.rng, n)
    results = []
    for t in inputs:
        results.append(impl_scalar(f, kern, t))
        classify(rep, kern, t)
    rep.count(f'float:{kern}:inputs', len(inputs))
    vals = set(results)
    for v in vals:
        rep.count(f'float:{kern}:result={v}', results.count(v))
    return prepare_scalar_compare(rep, kern, inputs, results)


def run_pip(rep, f, n):
    polys, cases, res = [], [], []
    for _ in range(n):
        vals, offs, pts = gen_polygon(rep.rng)
        got = impl_pip(f, vals, offs, pts)
        polys.append((vals, offs, pts))
        cases.append(pip_case(vals, offs, pts))
        res.append(got)
        classify(rep, 'pip', vals)
        rep.count('float:pip:result=True', sum(got))
        rep.count('float:pip:result=False', len(got) - sum(got))
        rep.count('float:pip:points-without-finite-coordinate',
                  sum(1 for x, y in pts if not (math.isfinite(x) or math.isfinite(y))))
        if any(got) and not all(got):
            rep.count('float:pip:polygons-with-both-answers')
    rep.count('float:pip:inputs', sum(len(p[2]) for p in polys))
    return _job('pip', cases, res, lambda bad: explain_pip(rep, polys, cases, res, bad))


def explain_pip(rep, polys, cases, res, bad, kern='pip'):
    for b in bad[:MAXV]:
        vals, offs, pts = polys[b]
        txt = C.coq_eval(IMPORTS, f'{RUN_FN[kern]} {C.coq(cases[b])}')
        model = [x == 'true' for x in _coq_list(txt)]
        where = [i for i, (g, m) in enumerate(zip(res[b], model)) if g != m]
        i = where[0] if where else 0
        rep.violation(f'float-kernel-differs:{SIG[kern]}',
                      f'{SIG[kern]} for the point ({pts[i][0]!r}, {pts[i][1]!r}) and the polygon buffers '
                      f'{vals!r}, {offs!r} returns '
                      f'{res[b][i]!r}; the binary64 model (Model/FloatKernels.v) returns '
                      f'{model[i] if i < len(model) else None!r}',
                      {'float_kernel': kern, 'values': hexes(vals), 'offsets': offs,
                       'points': [hexes(p) for p in ([pts[j] for j in where] or pts)],
                       'values_repr': [repr(v) for v in vals]})


def gen_wrapped_polygon(rng):
    """(rings, points) for a real Polygon scalar: rings of one coordinate mode; one polygon in
    three has NO finite coordinate (all infinite, all NaN, or NaN / +inf / -inf mixed), the
    case the wrappers answer without calling the kernel"""
    empty = rng.random() < 0.34
    mode = rng.choice(('int', 'half', 'dgrid', 'rnd', 'mixed', 'huge'))
    nf = rng.choice(([INF, -INF], [NAN], NONFINITE, NONFINITE))

    def coord():
        if empty:
            return rng.choice(nf)
        if mode == 'mixed':
            return pick(rng, rng.choice(('int', 'special', 'half', 'special')))
        return pick(rng, mode)
    rings = []
    for _ in range(rng.choice((1, 1, 2, 3))):
        nv = rng.choice((0, 3, 3, 4, 5))
        ring = [(coord(), coord()) for _ in range(nv)]
        if nv >= 3 and rng.random() < 0.8:
            ring.append(ring[0])
        rings.append([c for v in ring for c in v])
    if empty and rng.random() < 0.3 and rings[0]:
        # the classic: (-inf,-inf) (inf,-inf) (inf,inf) (-inf,-inf), "holding" every finite point
        rings[0] = [-INF, -INF, INF, -INF, INF, INF, -INF, -INF]
    pts = [(pick(rng, 'int'), pick(rng, 'int')) for _ in range(6)] + \
        [(pick(rng, 'half'), pick(rng, 'rnd')) for _ in range(4)] + \
        [(pick(rng, 'special'), pick(rng, 'int')), (pick(rng, 'int'), pick(rng, 'special'))] + \
        rng.sample([(a, b) for a in NONFINITE for b in NONFINITE], 2)
    return rings, pts


def run_pipw(rep, n):
    """the wrappers of the kernel on real objects: PointArray.intersects(polygon) (array form and
    positions form) and Point.intersects(polygon) against Model/FloatKernels.v
    fpolygon_intersects on polygon.buffer_values / buffer_inner_offsets"""
    from spatialpandas.geometry import PointArray, PolygonArray
    polys, cases, res = [], [], []
    for _ in range(n):
        rings, pts = gen_wrapped_polygon(rep.rng)
        try:
            poly = PolygonArray([rings], dtype='float64')[0]
            vals = [float(v) for v in poly.buffer_values]
            offs = [int(o) for o in poly.buffer_inner_offsets]
        except Exception:  # noqa: BLE001  (a layout the constructor refuses, or renamed attributes)
            rep.count('internal-unavailable:polygon-scalar-buffers')
            continue
        pa = PointArray(np.array(pts, dtype='float64'))
        got = [bool(b) for b in pa.intersects(poly)]
        k = rep.rng.sample(range(len(pts)), 4)
        got_inds = [bool(b) for b in pa.intersects(poly, np.array(k, dtype='int32'))]
        got_sc = [bool(pa[i].intersects(poly)) for i in k]
        if got_inds != [got[i] for i in k] or got_sc != [got[i] for i in k]:
            rep.violation('float-wrapper-forms-differ:polygon',
                          f'PointArray.intersects(polygon) {[got[i] for i in k]}, the positions form '
                          f'{got_inds} and Point.intersects {got_sc} differ on rings {rings!r}',
                          {'float_kernel': 'pipw', 'values': hexes(vals), 'offsets': offs,
                           'points': [hexes(pts[i]) for i in k], 'rings': [hexes(r) for r in rings]})
        polys.append((vals, offs, pts))
        cases.append(pip_case(vals, offs, pts))
        res.append(got)
        empty = not any(math.isfinite(v) for v in vals)
        rep.count('float:pipw:polygon-without-finite-coordinate' if empty else 'float:pipw:polygon-with-finite-coordinate')
        rep.count('float:pipw:result=True', sum(got))
        rep.count('float:pipw:result=False', len(got) - sum(got))
    rep.count('float:pipw:inputs', sum(len(p[2]) for p in polys))
    return _job('pipw', cases, res, lambda bad: explain_pip(rep, polys, cases, res, bad, kern='pipw'))


def run_area(rep, f, n):
    items = [gen_area(rep.rng) for _ in range(n)]
    results = [impl_area(f, v, o) for v, o in items]
    rep.count('float:area:inputs', n)
    cases, res = [], []
    for lo in range(0, n, 16):
        cases.append([(flist(v), [C.Nat(x) for x in o]) for v, o in items[lo:lo + 16]])
        res.append(results[lo:lo + 16])
    return _job('area', cases, res, lambda bad: explain_area(rep, items, results, bad))


def explain_area(rep, items, results, bad):
    nv = 0
    for b in bad:
        if nv >= MAXV:
            break
        for (v, o), g in zip(items[b * 16:(b + 1) * 16], results[b * 16:(b + 1) * 16]):
            one = C.coq_mismatches(IMPORTS, 'run_area', CASE_TY['area'], RES_TY['area'],
                                   [[(flist(v), [C.Nat(x) for x in o])]], [[g]])
            if one and nv < MAXV:
                nv += 1
                rep.violation('float-kernel-differs:compute_area',
                              f'compute_area({v!r}, {o!r}) is not the binary64 model\'s result bit for bit',
                              {'float_kernel': 'area', 'values': hexes(v), 'offsets': o, 'impl_key': list(g)})


# --------------------------------------------------------------------------
# entry points
# --------------------------------------------------------------------------
def run_float_kernels(rep, kernels_wanted=None):
    """compare the real numba kernels with Model/FloatKernels.v on generated float64 inputs;
    differences are reported through rep.violation('float-kernel-differs:<kernel>', ...)"""
    t0 = time.time()
    tier = getattr(rep, 'tier_run', rep.tier)
    want = kernels_wanted or KERNELS_OF.get(rep.pid, list(SIG))
    scale = (1 if tier == 'quick' else 8) * max(1, getattr(rep, 'scale', 1))
    K = kernels()
    # 1. inputs and the implementation's answers, kernel after kernel (rep.rng is consumed in a
    #    fixed order); 2. the Coq evaluations of all kernels side by side; 3. the differences
    jobs = []
    for kern in want:
        if kern in ARITY:
            n = {'orient': 6000, 'si1d': 4000, 'sip': 6000, 'si': 8000}[kern] * scale
            jobs.append(run_scalar_kernel(rep, kern, K[kern], n))
        elif kern == 'pip':
            jobs.append(run_pip(rep, K['pip'], 500 * scale))
        elif kern == 'pipw':
            jobs.append(run_pipw(rep, 300 * scale))
        elif kern == 'area':
            jobs.append(run_area(rep, K['area'], 800 * scale))

    def evaluate(j):
        k = j['kern']
        return C.coq_mismatches(IMPORTS, RUN_FN[k], CASE_TY[k], RES_TY[k], j['cases'], j['res'], shard=12)
    with cf.ThreadPoolExecutor(max_workers=max(1, len(jobs))) as ex:
        bads = list(ex.map(evaluate, jobs))       # a ModelUnavailable propagates to the caller
    stats = {}
    for j, bad in zip(jobs, bads):
        stats[j['kern']] = len(bad)
        if bad:
            j['explain'](bad)
    rep.extra['float_kernels'] = {'kernels': [SIG[k] for k in want], 'differing_batches': stats,
                                  'inputs': {k: rep.hist.get(f'float:{k}:inputs', 0) for k in want},
                                  'seconds': round(time.time() - t0, 1)}
    return stats


def replay(rep, rp):
    """re-run one recorded float-kernel difference"""
    kern = rp['float_kernel']
    if kern == 'harness-error':
        print('the float-kernel correspondence could not run:', rp.get('error'))
        run_float_kernels(rep)
        return not rep.violations
    K = kernels()
    if kern in ARITY:
        t = tuple(unhex(rp['args']))
        g = impl_scalar(K[kern], kern, t)
        m = model_scalar(kern, [t])[0]
        print(f'{SIG[kern]}{t!r}: implementation {g!r}, binary64 model {m!r}')
        return g == m
    if kern == 'pip':
        vals, offs = unhex(rp['values']), [int(o) for o in rp['offsets']]
        pts = [tuple(unhex(p)) for p in rp['points']]
        got = impl_pip(K['pip'], vals, offs, pts)
        txt = C.coq_eval(IMPORTS, f'run_pip {C.coq(pip_case(vals, offs, pts))}')
        model = [x == 'true' for x in _coq_list(txt)]
        print(f'point_intersects_polygon on {vals!r} {offs!r} at {pts!r}: implementation {got}, model {model}')
        return got == model
    if kern == 'pipw':
        from spatialpandas.geometry import PointArray, PolygonArray
        rings = [unhex(r) for r in rp['rings']] if 'rings' in rp else None
        vals, offs = unhex(rp['values']), [int(o) for o in rp['offsets']]
        if rings is None:       # the rings are the slices of the buffer
            rings = [vals[a:b] for a, b in zip(offs, offs[1:])]
        pts = [tuple(unhex(p)) for p in rp['points']]
        poly = PolygonArray([rings], dtype='float64')[0]
        pa = PointArray(np.array(pts, dtype='float64'))
        got = [bool(b) for b in pa.intersects(poly)]
        got_sc = [bool(pa[i].intersects(poly)) for i in range(len(pts))]
        vals2 = [float(v) for v in poly.buffer_values]
        offs2 = [int(o) for o in poly.buffer_inner_offsets]
        txt = C.coq_eval(IMPORTS, f'run_pipw {C.coq(pip_case(vals2, offs2, pts))}')
        model = [x == 'true' for x in _coq_list(txt)]
        print(f'polygon rings {rings!r} at {pts!r}: array form {got}, scalar form {got_sc}, model {model}')
        return got == model and got_sc == model
    if kern == 'area':
        vals, offs = unhex(rp['values']), [int(o) for o in rp['offsets']]
        g = impl_area(K['area'], vals, offs)
        bad = C.coq_mismatches(IMPORTS, 'run_area', CASE_TY['area'], RES_TY['area'],
                               [[(flist(vals), [C.Nat(x) for x in offs])]], [[g]])
        print(f'compute_area on {vals!r} {offs!r}: implementation key {g}, model',
              'agrees' if not bad else 'differs')
        return not bad
    raise ValueError(kern)
