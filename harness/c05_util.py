"""Helpers of the C05 correspondence check (sjoin).

A *frame spec* is a JSON-able dict from which the real GeoDataFrame, the model's
[fmeta] and the expected per-row values are all derived:

  {'kind': 'point' | 'multipoint' | 'line' | 'ring' | 'multiline' | 'polygon' | 'multipolygon',
   'subtype': 'float64' | ..., 'elems': [nested lists | None],
   'geom': <name of the geometry column>, 'gpos': <its position among the columns>,
   'cols': [<names of the payload columns>],      # values are derived from the row position
   'id': 'lid' | 'rid',                           # unique row id column (value = position)
   'index': ['range'] | ['plain', name|None, [labels]] | ['multi', [names], [[l0, l1, ..], ...]]
            | ['rangeindex', start, step, name|None]      # a pd.RangeIndex whose labels are not the positions
   'slice': [k0, step, tail]   # optional: the frame is built as full.iloc[k0:k0+step*n:step] of a longer
                               # frame with filler rows (RangeIndex(k0, .., step), sliced geometry buffers);
                               # 'index' must then be ['rangeindex', k0, step, None]}
"""
import math

import numpy as np
import pandas as pd

from . import common as C
from . import geomgen as G

Nat, Rec, Some, Raw = C.Nat, C.Rec, C.Some, C.Raw

HOWS = {'inner': 'Inner', 'left': 'Left', 'right': 'Right'}
ERR_CLASS = {1: 'ValueError', 4: 'MergeError', 5: 'KeyError', 9: 'other'}


# --------------------------------------------------------------------------
# frames
# --------------------------------------------------------------------------
def payload_value(side, col, pos):
    """value of payload column `col` in row `pos` of the `side` ('L'/'R') frame:
    determined by (side, col, pos) and different for different (side, pos)"""
    base = 1000 if side == 'L' else 2000
    h = sum(ord(ch) for ch in col) % 3
    if h == 0:
        return base + pos                      # int column
    if h == 1:
        return f"{side}{pos}:{col}"            # string column
    return float(base + pos) + 0.5             # float column


def make_geometry(spec):
    kind = spec['kind']
    return G.make_array(kind, spec['elems'], spec.get('subtype', 'float64'))


def make_index(ix, n):
    if ix[0] == 'range':
        return None
    if ix[0] == 'plain':
        return pd.Index(list(ix[2]), name=ix[1])
    if ix[0] == 'rangeindex':
        return pd.RangeIndex(ix[1], ix[1] + ix[2] * n, ix[2], name=ix[3])
    if ix[0] == 'multi':
        tuples = [tuple(t) for t in ix[2]]
        names = list(ix[1])
        if not tuples:
            return pd.MultiIndex.from_arrays([[] for _ in names], names=names)
        return pd.MultiIndex.from_tuples(tuples, names=names)
    raise ValueError(ix)


def build_frame(spec, side):
    from spatialpandas import GeoDataFrame
    n = len(spec['elems'])
    sl = spec.get('slice')
    if sl:
        k0, step, tail = sl
        total = k0 + step * n + tail
        present = [e for e in spec['elems'] if e is not None]
        filler = present[0] if present else None
        elems = [filler] * total
        posof = [None] * total
        for i, e in enumerate(spec['elems']):
            elems[k0 + step * i] = e
            posof[k0 + step * i] = i
        arr = G.make_array(spec['kind'], elems, spec.get('subtype', 'float64'))
    else:
        total = n
        posof = list(range(n))
        arr = make_geometry(spec)
    names = list(spec['cols'])
    order = [spec['id']] + names
    order.insert(min(spec.get('gpos', 0), len(order)), spec['geom'])
    data = {}
    for c in order:
        if c == spec['geom']:
            data[c] = arr
        elif c == spec['id']:
            data[c] = np.array([900000 + p if q is None else q for p, q in enumerate(posof)], dtype='int64')
        else:
            proto = payload_value(side, c, 0)
            dt = 'int64' if isinstance(proto, int) else ('float64' if isinstance(proto, float) else object)
            vals = [payload_value(side, c, 900000 + p if q is None else q) for p, q in enumerate(posof)]
            data[c] = np.array(vals, dtype=dt) if (total == 0 or dt != object) else vals
    df = GeoDataFrame(data, geometry=spec['geom'])
    if sl:
        df = df.iloc[k0:k0 + step * n:step]
        assert spec['index'][0] == 'rangeindex' and spec['index'][1:3] == [k0, step], spec['index']
        assert isinstance(df.index, pd.RangeIndex) and list(df.index) == [k0 + step * i for i in range(n)]
    else:
        idx = make_index(spec['index'], n)
        if idx is not None:
            df.index = idx
    assert len(df) == n and list(df.columns) == order and df.geometry.name == spec['geom'], \
        (list(df.columns), order, len(df))
    assert type(df) is GeoDataFrame
    return df, order


def index_kind_term(ix):
    def nm(x):
        return None if x is None else Some(str(x))
    if ix[0] == 'range':
        return Rec('IxPlain', None)
    if ix[0] == 'plain':
        return Rec('IxPlain', nm(ix[1]))
    if ix[0] == 'rangeindex':
        return Rec('IxPlain', nm(ix[3]))
    return Rec('IxMulti', [nm(x) for x in ix[1]])


def fmeta_term(spec, order):
    return Rec('Build_fmeta', index_kind_term(spec['index']), [str(c) for c in order], spec['geom'])


def index_names_of(spec):
    ix = spec['index']
    if ix[0] == 'range':
        return [None]
    if ix[0] == 'plain':
        return [ix[1]]
    if ix[0] == 'rangeindex':
        return [ix[3]]
    return list(ix[1])


def index_label(spec, pos):
    ix = spec['index']
    if ix[0] == 'range':
        return (pos,)
    if ix[0] == 'plain':
        return (ix[2][pos],)
    if ix[0] == 'rangeindex':
        return (ix[1] + ix[2] * pos,)
    return tuple(ix[2][pos])


# --------------------------------------------------------------------------
# the right geometries as the loop sees them
# --------------------------------------------------------------------------
SHAPE_KIND = {'point': 'point', 'multipoint': 'multipoint', 'line': 'line', 'ring': 'line',
              'multiline': 'multiline', 'polygon': 'polygon', 'multipolygon': 'multipolygon'}


def _vals(buf, dtype):
    if buf is None:
        return []
    v = np.frombuffer(buf, dtype=dtype)
    if np.issubdtype(v.dtype, np.floating):
        return [C.num(float(x)) for x in v]
    return [Some(int(x)) for x in v]


def export_sbuf(shape):
    """shape.listarray as _ListArrayBufferMixin sees it (buffers(), offset, len): Model/PointShape.v sbuf"""
    la = shape.listarray
    bufs = la.buffers()
    if len(bufs) < 2:
        return Rec('BNull')
    if len(bufs) < 3:
        return Rec('BPlain', Nat(la.offset), Nat(len(la)), _vals(bufs[1], shape.numpy_dtype))
    offs = []
    for i in range(1, len(bufs) - 1, 2):
        ob = np.frombuffer(bufs[i], dtype=np.uint32) if bufs[i] is not None else np.array([], dtype=np.uint32)
        offs.append([Nat(int(x)) for x in ob])
    valid = C._bits(bufs[0], la.offset + len(la))
    dt = shape.numpy_dtype
    vals = _vals(bufs[-1], dt) if (len(bufs) % 2 == 0 and dt is not None) else []
    return Rec('BList', Rec('Build_listarr', Nat(la.offset), Nat(len(la)),
                            None if valid is None else Some(valid), offs, vals))


def export_shape(kind, shape):
    if kind == 'point':
        fv = shape.flat_values
        return Rec('ShPoint', C.num(float(fv[0])), C.num(float(fv[1])))
    ctor = {'multipoint': 'ShMultiPoint', 'line': 'ShLine', 'multiline': 'ShMultiLine',
            'polygon': 'ShPolygon', 'multipolygon': 'ShMultiPolygon'}[kind]
    return Rec(ctor, export_sbuf(shape))


def export_right(arr, kind):
    """[right_geom[i] for i] as list (option shape); raises if an element cannot be read"""
    out = []
    for i in range(len(arr)):
        el = arr[i]
        out.append(None if el is None else Some(export_shape(SHAPE_KIND[kind], el)))
    return out


# --------------------------------------------------------------------------
# reading a joined frame
# --------------------------------------------------------------------------
def _isnull(v):
    if v is None or v is pd.NA:
        return True
    try:
        return bool(isinstance(v, float) and math.isnan(v))
    except TypeError:
        return False


def _opt_pos(v):
    if _isnull(v):
        return None
    f = float(v)
    if f != int(f):
        raise ValueError(f'id {v!r}')
    return int(f)


def orow_key(r):
    return (0 if r[0] is None else r[0] + 1, 0 if r[1] is None else r[1] + 1)


def read_rows(out):
    """[(left position | None, right position | None)] in frame order"""
    lid = out['lid'].tolist() if 'lid' in out.columns else None
    rid = out['rid'].tolist() if 'rid' in out.columns else None
    if lid is None or rid is None:
        raise KeyError('id column lost: ' + repr(list(out.columns)))
    return [(_opt_pos(a), _opt_pos(b)) for a, b in zip(lid, rid)]


def rows_term(rows):
    return [(None if a is None else Some(Nat(a)), None if b is None else Some(Nat(b)))
            for a, b in sorted(rows, key=orow_key)]


def bounds_term(b):
    return [tuple(C.fnum(v) for v in row) for row in np.asarray(b, dtype='float64').tolist()]


def classify_exception(e):
    """the exception *class* (messages are not part of the API): the code the kernel verdict
    (Model/SjoinHarness.v) understands"""
    from pandas.errors import MergeError
    if isinstance(e, MergeError):
        return 4
    if isinstance(e, KeyError):
        return 5
    if isinstance(e, (ValueError, StopIteration)):
        return 1
    return 9


def excluded_input(how, lsuffix, rsuffix, lspec, lorder, rspec, rorder, index_left, index_right):
    """inputs outside the property (coordinator's ruling): a MultiIndex with one level (F1), generated
    index names shared by both sides (F2), a suffixed name that collides with another column (F3,
    pandas raises MergeError today).  Stated on the public inputs only."""
    if lsuffix == rsuffix:
        return None            # promised: ValueError
    for spec in (lspec, rspec):
        if spec['index'][0] == 'multi' and len(spec['index'][1]) == 1:
            return 'F1'
    if set(index_left) & set(index_right):
        return 'F2'
    if how == 'right':
        lside = index_left + [c for c in lorder if c != lspec['geom']]
        rside = index_right + list(rorder)
    else:
        lside = index_left + list(lorder)
        rside = index_right + [c for c in rorder if c != rspec['geom']]
    both = set(lside) & set(rside)
    renamed = [c + '_' + lsuffix for c in lside if c in both] + [c + '_' + rsuffix for c in rside if c in both]
    names = [c for c in lside + rside if c not in both] + renamed
    if len(set(names)) != len(names):
        return 'F3'
    return None


# --------------------------------------------------------------------------
# the pandas contracts, checked on the real result (no model involved):
# every value of an output row is the value of the source rows it names
# --------------------------------------------------------------------------
def expected_renames(how, lsuffix, rsuffix, lspec, lorder, rspec, rorder, index_left, index_right):
    """independent re-statement of the naming: {output column: (side, source column)} for the
    payload / id / geometry columns, and the index columns of the *other* side"""
    if how == 'right':
        lside = index_left + [c for c in lorder if c != lspec['geom']]
        rside = index_right + list(rorder)
    else:
        lside = index_left + list(lorder)
        rside = index_right + [c for c in rorder if c != rspec['geom']]
    both = set(lside) & set(rside)
    m = {}
    for c in lside:
        m[c + '_' + lsuffix if c in both else c] = ('L', c)
    for c in rside:
        m[c + '_' + rsuffix if c in both else c] = ('R', c)
    return m


def check_values(out, rows, how, lsuffix, rsuffix, ldf, lspec, lorder, rdf, rspec, rorder,
                 index_left, index_right):
    """list of complaints (strings); empty = the joined frame carries the source rows' values"""
    bad = []
    ren = expected_renames(how, lsuffix, rsuffix, lspec, lorder, rspec, rorder, index_left, index_right)
    keep = lspec if how != 'right' else rspec
    for k, (lp, rp) in enumerate(rows):
        # index labels
        lab = out.index[k]
        lab = tuple(lab) if isinstance(lab, tuple) else (lab,)
        src_pos = lp if how != 'right' else rp
        if src_pos is None:
            bad.append(f'row {k}: the kept side is missing')
            continue
        want = index_label(keep, src_pos)
        if len(want) != len(lab) or any(not _same_value(a, b) for a, b in zip(lab, want)):
            bad.append(f'row {k}: index label {lab!r}, source row has {want!r}')
        for col in out.columns:
            if col not in ren:
                bad.append(f'unexpected column {col!r}')
                continue
            side, src = ren[col]
            pos = lp if side == 'L' else rp
            spec, df = (lspec, ldf) if side == 'L' else (rspec, rdf)
            v = out[col].iloc[k] if not _is_geom(out[col]) else out[col].array.data[k].as_py()
            names = index_left if side == 'L' else index_right
            if src in names:
                want = None if pos is None else index_label(spec, pos)[names.index(src)]
            elif pos is None:
                want = None
            elif src == spec['geom']:
                want = df[src].array.data[pos].as_py()
            else:
                want = df[src].iloc[pos]
            if not _same_value(v, want):
                bad.append(f'row {k} column {col!r}: {v!r}, source row {side}{pos} has {want!r}')
    return bad[:5]


def _is_geom(series):
    from spatialpandas.geometry import GeometryDtype
    return isinstance(series.dtype, GeometryDtype)


def _same_value(a, b):
    if _isnull(a) or _isnull(b):
        return _isnull(a) and _isnull(b)
    if isinstance(a, (list, tuple)) or isinstance(b, (list, tuple)):
        return a == b
    try:
        return bool(a == b)
    except Exception:  # noqa: BLE001
        return False


# --------------------------------------------------------------------------
# brute-force oracle of the pair set: scalar Point.intersects(shape), no index,
# no bounding boxes, no arrays
# --------------------------------------------------------------------------
def brute_pairs(larr, rarr):
    """sorted [(l, r)] with both present and larr[l].intersects(rarr[r]); None if a scalar
    call raises (empty sub-line)"""
    out = []
    ls = [larr[i] for i in range(len(larr))]
    rs = [rarr[i] for i in range(len(rarr))]
    for r, sh in enumerate(rs):
        if sh is None:
            continue
        for l, p in enumerate(ls):
            if p is None:
                continue
            try:
                if p.intersects(sh):
                    out.append((l, r))
            except (ValueError, StopIteration):
                return None
    return sorted(out)


def rings_closed(kind, elems):
    """every ring of every polygon / multipolygon element is closed (first vertex = last)"""
    def ok(ring):
        return len(ring) == 0 or (len(ring) >= 2 and ring[0] == ring[-2] and ring[1] == ring[-1])
    for e in elems:
        if e is None:
            continue
        if kind == 'polygon':
            if not all(ok(r) for r in e):
                return False
        elif kind == 'multipolygon':
            if not all(ok(r) for p in e for r in p):
                return False
    return True
