"""C04 — .cx[x0:x1, y0:y1] selects exactly the intersecting rows, with or without a
spatial index.

Correspondence: real geometry arrays of all seven kinds (integer coordinates in 0..4,
missing / empty / duplicate elements, zero rows, one row; also children obtained by
slicing / taking from a parent whose index was built first, so that the buffers have
non-zero offsets and the index is lost) x keys of every present / omitted / reversed
pattern of the four slice ends on the half grid (plus scalar keys and keys with a step)
x index states (never built; built with page_size in {1,2,3,n,512} and p in {1,10};
a second build_sindex with other arguments; built on the parent then sliced)
x containers (array; GeoSeries with shuffled non-unique labels; GeoDataFrame with
payload columns, a second geometry column and the active geometry not first).

Every result is read back as row positions (and the labels / payload / element values /
result type are checked to have travelled unchanged), then compared
  * with Model/Cx.v evaluated by the Coq kernel on the exported buffers, the exported
    `_keys` permutation and page size, and the same keys (cx_case), as well as the box
    `_get_bounds` computed (bounds_case);
  * between containers, and with the no-index run (boxes of positive width and height);
  * with np.nonzero(arr.intersects_bounds(box)) called directly.
"""
import math

import numpy as np

from . import common as C
from . import geomgen as G
from . import c04_util as U

ANCHOR_FILES = ['spatialpandas/geometry/base.py', 'spatialpandas/geoseries.py',
                'spatialpandas/geodataframe.py', 'spatialpandas/spatialindex/rtree.py']
TRUSTED = ['pandas .iloc[positions] / boolean-mask selection return the rows at those positions, in '
           'order, unchanged (oracle contract take_rows / mask_rows of Model/Cx.v; checked on the real '
           'pandas on every run: labels, payload columns, element values, result type)',
           'Model/Intersect.v (C01), Model/Rtree.v (C03), Model/Bounds.v (C13) as tied to the code by '
           'their own correspondence checks and again here through cx_case',
           'pyarrow slice / take produce well-formed buffers holding the sliced / taken elements (not '
           'modelled operationally; the child arrays are exported as they are)',
           'float64 comparisons of exactly representable half-grid values = integer comparisons (x2)']

PAGE_SIZES = ['1', '2', '3', 'n', '512']
PS = [1, 10]


# ----------------------------------------------------------------------------
class Family:
    """one logical array (its elements) and the way to get fresh, index-less objects of
    the three containers holding it.  For a child family the objects are re-derived
    from parents whose index was built before."""

    def __init__(self, rng, kind, subtype, elements, child=None):
        self.kind, self.subtype, self.elements, self.child = kind, subtype, elements, child
        from spatialpandas import GeoDataFrame, GeoSeries
        base = G.make_array(kind, elements, subtype)
        n0 = len(base)
        self.base = base
        lab0 = U.labels_for(rng, n0)
        oth0 = [None if rng.random() < 0.2 else [rng.randint(0, 4), rng.randint(0, 4)] for _ in range(n0)]
        pay0 = ['p%d' % rng.randrange(3) for _ in range(n0)]
        self._mk_series = lambda a, lab=lab0: GeoSeries(a, index=list(lab), name='shape')
        self._other, self._pay, self._lab0 = oth0, pay0, lab0

        def mk_frame(a, lab, oth, pay):
            n = len(a)
            return GeoDataFrame({'pay': list(pay), 'g2': G.make_array('point', list(oth), 'float64'),
                                 'rid': np.arange(n, dtype='int64'), 'geom': a,
                                 'w': np.arange(n, dtype='float64') / 2},
                                index=list(lab), geometry='geom')
        self._mk_frame = mk_frame
        if child is None:
            self.labels = lab0
            self.n = n0
            self.parents = None
        else:
            # parents with an index built first (any configuration)
            ps, p = rng.choice([1, 2, 3, 512]), rng.choice(PS)
            pa = base.copy().build_sindex(page_size=ps, p=p)
            psr = self._mk_series(base.copy()).build_sindex(page_size=ps, p=p)
            pf = mk_frame(base.copy(), lab0, oth0, pay0).build_sindex(page_size=ps, p=p)
            self.parents = (pa, psr, pf)
            self.parent_built = (pa._sindex is not None and psr.array._sindex is not None
                                 and pf['geom'].array._sindex is not None)
            idx = self._child_positions(n0)
            self.labels = [lab0[i] for i in idx]
            self.n = len(idx)
        self.src_keys = U.pylist(self.fresh('array'))

    def _child_positions(self, n0):
        c = self.child
        if c[0] == 'slice':
            return list(range(n0))[c[1]:c[2]]
        return list(c[1])

    def fresh(self, container):
        """a new object of the container; no index expected on it"""
        if self.parents is None:
            a = self.base.copy()
            if container == 'array':
                return a
            if container == 'series':
                return self._mk_series(a)
            return self._mk_frame(a, self._lab0, self._other, self._pay)
        pa, psr, pf = self.parents
        c = self.child
        if c[0] == 'slice':
            if container == 'array':
                return pa[c[1]:c[2]]
            obj = (psr if container == 'series' else pf).iloc[c[1]:c[2]]
        else:
            idx = np.array(c[1], dtype='int64')
            if container == 'array':
                return pa.take(idx)
            obj = (psr if container == 'series' else pf).iloc[idx]
        if container == 'frame':
            # the row id payload restarts at 0 in the child so that it stays a position
            obj = obj.copy(deep=False)
            obj['rid'] = np.arange(len(obj), dtype='int64')
        return obj

    def geom_array(self, obj, container):
        if container == 'array':
            return obj
        if container == 'series':
            return obj.array
        return obj[obj._geometry].array

    def meta(self):
        return {'kind': self.kind, 'subtype': self.subtype, 'elements': self.elements,
                'child': self.child}


def read_result(fam, container, src_obj, res):
    if container == 'array':
        return U.read_array(src_obj, fam.src_keys, res)
    if container == 'series':
        return U.read_series(src_obj, fam.src_keys, fam.labels, res)
    return U.read_frame(src_obj, fam.src_keys, fam.labels, res)


def page_size_of(tag, n):
    return n if tag == 'n' else int(tag)


# ----------------------------------------------------------------------------
def process(rep, fam, keys, configs, containers_for, sink, quiet=False):
    """run every (config, container, key); python-side comparisons; Coq cases into sink.
    configs: list of None | (page_size, p) | ('twice', ps1, p1, ps2, p2)
    containers_for(config) -> containers to run for it"""
    kind = fam.kind
    meta = fam.meta()
    pristine = fam.fresh('array')
    if U.pylist(pristine) != fam.src_keys:
        raise AssertionError('family elements unstable')
    by_state = {}        # state key -> (state, results per key)
    noindex = None
    boxes = None
    for cfg in configs:
        for container in containers_for(cfg):
            obj = fam.fresh(container)
            ga = fam.geom_array(obj, container)
            if U.pylist(ga) != fam.src_keys:
                rep.violation(f'{container}:construction', 'container does not hold the elements given',
                              {**meta, 'container': container})
                continue
            if fam.child is not None and ga._sindex is not None:
                rep.violation('derived-keeps-index',
                              'an array obtained by slicing / taking kept the parent\'s spatial index',
                              {**meta, 'container': container})
            if cfg is not None:
                if cfg[0] == 'prop':
                    # the lazy .sindex property (default p and page_size)
                    t = (obj.geometry if container == 'frame' else obj).sindex
                    ga = fam.geom_array(obj, container)
                    if t is None or ga._sindex is not t or t._page_size != 512:
                        rep.violation('sindex-property',
                                      'the .sindex property did not build and cache a default index',
                                      {**meta, 'container': container})
                        continue
                elif cfg[0] == 'twice':
                    obj.build_sindex(page_size=cfg[1], p=cfg[2])
                    obj.build_sindex(page_size=cfg[3], p=cfg[4])
                    ga = fam.geom_array(obj, container)
                    if ga._sindex is None or ga._sindex._page_size != max(1, cfg[1]):
                        rep.violation('second-build-replaced-index',
                                      'build_sindex on an already indexed object did not keep the first index',
                                      {**meta, 'container': container, 'config': list(cfg)})
                else:
                    r = obj.build_sindex(page_size=cfg[0], p=cfg[1])
                    ga = fam.geom_array(obj, container)
                    if r is not obj or ga._sindex is None:
                        rep.violation('build-sindex-lost',
                                      'build_sindex did not leave an index on the active geometry array',
                                      {**meta, 'container': container, 'config': list(cfg)})
                        continue
            state = U.index_state(ga)
            skey = None if state is None else (tuple(state[0]), state[1])
            results = []
            for pykey, mkey, tag in keys:
                out = U.run_cx(obj, pykey)
                rp = {**meta, 'container': container, 'config': None if cfg is None else list(cfg),
                      'key': U.key_json(pykey)}
                if out[0] == 'ok':
                    try:
                        results.append(('pos', read_result(fam, container, obj, out[1])))
                    except U.Bad as b:
                        rep.violation(f'{container}:{b.sig}', f'{container}.cx: {b.what}', rp)
                        results.append(('bad',))
                    if len(obj) == 0 and container != 'array' and out[1] is not obj:
                        rep.count('empty-parent-not-same-object')
                elif out[0] == 'ValueError':
                    results.append(('ValueError',))
                else:
                    rep.violation(f'raised:{out[1]}', f'{container}.cx raised {out[1]}: {out[2]}', rp)
                    results.append(('raised', out[1]))
            rep.count(f'runs:{container}:' + ('noindex' if state is None else 'index'), len(keys))
            if container == 'array':
                # the box _get_bounds computes, for the model and for the classification
                bl = []
                for pykey, mkey, tag in keys:
                    try:
                        bl.append(tuple(float(v) for v in obj.cx._get_bounds(pykey)))
                    except ValueError:
                        bl.append(None)
                sink['bcases'].append((U.export_garr(kind, ga), U.model_state(state),
                                       [mk for _, mk, _ in keys]))
                sink['bresults'].append([U.model_bounds(b) for b in bl])
                sink['bmetas'].append({**meta, 'config': None if cfg is None else list(cfg),
                                       'keys': [U.key_json(k) for k, _, _ in keys]})
                if state is None and boxes is None:
                    boxes = bl
                if state is not None and not quiet:
                    t = ga._sindex
                    for b in bl:
                        if b is not None and all(math.isfinite(v) for v in b):
                            cv, ov = t.covers_overlaps((b[0], b[2], b[1], b[3]))
                            if len(cv):
                                rep.count('covered-shortcut-taken')
                            if len(ov):
                                rep.count('exact-test-on-overlaps')
                            if len(cv) and len(ov):
                                rep.count('covered+overlaps-mixed')
            if skey not in by_state:
                garr = U.export_garr(kind, ga)
                if not U.modelled(kind, garr):
                    rep.violation('not-modelled:odd-offset',
                                  'an element part does not start on an (x, y) pair boundary of the '
                                  'values buffer (hypothesis g_modelled of the C04 theorems)',
                                  {**meta, 'container': container})
                by_state[skey] = (state, results, container, cfg, garr)
            else:
                _, first, c0, cfg0, _ = by_state[skey]
                for (pykey, _, tag), a, b in zip(keys, first, results):
                    if a != b and 'bad' not in (a[0], b[0]):
                        rep.violation('container-differs',
                                      f'{c0} and {container} select different rows for the same key and index state',
                                      {**meta, 'containers': [c0, container], 'key': U.key_json(pykey),
                                       'config': None if cfg is None else list(cfg),
                                       'results': [list(a), list(b)]})
                        break
            if state is None and noindex is None:
                noindex = results
    # --- python-side comparisons ------------------------------------------------
    if boxes is None:
        boxes = [None] * len(keys)
    positive = [b is not None and all(math.isfinite(v) for v in b) and b[0] < b[1] and b[2] < b[3]
                for b in boxes]
    for (pykey, _, tag), b, pos in zip(keys, boxes, positive):
        rep.count('box:' + ('step' if b is None else 'positive' if pos else
                            'nan' if not all(math.isfinite(v) for v in b) else 'zero-extent'))
        rep.count('pattern:' + tag)
    # direct: exactly the rows intersects_bounds reports (positive boxes, every state)
    direct = []
    for b, pos in zip(boxes, positive):
        if pos:
            m = pristine.intersects_bounds((b[0], b[2], b[1], b[3]))
            direct.append([int(i) for i in np.nonzero(m)[0]])
        else:
            direct.append(None)
    for skey, (state, results, container, cfg, _) in by_state.items():
        for (pykey, _, tag), r, d, ni in zip(keys, results, direct, noindex or [None] * len(keys)):
            rep.evaluations += 1
            if d is None or r[0] != 'pos':
                continue
            if 0 < len(d) < fam.n:
                rep.nontrivial((kind, repr(fam.src_keys), repr(pykey)))
            rp = {**meta, 'container': container, 'config': None if cfg is None else list(cfg),
                  'key': U.key_json(pykey)}
            if state is not None and ni is not None and ni[0] == 'pos' and r[1] != ni[1]:
                rep.violation('index-relevant',
                              '.cx selects different rows with and without a spatial index '
                              '(box of positive width and height)',
                              {**rp, 'with_index': r[1], 'without_index': ni[1]})
            elif r[1] != d:
                rep.violation('not-exact',
                              '.cx does not select exactly the rows whose intersects_bounds is True',
                              {**rp, 'selected': r[1], 'intersecting': d})
    # --- Coq cases ----------------------------------------------------------------
    for skey, (state, results, container, cfg, garr) in by_state.items():
        if any(r[0] == 'bad' for r in results):
            continue
        sink['cases'].append((garr, U.model_state(state), [mk for _, mk, _ in keys]))
        sink['results'].append([U.model_result(r) for r in results])
        sink['metas'].append({**meta, 'container': container, 'config': None if cfg is None else list(cfg),
                              'keys': [U.key_json(k) for k, _, _ in keys],
                              'impl': [list(r) for r in results]})


def flush(rep, sink):
    bad = C.coq_mismatches(U.IMPORTS, 'cx_case', U.CASE_TY, U.RES_TY, sink['cases'], sink['results'],
                           shard=60)
    for i in bad[:10]:
        m = dict(sink['metas'][i])
        garr, st, mkeys = sink['cases'][i]
        # narrow the batch down to the first key on which the model and the code differ
        singles = [(garr, st, [mk]) for mk in mkeys]
        sres = [[r] for r in sink['results'][i]]
        kb = C.coq_mismatches(U.IMPORTS, 'cx_case', U.CASE_TY, U.RES_TY, singles, sres, shard=8)
        j = kb[0] if kb else 0
        model = C.coq_eval(U.IMPORTS, f'cx_case {C.coq(singles[j])}')
        m['key'] = m['keys'][j]
        m['impl'] = m['impl'][j]
        del m['keys']
        rep.violation(f'cx-differs-from-model:{m["kind"]}',
                      '.cx selects other rows than the proven model (Model/Cx.v) on the same buffers, '
                      'index permutation and keys',
                      {**m, 'model': model})
    bad = C.coq_mismatches(U.IMPORTS, 'bounds_case', U.CASE_TY, U.BRES_TY, sink['bcases'],
                           sink['bresults'], shard=120)
    for i in bad[:10]:
        m = dict(sink['bmetas'][i])
        garr, st, mkeys = sink['bcases'][i]
        singles = [(garr, st, [mk]) for mk in mkeys]
        sres = [[r] for r in sink['bresults'][i]]
        kb = C.coq_mismatches(U.IMPORTS, 'bounds_case', U.CASE_TY, U.BRES_TY, singles, sres, shard=8)
        j = kb[0] if kb else 0
        model = C.coq_eval(U.IMPORTS, f'bounds_case {C.coq(singles[j])}')
        m['key'] = m['keys'][j]
        del m['keys']
        rep.violation(f'get-bounds-differs-from-model:{m["kind"]}',
                      '_get_bounds computes another box than the model (defaults / swap / step)',
                      {**m, 'impl_x0_x1_y0_y1': sink['bresults'][i][j], 'model': model})
    for k in sink:
        sink[k] = []


def new_sink():
    return {'cases': [], 'results': [], 'metas': [], 'bcases': [], 'bresults': [], 'bmetas': []}


def extent_of(arr):
    tb = [float(v) for v in arr.total_bounds]
    return tuple(None if not math.isfinite(v) else v for v in tb)


def configs_for(rng, n, full):
    cfgs = [(page_size_of(t, n), p) for t in PAGE_SIZES for p in PS]
    # de-duplicate equal (page_size, p)
    seen, out = set(), []
    for c in cfgs:
        if c not in seen:
            seen.add(c)
            out.append(c)
    if not full:
        rng.shuffle(out)
    out.append(('prop',))
    out.append(('twice', rng.choice([1, 2, 3]), rng.choice(PS), rng.choice([1, 512]), rng.choice(PS)))
    return [None] + out


def gen_families(rep, tier):
    """(kind, subtype, elements, child)"""
    rng = rep.rng
    quick = tier == 'quick'
    # (a) the menu of each kind: every array of 1 element, a sample of the 2-element ones, zero rows
    for kind in G.KINDS:
        m = U.menu(kind)
        yield (kind, 'float64', [], None)
        singles = m if not quick else rng.sample(m, min(len(m), 3))
        for e in singles:
            yield (kind, 'float64', [e], None)
        pairs = [(a, b) for a in m for b in m]
        for a, b in (pairs if not quick else rng.sample(pairs, 3)):
            yield (kind, 'float64', [a, b], None)
    # (b) seeded structured stream
    nstream = 22 if quick else 300
    for kind in G.KINDS:
        for i in range(nstream):
            n = rng.choice([1, 2, 3, 3, 4, 5, 6, 8, 12]) if quick or rng.random() < .7 \
                else rng.randint(0, 30)
            # element dtype: the selection logic does not depend on it (C01 / C13 cover the
            # subtypes) and every further dtype costs a compilation of each kernel
            st = 'float64'
            els = U.gen_elements(rng, kind, n)
            child = None
            if rng.random() < 0.35 and n >= 1:
                if rng.random() < 0.6:
                    a = rng.randint(0, n)
                    child = ('slice', a, rng.randint(a, n))
                else:
                    child = ('take', [rng.randrange(n) for _ in range(rng.randint(0, n + 1))])
            yield (kind, st, els, child)


def run(rep):
    tier = getattr(rep, 'tier_run', rep.tier)
    quick = tier == 'quick'
    rng = rep.rng
    rep.rule = ('arrays of all 7 kinds with integer coordinates in 0..4 (menu of missing / empty / flat / '
                'generic shapes: zero rows, every one-element array, pairs; seeded stream of 1..12 '
                '(thorough: ..30) rows with missing, empty and duplicate elements; 35% are children '
                'sliced / taken from a parent whose index was built first) x 29 keys (all 25 pairs of '
                'axis patterns both/reversed/start-only/stop-only/omitted on the half grid biased to the '
                'data extent, 3 scalar forms, 1 step) x index states (none; page_size in {1,2,3,n,512} x '
                'p in {1,10}; the lazy .sindex property; build_sindex twice) x containers (array; GeoSeries with non-unique '
                'labels; GeoDataFrame with payload, second geometry column, geometry not first). '
                'one evaluation = one (array, index state, key) compared with the Coq model; '
                'non-trivial = a positive box selecting some but not all rows')
    sink = new_sink()
    nfam = 0
    # multipoints_intersect_bounds is the one parallel (prange) kernel on the path; on a busy
    # machine every parallel call costs tens of milliseconds of thread start-up, and the
    # check makes ~10^5 calls on arrays of a dozen rows: run it on one thread
    import numba
    numba.set_num_threads(1)
    for kind, st, els, child in gen_families(rep, tier):
        try:
            fam = Family(rng, kind, st, els, child)
            U.export_garr(kind, fam.fresh('array'))
        except ValueError as e:
            rep.count('skipped:' + str(e)[:40])
            continue
        nfam += 1
        rep.count('kind:' + kind)
        if child is not None:
            rep.count('child:' + child[0])
            if not fam.parent_built:
                rep.violation('build-sindex-lost', 'build_sindex left no index on a parent', fam.meta())
        if any(e is None for e in fam.src_keys):
            rep.count('has-missing')
        if len(set(fam.src_keys)) < len(fam.src_keys):
            rep.count('has-duplicates')
        if fam.n == 0:
            rep.count('zero-rows')
        keys = U.gen_keys(rng, extent_of(fam.fresh('array')))
        cfgs = configs_for(rng, fam.n, not quick)
        if quick:
            # every configuration on the array container; series and frame on the no-index
            # state and on two configurations (rotating)
            heavy = {None, cfgs[1], cfgs[-1]} | ({cfgs[2]} if nfam % 2 else set())

            def containers_for(cfg, heavy=heavy):
                return ['array', 'series', 'frame'] if cfg in heavy else ['array']
        else:
            def containers_for(cfg):
                return ['array', 'series', 'frame']
        process(rep, fam, keys, cfgs, containers_for, sink)
        if nfam <= 3:
            rep.sample({**fam.meta(), 'keys': [U.key_json(k) for k, _, _ in keys[:4]]})
        if len(sink['cases']) > 4000:
            flush(rep, sink)
    flush(rep, sink)
    rep.extra['arrays'] = nfam


# ----------------------------------------------------------------------------
def replay(rep, rp):
    def un(e):
        if isinstance(e, list):
            return [un(x) for x in e]
        if isinstance(e, str):
            return float(e)
        return e
    kind, st = rp['kind'], rp['subtype']
    els = un(rp['elements'])
    child = rp.get('child')
    if child is not None:
        child = tuple(child)
    fam = Family(rep.rng, kind, st, els, child)
    if 'key' in rp:
        pykeys = [U.key_unjson(rp['key'])]
    else:
        pykeys = [U.key_unjson(k) for k in rp['keys']]
    keys = []
    for k in pykeys:
        try:
            keys.append((k, U.model_key_of(k), 'replay'))
        except Exception as e:  # noqa
            print('key outside the half grid:', k, e)
            return False
    cfg = rp.get('config')
    cfgs = [None]
    if cfg is not None:
        cfgs.append(tuple(cfg))
    else:
        cfgs += [(1, 10), (2, 10), (512, 10)]
    sink = new_sink()
    process(rep, fam, keys, cfgs, lambda c: ['array', 'series', 'frame'], sink, quiet=True)
    for c, r, m in zip(sink['cases'], sink['results'], sink['metas']):
        print('config', m['config'], 'impl :', m['impl'])
        print('config', m['config'], 'model:', C.coq_eval(U.IMPORTS, f'cx_case {C.coq(c)}'))
    flush(rep, sink)
    for v in rep.violations:
        print('VIOLATION', v['signature'], '-', v['what'])
    return not rep.violations
