"""C04 — .cx[x0:x1, y0:y1] selects exactly the intersecting rows, with or without a
spatial index.

Correspondence: real geometry arrays of all seven kinds (integer coordinates in 0..4,
missing / empty / duplicate elements, zero rows, one row; also children obtained by
slicing / taking from a parent whose index was built first, so that the buffers have
non-zero offsets and the index is lost) x keys of every present / omitted / reversed
pattern of the four slice ends on the half grid (plus scalar keys and keys with a step)
x index states (never built; built with page_size in {1,2,3,n,512} and p in {1,10};
a second build_sindex with other arguments; built on the parent then sliced)
x containers (array; GeoSeries with shuffled non-unique labels; GeoDataFrame with
payload columns, a second geometry column and the active geometry not first).

Every result is read back as row positions (and the labels / payload / element values /
result type are checked to have travelled unchanged), then compared
  * with Model/Cx.v evaluated by the Coq kernel on the buffers exported through the Arrow
    protocol, the index state this check created itself (its own build_sindex / .sindex
    calls; identity permutation -- by C04_index_config_irrelevant the answer does not depend
    on the permutation or the page size) and the same keys (cx_case);
  * between containers and index configurations, and with the no-index run (boxes of
    positive width and height);
  * with np.nonzero(arr.intersects_bounds(box)) called directly.
Only public API is used to decide a violation.  Private names (`_sindex`, `_get_bounds`) are
optional extras: when missing or shaped differently they are skipped and counted
(`internal-unavailable:*`); a disagreement of the private `_get_bounds` with the model while
every public comparison of the same array agrees is counted
(`internal-differs-public-agrees:*`), not reported.
"""
import math

import numpy as np

from . import common as C
from . import geomgen as G
from . import c04_util as U

ANCHOR_FILES = ['spatialpandas/geometry/base.py', 'spatialpandas/geoseries.py',
                'spatialpandas/geodataframe.py', 'spatialpandas/spatialindex/rtree.py']
TRUSTED = ['pandas .iloc[positions] / boolean-mask selection return the rows at those positions, in '
           'order, unchanged (oracle contract take_rows / mask_rows of Model/Cx.v; checked on the real '
           'pandas on every run: labels, payload columns, element values, result type)',
           'Model/Intersect.v (C01), Model/Rtree.v (C03), Model/Bounds.v (C13) as tied to the code by '
           'their own correspondence checks and again here through cx_case',
           'the model runs with the identity permutation and the page size this check passed to '
           'build_sindex: by C04_index_config_irrelevant (proved) the model\'s answer is the same for '
           'every permutation and page size, so the index\'s private key array is not read',
           'the index state of an object is the one this check created itself through the public API '
           '(build_sindex / .sindex; none after slicing, taking or re-wrapping)',
           'pyarrow slice / take produce well-formed buffers holding the sliced / taken elements (not '
           'modelled operationally; the child arrays are exported as they are, through __arrow_array__)',
           'float64 comparisons of exactly representable half-grid values = integer comparisons (x2)']

PAGE_SIZES = ['1', '2', '3', 'n', '512']
PS = [1, 10]


# ----------------------------------------------------------------------------
class Family:
    """one logical array (its elements) and the way to get fresh, index-less objects of
    the three containers holding it.  For a child family the objects are re-derived
    from parents whose index was built before."""

    def __init__(self, rng, kind, subtype, elements, child=None):
        self.kind, self.subtype, self.elements, self.child = kind, subtype, elements, child
        from spatialpandas import GeoDataFrame, GeoSeries
        base = G.make_array(kind, elements, subtype)
        n0 = len(base)
        self.base = base
        lab0 = U.labels_for(rng, n0)
        oth0 = [None if rng.random() < 0.2 else [rng.randint(0, 4), rng.randint(0, 4)] for _ in range(n0)]
        pay0 = ['p%d' % rng.randrange(3) for _ in range(n0)]
        self._mk_series = lambda a, lab=lab0: GeoSeries(a, index=list(lab), name='shape')
        self._other, self._pay, self._lab0 = oth0, pay0, lab0

        def mk_frame(a, lab, oth, pay):
            n = len(a)
            return GeoDataFrame({'pay': list(pay), 'g2': G.make_array('point', list(oth), 'float64'),
                                 'rid': np.arange(n, dtype='int64'), 'geom': a,
                                 'w': np.arange(n, dtype='float64') / 2},
                                index=list(lab), geometry='geom')
        self._mk_frame = mk_frame
        if child is None:
            self.labels = lab0
            self.n = n0
            self.parents = None
        else:
            # parents with an index built first (any configuration)
            ps, p = rng.choice([1, 2, 3, 512]), rng.choice(PS)
            pa = base.copy().build_sindex(page_size=ps, p=p)
            psr = self._mk_series(base.copy()).build_sindex(page_size=ps, p=p)
            pf = mk_frame(base.copy(), lab0, oth0, pay0).build_sindex(page_size=ps, p=p)
            self.parents = (pa, psr, pf)
            idx = self._child_positions(n0)
            self.labels = [lab0[i] for i in idx]
            self.n = len(idx)
        self.src_keys = U.pylist(self.fresh('array'))

    def _child_positions(self, n0):
        c = self.child
        if c[0] == 'slice':
            return list(range(n0))[c[1]:c[2]]
        return list(c[1])

    def fresh(self, container):
        """a new object of the container; no index expected on it"""
        if self.parents is None:
            a = self.base.copy()
            if container == 'array':
                return a
            if container == 'series':
                return self._mk_series(a)
            return self._mk_frame(a, self._lab0, self._other, self._pay)
        pa, psr, pf = self.parents
        c = self.child
        if c[0] == 'slice':
            if container == 'array':
                return pa[c[1]:c[2]]
            obj = (psr if container == 'series' else pf).iloc[c[1]:c[2]]
        else:
            idx = np.array(c[1], dtype='int64')
            if container == 'array':
                return pa.take(idx)
            obj = (psr if container == 'series' else pf).iloc[idx]
        if container == 'frame':
            # the row id payload restarts at 0 in the child so that it stays a position
            obj = obj.copy(deep=False)
            obj['rid'] = np.arange(len(obj), dtype='int64')
        return obj

    def geom_array(self, obj, container):
        if container == 'array':
            return obj
        if container == 'series':
            return obj.array
        return obj.geometry.array

    def meta(self):
        return {'kind': self.kind, 'subtype': self.subtype, 'elements': self.elements,
                'child': self.child, 'fam_id': getattr(self, 'fam_id', 0)}


def read_result(fam, container, src_obj, res):
    if container == 'array':
        return U.read_array(src_obj, fam.src_keys, res)
    if container == 'series':
        return U.read_series(src_obj, fam.src_keys, fam.labels, res)
    return U.read_frame(src_obj, fam.src_keys, fam.labels, res)


def page_size_of(tag, n):
    return n if tag == 'n' else int(tag)


# ----------------------------------------------------------------------------
def sidx(obj, container):
    """the public .sindex property (GeoDataFrame: of its active geometry)"""
    return (obj.geometry if container == 'frame' else obj).sindex


def history_page_size(cfg):
    """page size of the index this check built on the object (None = none built)"""
    if cfg is None:
        return None
    if cfg[0] == 'prop':
        return 512
    if cfg[0] == 'twice':
        return cfg[1]
    return cfg[0]


def process(rep, fam, keys, configs, containers_for, sink, quiet=False):
    """run every (config, container, key); python-side comparisons; Coq cases into sink.
    configs: list of None | (page_size, p) | ('prop',) | ('twice', ps1, p1, ps2, p2)
    containers_for(config) -> containers to run for it.

    Everything that decides a violation is observed through the public API (.cx results,
    build_sindex, .sindex identity, total_bounds, the Arrow protocol).  The index state fed
    to the model is the one this check created itself (its own build_sindex calls), with the
    identity permutation (C04_index_config_irrelevant).  Private names are looked at only as
    optional extras, counted and never reported on their own."""
    kind = fam.kind
    meta = fam.meta()
    pristine = fam.fresh('array')
    if U.pylist(pristine) != fam.src_keys:
        raise AssertionError('family elements unstable')
    garr = U.export_garr(kind, pristine)
    if not U.modelled(kind, garr):
        rep.violation('not-modelled:odd-offset',
                      'an element part does not start on an (x, y) pair boundary of the values '
                      'buffer (hypothesis g_modelled of the C04 theorems)', meta)
    extent = tuple(float(v) for v in pristine.total_bounds)
    boxes = [U.py_box(k, extent) for k, _, _ in keys]
    by_state = {}        # history page size (None = no index) -> (results per key, container, cfg)
    for cfg in configs:
        hps = history_page_size(cfg)
        for container in containers_for(cfg):
            obj = fam.fresh(container)
            ga = fam.geom_array(obj, container)
            if U.pylist(ga) != fam.src_keys:
                rep.violation(f'{container}:construction', 'container does not hold the elements given',
                              {**meta, 'container': container})
                continue
            internal0 = U.internal_index(ga)
            if internal0[0] == 'unavailable':
                rep.count('internal-unavailable:_sindex')
            elif fam.child is not None and internal0[0] == 'built':
                rep.count('internal:derived-object-has-index')
            if cfg is not None:
                if cfg[0] == 'prop':
                    # the lazy .sindex property builds a default index once and caches it
                    t = sidx(obj, container)
                    if t is None or sidx(obj, container) is not t:
                        rep.violation('sindex-property',
                                      'the .sindex property did not build and cache an index',
                                      {**meta, 'container': container})
                        continue
                elif cfg[0] == 'twice':
                    obj.build_sindex(page_size=cfg[1], p=cfg[2])
                    t1 = sidx(obj, container)
                    obj.build_sindex(page_size=cfg[3], p=cfg[4])
                    if sidx(obj, container) is not t1:
                        rep.violation('second-build-replaced-index',
                                      'build_sindex on an already indexed object did not keep the first index',
                                      {**meta, 'container': container, 'config': list(cfg)})
                else:
                    r = obj.build_sindex(page_size=cfg[0], p=cfg[1])
                    if r is not obj:
                        rep.violation('build-sindex-returns', 'build_sindex did not return the object',
                                      {**meta, 'container': container, 'config': list(cfg)})
                        continue
                internal1 = U.internal_index(fam.geom_array(obj, container))
                if internal1[0] == 'none':
                    rep.count('internal:no-index-after-build')
            results = []
            for pykey, mkey, tag in keys:
                out = U.run_cx(obj, pykey)
                rp = {**meta, 'container': container, 'config': None if cfg is None else list(cfg),
                      'key': U.key_json(pykey)}
                if out[0] == 'ok':
                    try:
                        results.append(('pos', read_result(fam, container, obj, out[1])))
                    except U.Bad as b:
                        rep.violation(f'{container}:{b.sig}', f'{container}.cx: {b.what}', rp)
                        results.append(('bad',))
                elif out[0] == 'ValueError':
                    results.append(('ValueError',))
                else:
                    rep.violation(f'raised:{out[1]}', f'{container}.cx raised {out[1]}: {out[2]}', rp)
                    results.append(('raised', out[1]))
            rep.count(f'runs:{container}:' + ('noindex' if hps is None else 'index'), len(keys))
            if container == 'array':
                # OPTIONAL: the box the private _get_bounds computes, against the model
                gb = getattr(obj.cx, '_get_bounds', None)
                bl, ok = [], callable(gb)
                if ok:
                    try:
                        for pykey, mkey, tag in keys:
                            try:
                                v = gb(pykey)
                                bl.append(tuple(float(x) for x in v))
                                ok = ok and len(bl[-1]) == 4
                            except ValueError:
                                bl.append(None)
                    except Exception:  # noqa: any other shape of the internal
                        ok = False
                if ok:
                    sink['bcases'].append((garr, U.model_state(fam.n, hps), [mk for _, mk, _ in keys]))
                    sink['bresults'].append([U.model_bounds(b) for b in bl])
                    sink['bmetas'].append({**meta, 'config': None if cfg is None else list(cfg),
                                           'keys': [U.key_json(k) for k, _, _ in keys]})
                else:
                    rep.count('internal-unavailable:_get_bounds')
            skey = None if hps is None else max(1, hps)
            if skey not in by_state:
                by_state[skey] = (results, container, cfg)
            else:
                first, c0, cfg0 = by_state[skey]
                for (pykey, _, tag), a, b in zip(keys, first, results):
                    if a != b and 'bad' not in (a[0], b[0]):
                        rep.violation('container-differs',
                                      f'{c0} ({cfg0}) and {container} ({cfg}) select different rows for the '
                                      'same key and an index of the same page size',
                                      {**meta, 'containers': [c0, container], 'key': U.key_json(pykey),
                                       'config': None if cfg is None else list(cfg),
                                       'results': [list(a), list(b)]})
                        break
    noindex = by_state.get(None, (None,))[0]
    # --- python-side comparisons ------------------------------------------------
    positive = [b is not None and all(math.isfinite(v) for v in b) and b[0] < b[1] and b[2] < b[3]
                for b in boxes]
    for (pykey, _, tag), b, pos in zip(keys, boxes, positive):
        rep.count('box:' + ('step' if b is None else 'positive' if pos else
                            'nan' if not all(math.isfinite(v) for v in b) else 'zero-extent'))
        rep.count('pattern:' + tag)
    # direct: exactly the rows intersects_bounds reports (positive boxes, every state)
    direct = []
    probe = None if quiet else fam.fresh('array').build_sindex()
    for b, pos in zip(boxes, positive):
        if pos:
            m = pristine.intersects_bounds((b[0], b[2], b[1], b[3]))
            direct.append([int(i) for i in np.nonzero(m)[0]])
            if probe is not None:
                cv, ov = probe.sindex.covers_overlaps((b[0], b[2], b[1], b[3]))
                if len(cv):
                    rep.count('covered-shortcut-taken')
                if len(ov):
                    rep.count('exact-test-on-overlaps')
                if len(cv) and len(ov):
                    rep.count('covered+overlaps-mixed')
        else:
            direct.append(None)
    for skey, (results, container, cfg) in by_state.items():
        for (pykey, _, tag), r, d, ni in zip(keys, results, direct, noindex or [None] * len(keys)):
            rep.evaluations += 1
            if d is None or r[0] != 'pos':
                continue
            if 0 < len(d) < fam.n:
                rep.nontrivial((kind, repr(fam.src_keys), repr(pykey)))
            rp = {**meta, 'container': container, 'config': None if cfg is None else list(cfg),
                  'key': U.key_json(pykey)}
            if skey is not None and ni is not None and ni[0] == 'pos' and r[1] != ni[1]:
                rep.violation('index-relevant',
                              '.cx selects different rows with and without a spatial index '
                              '(box of positive width and height)',
                              {**rp, 'with_index': r[1], 'without_index': ni[1]})
            elif r[1] != d:
                rep.violation('not-exact',
                              '.cx does not select exactly the rows whose intersects_bounds is True',
                              {**rp, 'selected': r[1], 'intersecting': d})
    # --- Coq cases ----------------------------------------------------------------
    for skey, (results, container, cfg) in by_state.items():
        if any(r[0] == 'bad' for r in results):
            continue
        sink['cases'].append((garr, U.model_state(fam.n, skey), [mk for _, mk, _ in keys]))
        sink['results'].append([U.model_result(r) for r in results])
        sink['metas'].append({**meta, 'container': container, 'config': None if cfg is None else list(cfg),
                              'keys': [U.key_json(k) for k, _, _ in keys],
                              'impl': [list(r) for r in results]})


def flush(rep, sink):
    bad = C.coq_mismatches(U.IMPORTS, 'cx_case', U.CASE_TY, U.RES_TY, sink['cases'], sink['results'],
                           shard=60)
    for i in bad[:10]:
        m = dict(sink['metas'][i])
        garr, st, mkeys = sink['cases'][i]
        # narrow the batch down to the first key on which the model and the code differ
        singles = [(garr, st, [mk]) for mk in mkeys]
        sres = [[r] for r in sink['results'][i]]
        kb = C.coq_mismatches(U.IMPORTS, 'cx_case', U.CASE_TY, U.RES_TY, singles, sres, shard=8)
        j = kb[0] if kb else 0
        model = C.coq_eval(U.IMPORTS, f'cx_case {C.coq(singles[j])}')
        m['key'] = m['keys'][j]
        m['impl'] = m['impl'][j]
        del m['keys']
        rep.violation(f'cx-differs-from-model:{m["kind"]}',
                      '.cx selects other rows than the proven model (Model/Cx.v) on the same buffers, '
                      'index permutation and keys',
                      {**m, 'model': model})
    # OPTIONAL extra: the private _get_bounds against the model.  A disagreement there while
    # every public comparison of the same array agrees is counted, not reported.
    public_bad = {v['replay'].get('fam_id') for v in rep.violations}
    bad = C.coq_mismatches(U.IMPORTS, 'bounds_case', U.CASE_TY, U.BRES_TY, sink['bcases'],
                           sink['bresults'], shard=120)
    for i in bad[:10]:
        m = dict(sink['bmetas'][i])
        if m.get('fam_id') not in public_bad:
            rep.count('internal-differs-public-agrees:_get_bounds')
            continue
        garr, st, mkeys = sink['bcases'][i]
        singles = [(garr, st, [mk]) for mk in mkeys]
        sres = [[r] for r in sink['bresults'][i]]
        kb = C.coq_mismatches(U.IMPORTS, 'bounds_case', U.CASE_TY, U.BRES_TY, singles, sres, shard=8)
        j = kb[0] if kb else 0
        model = C.coq_eval(U.IMPORTS, f'bounds_case {C.coq(singles[j])}')
        m['key'] = m['keys'][j]
        del m['keys']
        rep.violation(f'get-bounds-differs-from-model:{m["kind"]}',
                      '_get_bounds computes another box than the model (defaults / swap / step), and '
                      'the .cx results of the same array are wrong too',
                      {**m, 'impl_x0_x1_y0_y1': sink['bresults'][i][j], 'model': model})
    if len(bad) > 10:
        rep.count('internal-differs:_get_bounds(more)', len(bad) - 10)
    for k in sink:
        sink[k] = []


def new_sink():
    return {'cases': [], 'results': [], 'metas': [], 'bcases': [], 'bresults': [], 'bmetas': []}


def extent_of(arr):
    tb = [float(v) for v in arr.total_bounds]
    return tuple(None if not math.isfinite(v) else v for v in tb)


def configs_for(rng, n, full):
    cfgs = [(page_size_of(t, n), p) for t in PAGE_SIZES for p in PS]
    # de-duplicate equal (page_size, p)
    seen, out = set(), []
    for c in cfgs:
        if c not in seen:
            seen.add(c)
            out.append(c)
    if not full:
        rng.shuffle(out)
    out.append(('prop',))
    out.append(('twice', rng.choice([1, 2, 3]), rng.choice(PS), rng.choice([1, 512]), rng.choice(PS)))
    return [None] + out


def gen_families(rep, tier):
    """(kind, subtype, elements, child)"""
    rng = rep.rng
    quick = tier == 'quick'
    # (a) the menu of each kind: every array of 1 element, a sample of the 2-element ones, zero rows
    for kind in G.KINDS:
        m = U.menu(kind)
        yield (kind, 'float64', [], None)
        singles = m if not quick else rng.sample(m, min(len(m), 3))
        for e in singles:
            yield (kind, 'float64', [e], None)
        pairs = [(a, b) for a in m for b in m]
        for a, b in (pairs if not quick else rng.sample(pairs, 3)):
            yield (kind, 'float64', [a, b], None)
    # (b) seeded structured stream
    nstream = 22 if quick else 300
    for kind in G.KINDS:
        for i in range(nstream):
            n = rng.choice([1, 2, 3, 3, 4, 5, 6, 8, 12]) if quick or rng.random() < .7 \
                else rng.randint(0, 30)
            # element dtype: the selection logic does not depend on it (C01 / C13 cover the
            # subtypes) and every further dtype costs a compilation of each kernel
            st = 'float64'
            els = U.gen_elements(rng, kind, n)
            child = None
            if rng.random() < 0.35 and n >= 1:
                if rng.random() < 0.6:
                    a = rng.randint(0, n)
                    child = ('slice', a, rng.randint(a, n))
                else:
                    child = ('take', [rng.randrange(n) for _ in range(rng.randint(0, n + 1))])
            yield (kind, st, els, child)


def run(rep):
    tier = getattr(rep, 'tier_run', rep.tier)
    quick = tier == 'quick'
    rng = rep.rng
    rep.rule = ('arrays of all 7 kinds with integer coordinates in 0..4 (menu of missing / empty / flat / '
                'generic shapes: zero rows, every one-element array, pairs; seeded stream of 1..12 '
                '(thorough: ..30) rows with missing, empty and duplicate elements; 35% are children '
                'sliced / taken from a parent whose index was built first) x 29 keys (all 25 pairs of '
                'axis patterns both/reversed/start-only/stop-only/omitted on the half grid biased to the '
                'data extent, 3 scalar forms, 1 step) x index states (none; page_size in {1,2,3,n,512} x '
                'p in {1,10}; the lazy .sindex property; build_sindex twice) x containers (array; GeoSeries with non-unique '
                'labels; GeoDataFrame with payload, second geometry column, geometry not first). '
                'one evaluation = one (array, index state, key) compared with the Coq model; '
                'non-trivial = a positive box selecting some but not all rows')
    sink = new_sink()
    nfam = 0
    # multipoints_intersect_bounds is the one parallel (prange) kernel on the path; on a busy
    # machine every parallel call costs tens of milliseconds of thread start-up, and the
    # check makes ~10^5 calls on arrays of a dozen rows: run it on one thread
    import numba
    numba.set_num_threads(1)
    for kind, st, els, child in gen_families(rep, tier):
        try:
            fam = Family(rng, kind, st, els, child)
            U.export_garr(kind, fam.fresh('array'))
        except ValueError as e:
            rep.count('skipped:' + str(e)[:40])
            continue
        nfam += 1
        fam.fam_id = nfam
        rep.count('kind:' + kind)
        if child is not None:
            rep.count('child:' + child[0])
        if any(e is None for e in fam.src_keys):
            rep.count('has-missing')
        if len(set(fam.src_keys)) < len(fam.src_keys):
            rep.count('has-duplicates')
        if fam.n == 0:
            rep.count('zero-rows')
        keys = U.gen_keys(rng, extent_of(fam.fresh('array')))
        cfgs = configs_for(rng, fam.n, not quick)
        if quick:
            # every configuration on the array container; series and frame on the no-index
            # state and on two configurations (rotating)
            heavy = {None, cfgs[1], cfgs[-1]} | ({cfgs[2]} if nfam % 2 else set())

            def containers_for(cfg, heavy=heavy):
                return ['array', 'series', 'frame'] if cfg in heavy else ['array']
        else:
            def containers_for(cfg):
                return ['array', 'series', 'frame']
        process(rep, fam, keys, cfgs, containers_for, sink)
        if nfam <= 3:
            rep.sample({**fam.meta(), 'keys': [U.key_json(k) for k, _, _ in keys[:4]]})
        if len(sink['cases']) > 4000:
            flush(rep, sink)
    flush(rep, sink)
    rep.extra['arrays'] = nfam


# ----------------------------------------------------------------------------
def replay(rep, rp):
    def un(e):
        if isinstance(e, list):
            return [un(x) for x in e]
        if isinstance(e, str):
            return float(e)
        return e
    kind, st = rp['kind'], rp['subtype']
    els = un(rp['elements'])
    child = rp.get('child')
    if child is not None:
        child = tuple(child)
    fam = Family(rep.rng, kind, st, els, child)
    if 'key' in rp:
        pykeys = [U.key_unjson(rp['key'])]
    else:
        pykeys = [U.key_unjson(k) for k in rp['keys']]
    keys = []
    for k in pykeys:
        try:
            keys.append((k, U.model_key_of(k), 'replay'))
        except Exception as e:  # noqa
            print('key outside the half grid:', k, e)
            return False
    cfg = rp.get('config')
    cfgs = [None]
    if cfg is not None:
        cfgs.append(tuple(cfg))
    else:
        cfgs += [(1, 10), (2, 10), (512, 10)]
    sink = new_sink()
    process(rep, fam, keys, cfgs, lambda c: ['array', 'series', 'frame'], sink, quiet=True)
    for c, r, m in zip(sink['cases'], sink['results'], sink['metas']):
        print('config', m['config'], 'impl :', m['impl'])
        print('config', m['config'], 'model:', C.coq_eval(U.IMPORTS, f'cx_case {C.coq(c)}'))
    flush(rep, sink)
    for v in rep.violations:
        print('VIOLATION', v['signature'], '-', v['what'])
    return not rep.violations
