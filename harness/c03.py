"""C03 — Hilbert R-tree queries return exactly the intersecting / covered boxes.

PRIMARY comparison (public API only): `HilbertRtree(bounds, p=, page_size=)`,
`.intersects(q)`, `.covers_overlaps(q)`, `.total_bounds` and a pickle round trip
of real builds (d = 1, 2, 3; integer-corner boxes with duplicates, zero extent,
shared edges, NaN rows; every page size; several curve orders) against
  (a) Model/Rtree.v evaluated by the Coq kernel on the same rows, the same
      page_size and the same queries (coordinates scaled by 2) with the IDENTITY
      permutation as keys -- theorem C03_independent: the index sets and
      total_bounds do not depend on the permutation -- compared as sets;
  (b) a brute-force oracle of the specification.
No private attribute of the index is needed for it, so a refactor of the index
that keeps the public answers keeps the check green.

OPTIONAL extras (internals; skipped and counted `internal-unavailable:<what>`
when the attribute is missing or shaped differently; a disagreement is counted
`internal-differs-public-agrees`, never reported as a violation): `_bounds_tree`
against the model run on the exported `_keys`; `_start_index/_stop_index/
_leaf_start` of every node for every (n, page_size), n <= 200; tree lengths.
"""
import itertools
import math
import pickle
import sys

import numpy as np

from . import common as C
from . import c03_util as U
from . import c03_float as F

ANCHOR_FILES = ['spatialpandas/spatialindex/rtree.py', 'spatialpandas/utils.py']
TRUSTED = ['numpy basic slicing (clipping at the length), boolean-mask indexing and nanmin/nanmax '
           'as transcribed in Model/Rtree.v',
           'int(np.ceil(np.log2(k))) modelled as Nat.log2_up (validated each run for k <= 2^16 '
           'under numba, not proved)',
           'the model is run with keys = identity; by theorem C03_independent the answers are the '
           'same sets for every permutation (hence for the Hilbert order the real index uses)',
           'float64 comparisons of the exactly representable grid values = integer comparisons',
           'c03_float.py: float64 <, <=, >, >=, nanmin, nanmax on non-NaN doubles (infinities included) '
           'are those of the linear order of the values, so the model evaluated on the RANKS of the '
           'distinct doubles decides them (theorem C03_monotone: the model is invariant under strictly '
           'increasing renamings; C03_unbounded_query: a side beyond all data = an absent constraint); '
           'validated on every run against the brute-force oracle that compares the doubles themselves']

IMPORTS = 'Model.Num Model.Rtree Model.RtreeCheck'
# readable form (replay / diagnosis): sorted index lists
CASE_TY = 'nat * list (list (option Z)) * list nat * nat * list (list Z)'
FN = 'rtree_case'
# public comparison: (total_bounds, one packed integer per query)
PUB_TY = 'nat * list (list (option Z)) * nat * list (list Z)'
PUB_RES = 'list (option Z) * list Z'
PUB_FN = 'rtree_case_public'
PUB1_TY = 'list (list (option Z)) * nat'
PUB1_FN = 'rtree_case_public_1d'
# optional internals
TREE_TY = 'nat * list (list (option Z)) * list nat * nat'
TREE_RES = 'list (list (option Z))'
TREE_FN = 'tree_case'
FULL_RES = 'list (list (option Z)) * list (option Z) * list Z'
FULL_FN = 'rtree_case_packed'


def N(x):
    return C.Nat(int(x))


def _frow(r):
    return [None if x != x else C.Some(int(round(float(x) * U.SCALE))) for x in r]


def _mask(xs):
    return sum(1 << int(x) for x in xs)


def _zs(x):
    return str(x) if x >= 0 else f'({x})'


def _row_txt(r):
    return '[' + '; '.join('None' if x != x else 'Some ' + _zs(int(round(float(x) * U.SCALE)))
                           for x in r) + ']'


def _raw_row(r):
    return C.Raw(_row_txt(r) + '%Z')


def _raw_rows(rows):
    return C.Raw('[' + '; '.join(_row_txt(r) for r in rows) + ']%Z')


def _raw_nats(xs):
    return C.Raw('[' + '; '.join(str(int(x)) for x in xs) + ']%nat')


def _raw_queries(qs):
    return C.Raw('[' + '; '.join('[' + '; '.join(_zs(z) for z in U.zquery(q)) + ']' for q in qs) + ']%Z')


Q1D = U.all_queries_1d()


def export_internals(t, n, d):
    """(keys, tree, missing): the private arrays of a real index when they exist with the
    expected shape (None otherwise) and the names of those that do not"""
    missing = []
    keys = tree = None
    try:
        k = np.asarray(getattr(t, '_keys'))
        if k.ndim == 1 and k.shape[0] == n and np.issubdtype(k.dtype, np.integer) \
                and sorted(int(x) for x in k) == list(range(n)):
            keys = [int(x) for x in k]
        else:
            missing.append('_keys')
    except Exception:
        missing.append('_keys')
    try:
        bt = np.asarray(getattr(t, '_bounds_tree'), dtype='float64')
        if bt.ndim == 2 and (bt.shape[0] == 0 or bt.shape[1] == 2 * d):
            tree = [list(map(float, r)) for r in bt]
        else:
            missing.append('_bounds_tree')
    except Exception:
        missing.append('_bounds_tree')
    return keys, tree, missing


def _tolists(kept):
    return [([int(x) for x in it], [int(x) for x in cv], [int(x) for x in ov]) for it, cv, ov in kept]


class Build:
    """one real index build + a batch of queries, in the model's vocabulary.

    The index is used the way a caller uses it over time: every array returned by the batch of
    queries is KEPT and only read after the whole batch (a result that aliases a buffer of the
    index shows); then the caller's input array is overwritten in place and the queries are
    asked again: the answers must still be those of the original boxes."""

    def __init__(self, d, rows, page_size, p, queries, tag):
        self.d, self.rows, self.page_size, self.p, self.queries, self.tag = \
            d, rows, page_size, p, queries, tag
        self.error = None
        self.state_error = None
        self.impl = []
        self.keys = self.tree = None
        self.missing = []
        self.shared = False

    def meta(self):
        return {'d': self.d, 'rows': self.rows, 'page_size': self.page_size, 'p': self.p,
                'queries': self.queries, 'tag': self.tag}

    def _ask(self, queries):
        t = self.tree_obj
        kept = []
        for q in queries:
            it = t.intersects(tuple(q))
            cv, ov = t.covers_overlaps(tuple(q))
            kept.append((it, cv, ov))
        return kept

    def recheck(self, every=1, why='input-aliased'):
        """ask (a subset of) the batch again: same answers and total_bounds as the first time"""
        if self.error or self.state_error:
            return
        idx = list(range(0, len(self.queries), every))
        try:
            again = _tolists(self._ask([self.queries[j] for j in idx]))
            tb = [float(x) for x in self.tree_obj.total_bounds]
        except Exception as e:
            self.state_error = ('raises-later', idx[:1], f'{type(e).__name__}: {e}'[:200])
            return
        if not _same_floats(tb, self.tb):
            self.state_error = (why, [0], {'total_bounds_before': self.tb, 'total_bounds_after': tb})
            return
        for j, tr in zip(idx, again):
            if [sorted(x) for x in tr] != [sorted(x) for x in self.impl[j]]:
                self.state_error = (why, [j], {'before': [sorted(x) for x in self.impl[j]],
                                                'after': [sorted(x) for x in tr]})
                return

    def run(self, buf=None, recheck_every=1):
        from spatialpandas.spatialindex import HilbertRtree
        d, rows = self.d, self.rows
        n = len(rows)
        orig = np.array(rows, dtype='float64').reshape(n, 2 * d)
        if buf is None:
            arr = orig.copy()           # float64, C-contiguous: the caller's array
        else:
            arr = buf
            arr[...] = orig
        try:
            t = HilbertRtree(arr, p=self.p, page_size=self.page_size)
            self.tree_obj = t
            tb = [float(x) for x in t.total_bounds]
            kept = self._ask(self.queries)          # every returned array is kept ...
            per = _tolists(kept)                    # ... and read only after the whole batch
            tb2 = [float(x) for x in t.total_bounds]
        except Exception as e:  # the property says queries are total
            self.error = (type(e).__name__, str(e)[:300])
            return self
        self.tb, self.impl = tb, per
        self.dup = next((j for j, tr in enumerate(per) if any(len(set(x)) != len(x) for x in tr)), None)
        if len(kept) > 1:
            try:
                self.shared = bool(np.shares_memory(kept[0][0], kept[1][0])
                                   or np.shares_memory(kept[0][1], kept[1][1])
                                   or np.shares_memory(kept[0][1], kept[0][2]))
            except Exception:
                self.shared = False
        del kept
        self.keys, self.tree, self.missing = export_internals(t, n, d)
        if not _same_floats(tb, tb2):
            self.state_error = ('total_bounds-changes', [0], {'before': tb, 'after': tb2})
        elif n and not np.array_equal(arr, orig, equal_nan=True):
            self.state_error = ('input-modified', [0], {'input_after_build': arr.tolist()})
        elif n:
            # the caller reuses its array: other boxes / NaN, in place
            mode = (n + self.page_size + len(self.queries)) % 3
            if mode == 0:
                arr[...] = np.nan
            elif mode == 1:
                arr[...] = orig[::-1] * 2 + 11
            else:
                arr[...] = -5.0
            self.recheck(every=recheck_every)
        return self

    def _packed(self):
        s = 1 << len(self.rows)
        pk = [_mask(a) + s * (_mask(b) + s * _mask(c)) for a, b, c in self.impl]
        return C.Raw('[' + '; '.join(map(str, pk)) + ']%Z')

    # -- public comparison (keys = identity inside the model)
    def case_public(self):
        return (N(self.d), _raw_rows(self.rows), N(max(0, self.page_size)), _raw_queries(self.queries))

    def case_public_1d(self):
        return (_raw_rows(self.rows), N(max(0, self.page_size)))

    def result_public(self):
        return (_raw_row(self.tb), self._packed())

    # -- optional internals
    def case_tree(self):
        return (N(self.d), _raw_rows(self.rows), _raw_nats(self.keys), N(max(0, self.page_size)))

    def result_tree(self):
        return _raw_rows(self.tree)

    def case_full(self):
        return (N(self.d), _raw_rows(self.rows), _raw_nats(self.keys), N(max(0, self.page_size)),
                _raw_queries(self.queries))

    def result_full(self):
        return (_raw_rows(self.tree), _raw_row(self.tb), self._packed())


def _same_floats(a, b):
    return len(a) == len(b) and all((x == y) or (x != x and y != y) for x, y in zip(a, b))


def check_oracle(rep, b):
    """implementation against the brute-force oracle of the specification (U.brute, evaluated
    for the whole batch of queries at once)"""
    d, rows = b.d, b.rows
    n = len(rows)
    ok = True
    if not _same_floats(b.tb, U.brute_total(rows, d)):
        rep.violation('oracle:total_bounds', 'total_bounds is not the union of the finite boxes',
                      {**b.meta(), 'impl': b.tb, 'expected': U.brute_total(rows, d)})
        ok = False
    if b.dup is not None:
        rep.violation('oracle:duplicate', 'a row is reported twice',
                      {**b.meta(), 'failing_query': b.queries[b.dup], 'impl': list(b.impl[b.dup])})
        return False
    if not U.well_formed(rows, d):
        return ok      # reversed boxes: only the model comparison applies (theorems need min <= max)
    inter, cov, tie = U.brute_batch(rows, b.queries, d)
    nfin = sum(1 for r in rows if not U.isnan_row(r))
    hkey = hash((d, b.page_size, tuple(map(tuple, rows))))
    c_none = c_all = c_some = c_cp = c_tie = 0
    for j, (q, (it, cv, ov)) in enumerate(zip(b.queries, b.impl)):
        ei = np.flatnonzero(inter[j]).tolist()
        ec = np.flatnonzero(cov[j]).tolist()
        eo = np.flatnonzero(inter[j] & ~cov[j]).tolist()
        if sorted(it) != ei:
            kind = 'missing' if set(it) < set(ei) else 'extra' if set(it) > set(ei) else 'wrong'
            try:   # right when asked alone, wrong when read after later queries?
                if sorted(int(x) for x in b.tree_obj.intersects(tuple(q))) == ei:
                    kind = 'overwritten-by-later-query'
            except Exception:
                pass
            rep.violation(f'oracle:intersects:{kind}',
                          'intersects does not return exactly the overlapping rows',
                          {**b.meta(), 'failing_query': q, 'impl': sorted(it), 'expected': ei,
                           'check': U.brute(rows, q, d)})
            return False
        if sorted(cv) != ec or sorted(ov) != eo:
            rep.violation('oracle:covers_overlaps',
                          'covers_overlaps does not split the overlapping rows into covered / partial',
                          {**b.meta(), 'failing_query': q, 'impl': [sorted(cv), sorted(ov)],
                           'expected': [ec, eo]})
            return False
        if ei and len(ei) < nfin:
            rep.nontrivial(hash((hkey, tuple(q))))
            c_some += 1
        elif not ei:
            c_none += 1
        else:
            c_all += 1
        if ec and eo:
            c_cp += 1
        if tie[j]:
            c_tie += 1
    rep.count('q:none', c_none)
    rep.count('q:all', c_all)
    rep.count('q:some', c_some)
    rep.count('q:covered+partial', c_cp)
    rep.count('q:tie', c_tie)
    return ok


def check_pickle(rep, b):
    t2 = pickle.loads(pickle.dumps(b.tree_obj))
    for q, (it, cv, ov) in zip(b.queries[:6], b.impl[:6]):
        it2 = [int(x) for x in t2.intersects(tuple(q))]
        cv2, ov2 = t2.covers_overlaps(tuple(q))
        if it2 != it or [int(x) for x in cv2] != cv or [int(x) for x in ov2] != ov \
                or not _same_floats([float(x) for x in t2.total_bounds], b.tb):
            rep.violation('pickle-differs', 'a pickled and reloaded index answers differently',
                          {**b.meta(), 'failing_query': q})
            return
    rep.count('pickle_roundtrip')


def gen_builds(rep, tier):
    """(d, rows, page_size, p, queries, tag)"""
    rng = rep.rng
    quick = tier == 'quick'
    nanrow = [U.NAN, U.NAN]
    ivs = [[float(a), float(b)] for a, b in U.intervals()] + [nanrow]
    q1 = Q1D
    # (i) d = 1: every sequence of n <= 3 rows (10 intervals + NaN) x page_size 1..n+1 x every
    #     query; n = 4: every multiset (quick) / every sequence (thorough)
    for n in range(0, 5):
        if n < 4 or not quick:
            seqs = itertools.product(ivs, repeat=n)
        else:
            seqs = itertools.combinations_with_replacement(ivs, n)
        for rows in seqs:
            rows = [list(r) for r in rows]
            if n == 4 and quick:
                rng.shuffle(rows)
            for ps in range(1, n + 2):
                yield (1, rows, ps, rng.choice([1, 2, 10, 31]), q1, 'exh1d')
    # one partially-NaN row among intervals
    for n in range(1, 4):
        for rows in itertools.product(ivs[:4] + [[U.NAN, 1.0], [2.0, U.NAN]], repeat=n):
            for ps in range(1, n + 2):
                yield (1, [list(r) for r in rows], ps, 10, q1, 'partial-nan-1d')
    # (ii) d = 2, 3 (and some d = 1 with larger n): seeded stream
    nbuilds = 5000 if quick else 150000
    nmax = 12 if quick else 60
    for i in range(nbuilds):
        d = rng.choice([2, 2, 3, 3, 1])
        n = rng.choice([0, 1, 2, 3, 4, 5, 6, 7, 8, 9, 10, 11, 12]) if (quick or rng.random() < 0.5) \
            else rng.randint(0, nmax)
        rows = U.rand_rows(rng, d, n)
        base, extra = U.page_sizes(rng, n)
        ps = rng.choice(base) if rng.random() < 0.7 else rng.choice(extra)
        if rng.random() < 0.02:
            ps = rng.choice([0, -3])      # coerced to 1 by the constructor
        p = rng.choice([1, 2, 10, 31])
        nq = 40 if n <= 12 else 25
        queries = U.rand_queries(rng, d, rows, nq)
        if rng.random() < 0.2:
            # the same configuration elsewhere on the line: negative / large coordinates
            a, b0 = rng.choice([1, 4, 1024]), rng.choice([-7, -1000, 2 ** 20, -3])
            rows = [[a * x + b0 for x in r] for r in rows]
            queries = [[a * x + b0 for x in q] for q in queries]
        yield (d, rows, ps, p, queries, 'stream')
    # reversed boxes (min > max): outside the theorems' hypothesis, model comparison only
    for i in range(150 if quick else 3000):
        d = rng.choice([1, 2])
        n = rng.randint(1, 6)
        rows = [[float(rng.choice(U.GRID)) for _ in range(2 * d)] for _ in range(n)]
        yield (d, rows, rng.randint(1, n + 1), 10, U.rand_queries(rng, d, rows, 20), 'reversed-rows')


def run(rep):
    import time as _t
    tier = getattr(rep, 'tier_run', rep.tier)
    rep.rule = ('index builds over boxes with integer corners in {0..3}^d (zero extent, duplicates, '
                'shared edges/corners, all identical, fully / partially NaN rows at any position; one '
                'build in five moved by x -> a*x+b to negative / large coordinates), page_size in '
                '1..n+1 and {n-1,n,n+1,512,0,-3}, p in {1,2,10,31}; queries on the half grid -0.5..3.5 '
                '(ties with every row side, degenerate, disjoint, all-covering, reversed); d=1 '
                'exhaustive for n<=3 (n=4: multisets in quick, sequences in thorough) x every page '
                'size x all 81 queries; d=1,2,3 seeded stream with n<=12 (thorough n<=60), ~40 queries '
                'per build; every (n,page_size) with n<=200 over n unit intervals, 9 queries each.  '
                'Compared through the public API only (intersects, covers_overlaps, total_bounds, '
                'pickle) with the model on keys=identity (C03_independent) and with a brute-force '
                'oracle; internals (_keys, _bounds_tree, node ranges) are optional extras.  One '
                'evaluation = one query on one build (three results).  A query is non-trivial when it '
                'matches some but not all finite rows; distinct = distinct (d, page_size, rows, query).  '
                'SECOND CLASS (harness/c03_float.py), same public comparison, oracle = brute force on the '
                'doubles + the model on the ranks of the distinct values (C03_monotone): query boxes with '
                'any subset of sides at -inf / +inf (half-lines, half-planes, everything, wrong way round), '
                'huge (+-1e308, +-float max, 2^53, 1e16) / tiny (subnormal, 1e-11) / +-0.0 / many-digit '
                'decimal sides, sides one ulp below / on / above a row side; rows with such coordinates '
                'and rows with infinite sides beside NaN rows; d=1 exhaustive for n<=2 over row ends '
                '{-inf,0,1,inf} x 64 queries over {-inf,-1e308,0,.5,1,1+ulp,1e308,inf} x every page size; '
                'd=1,2,3 streams (300 grid builds with unbounded queries, 400 off-grid builds, 20-24 '
                'queries each); 511/513/1030 rows at page size 512; the query passed as tuple / list / '
                'ndarray / numpy scalars / strided view / float32 array / ints.  NaN query sides are not '
                'asked (not a box).  Box sets of total width 0 on an axis at |coordinate| >= 2^53 '
                '(the +1 widening is absorbed; the constructor raised ZeroDivisionError until /repo '
                '7cf01a0) are an ordinary class: 40 builds, oracle + model')
    pub, pub1, itree, ifull = [], [], [], []
    nb = 0
    seen = set()

    import concurrent.futures as _cf
    pool = _cf.ThreadPoolExecutor(max_workers=1)
    pending = []      # (kind, what, group, future): kernel evaluations running beside the Python side

    def _mism(fn, cty, rty, group):
        return C.coq_mismatches(IMPORTS, fn, cty, rty, [g[1] for g in group], [g[2] for g in group],
                                shard=max(40, min(400, len(group) // (3 * C.NCPU) + 1)), timeout=1500)

    def flush_public(group, fn, cty):
        # kernel evaluation of the model on the accumulated builds (bounded memory); runs in the
        # background (coqc subprocesses) while the next builds are produced
        if not group:
            return
        mine = list(group)
        del group[:]
        pending.append(('public', fn, mine, pool.submit(_mism, fn, cty, PUB_RES, mine)))

    def flush_internal(group, fn, cty, rty, what):
        if not group:
            return
        mine = list(group)
        del group[:]
        pending.append(('internal', what, mine, pool.submit(_mism, fn, cty, rty, mine)))

    def join():
        err = None
        for kind, what, group, fut in pending:
            try:
                bad = fut.result()
            except C.ModelUnavailable as e:
                if kind == 'internal':
                    rep.count('internal-unavailable:' + what, len(group))
                    continue
                err = err or e
                continue
            if kind == 'internal':
                rep.count('internal-compared:' + what, len(group))
                if bad:
                    rep.count('internal-differs-public-agrees', len(bad))
                    rep.extra.setdefault('internal_differs_example',
                                         {'what': what, **C.jsonable(dict(zip(
                                             ('d', 'rows', 'page_size', 'p'), group[bad[0]][0][:4])))})
                continue
            for i in bad:
                if len(seen) > 6:
                    break
                sig, what2, rp = diagnose(Build(*group[i][0]).run())
                if sig in seen:
                    continue
                seen.add(sig)
                rep.violation(sig, what2, rp)
        del pending[:]
        if err:
            raise err

    for d, rows, ps, p, queries, tag in gen_builds(rep, tier):
        nb += 1
        every = 1 if (queries is not Q1D or nb % 3 == 0 or ps >= len(rows)) else 9
        b = Build(d, rows, ps, p, queries, tag).run(recheck_every=every)
        rep.evaluations += len(queries)
        rep.count('build:' + tag)
        rep.count(f'd={d}')
        if any(U.isnan_row(r) for r in rows):
            rep.count('build:has_nan_row')
        if rows and all(U.isnan_row(r) for r in rows):
            rep.count('build:all_nan')
        if b.error:
            rep.violation(f'raises:{b.error[0]}', f'index build or query raised {b.error}',
                          {**b.meta(), 'error': b.error})
            continue
        if not report_state(rep, b):
            continue
        eff = max(1, ps)
        pages = -(-len(rows) // eff)
        if len(rows) and len(rows) % eff:
            rep.count('build:ragged_last_page')
        if len(rows) and pages & (pages - 1):
            rep.count('build:absent_pages')
        for m in b.missing:
            rep.count('internal-unavailable:' + m)
        wf = U.well_formed(rows, d)
        if not check_oracle(rep, b):
            rep.count('oracle_failed')
            if rep.hist['oracle_failed'] >= 25:
                break       # the property is already refuted on the real code: stop enumerating
        if nb % 10 == 0:
            check_pickle(rep, b)
        if nb % 997 == 0:
            rep.sample({**b.meta(), 'queries': b.queries[:2], 'impl': b.impl[:2],
                        'total_bounds': b.tb}, cap=4)
        # keep only the texts for the kernel and what is needed to re-run the build
        light = (d, rows, ps, p, queries, tag)
        if wf:
            if queries is Q1D:
                pub1.append((light, b.case_public_1d(), b.result_public()))
            else:
                pub.append((light, b.case_public(), b.result_public()))
            if b.keys is not None and b.tree is not None and nb % 3 == 0:
                itree.append((light, b.case_tree(), b.result_tree()))
        elif b.keys is not None and b.tree is not None:
            # reversed rows: outside the theorems, the answer depends on the permutation
            ifull.append((light, b.case_full(), b.result_full()))
        del b
        if len(pub) >= 2500:
            flush_public(pub, PUB_FN, PUB_TY)
        if len(pub1) >= 4000 or (pub1 and queries is not Q1D):
            flush_public(pub1, PUB1_FN, PUB1_TY)
        if len(itree) >= 20000:
            flush_internal(itree, TREE_FN, TREE_TY, TREE_RES, '_bounds_tree')
        if len(pending) >= 8:
            join()          # bounded memory in the thorough tier
    flush_public(pub1, PUB1_FN, PUB1_TY)
    flush_public(pub, PUB_FN, PUB_TY)
    rep.extra['builds'] = nb
    if rep.violations:
        # already refuted through the public API: the remaining sweeps add nothing
        join()
        rep.count('skipped-after-violation:sizes,internals')
        run_log2(rep, tier)
        return
    flush_internal(itree, TREE_FN, TREE_TY, TREE_RES, '_bounds_tree')
    flush_internal(ifull, FULL_FN, CASE_TY, FULL_RES, 'reversed-rows')
    rep.extra['cpu_python_s'] = round(_t.process_time(), 1)
    rep.extra['t_builds_s'] = round(_t.time() - rep.t0, 1)
    run_reused(rep, tier)
    # second input class: unbounded / huge / tiny / one-ulp / decimal coordinates (c03_float.py)
    finish_float = None
    if not rep.violations:
        finish_float = F.run_float(rep, tier, sys.modules[__name__], defer=True)
        rep.extra['t_float_s'] = round(_t.time() - rep.t0, 1)
    if rep.violations:
        join()
        rep.count('skipped-after-violation:sizes,internals')
        run_log2(rep, tier)
        return
    run_sizes(rep, tier)
    rep.extra['t_sizes_s'] = round(_t.time() - rep.t0, 1)
    if callable(finish_float):
        finish_float()          # the kernel side of c03_float ran beside run_sizes
    join()
    rep.extra['t_joined_s'] = round(_t.time() - rep.t0, 1)
    if rep.violations:
        run_log2(rep, tier)
        return
    run_ranges(rep, tier)
    rep.extra['t_ranges_s'] = round(_t.time() - rep.t0, 1)
    run_log2(rep, tier)
    rep.extra['t_log2_s'] = round(_t.time() - rep.t0, 1)


def report_state(rep, b):
    """violations of the stateful part of a build (False when one was reported)"""
    if b.shared:
        rep.count('extra:results-share-memory')
    if b.state_error:
        kind, js, detail = b.state_error
        what = {'input-aliased': 'after the caller overwrote its input array the index answers differently',
                'input-modified': 'building the index modified the caller\'s input array',
                'second-index-from-same-buffer': 'building a second index from the refilled buffer '
                                                 'changed the answers of the first',
                'total_bounds-changes': 'total_bounds changed between two reads',
                'raises-later': 'a query that worked raised when asked again'}.get(kind, kind)
        rep.violation('state:' + kind, what,
                      {**b.meta(), 'queries': [b.queries[j] for j in js if j < len(b.queries)],
                       'detail': detail})
        return False
    rep.count('state:rechecked-after-input-overwrite')
    return True


def run_reused(rep, tier):
    """two indexes built one after the other from ONE caller buffer refilled in between: each
    answers for the boxes it was built from (oracle), before and after the other exists"""
    rng = rep.rng
    for i in range(250 if tier == 'quick' else 5000):
        d = rng.choice([1, 2, 2, 3])
        n = rng.randint(1, 10)
        rows_a = [r for r in U.rand_rows(rng, d, n)]
        rows_b = [r for r in U.rand_rows(rng, d, n)]
        if not (U.well_formed(rows_a, d) and U.well_formed(rows_b, d)):
            continue
        ps = rng.choice([n, n + 1, 512, rng.randint(1, n), 2])
        qs = U.rand_queries(rng, d, rows_a + rows_b, 16)
        buf = np.empty((n, 2 * d), dtype='float64')
        b1 = Build(d, rows_a, ps, 10, qs, 'reused-buffer:first').run(buf=buf)
        b2 = Build(d, rows_b, ps, rng.choice([1, 10]), qs, 'reused-buffer:second').run(buf=buf)
        b1.recheck(why='second-index-from-same-buffer')
        rep.evaluations += 3 * len(qs)
        rep.count('build:reused-buffer', 2)
        for b in (b1, b2):
            if b.error:
                rep.violation(f'raises:{b.error[0]}', f'index build or query raised {b.error}',
                              {**b.meta(), 'error': b.error})
                return
            if not report_state(rep, b) or not check_oracle(rep, b):
                return


def parse_model(txt):
    """Coq's printed result of rtree_case -> python (tree, tb, per-query)"""
    s = txt.replace('%nat', '').replace('%Z', '')
    s = s.replace('Some ', '').replace(';', ',')
    return eval(s, {'None': None, '__builtins__': {}})  # text printed by coqc for our own term


def _plain(r):
    return [None if x != x else int(round(float(x) * U.SCALE)) for x in r]


def diagnose(b):
    """which public result differs from the model (one readable kernel evaluation, keys = identity)"""
    case = (N(b.d), [_frow(r) for r in b.rows], [N(k) for k in range(len(b.rows))],
            N(max(0, b.page_size)), [U.zquery(q) for q in b.queries])
    txt = C.coq_eval(IMPORTS, f'{FN} {C.coq(case)}')
    impl_sorted = [[sorted(x) for x in tr] for tr in b.impl]
    rp = {**b.meta(), 'scale': U.SCALE, 'model_keys': 'identity',
          'impl': {'total_bounds': b.tb, 'results': impl_sorted}}
    try:
        _mtree, mtb, mper = parse_model(txt)
        if list(mtb) != _plain(b.tb):
            return ('model:total_bounds', 'total_bounds differs from the proven model',
                    {**rp, 'model': list(mtb)})
        for j, (m, tr) in enumerate(zip(mper, impl_sorted)):
            m = [list(z) for z in m]
            if m != tr:
                rp2 = {**rp, 'failing_query': b.queries[j], 'model': m, 'impl': tr}
                if m[0] != tr[0]:
                    return ('model:intersects', 'intersects differs from the proven model', rp2)
                return ('model:covers_overlaps', 'covers_overlaps differs from the proven model', rp2)
    except Exception as e:  # unparsable: report the raw text
        rp['parse_error'] = repr(e)
    rp['model'] = txt[:4000]
    return ('model:differs', 'query results differ from the proven model', rp)


# --------------------------------------------------------------------------
# every (n, page_size): public
# --------------------------------------------------------------------------
def size_pairs():
    for n in range(1, 201):
        for ps in list(range(1, n + 2)) + [512]:
            yield n, ps


def size_queries(n, ps, k):
    """queries over the n unit intervals [i, i+1]: everything, nothing, the two ends, one page,
    a page boundary, the ragged tail"""
    a = (k * 7919) % n
    return [[-0.5, n + 1.5], [n + 1.5, n + 2.0], [-1.0, -0.5], [0.0, 0.0], [float(n), float(n)],
            [float(a), float(min(n, a + ps))], [a + 0.5, a + 0.5],
            [float(max(0, n - (n % ps or ps))), n + 0.5], [a + 1.0, a + 1.0]]


def run_sizes(rep, tier):
    """the ragged-tree arithmetic seen from outside: for every (n, page_size), n <= 200, an index
    over the unit intervals [i, i+1] answers 9 queries as the oracle says (all pairs) and as the
    model says (all pairs with n <= 24 and a seeded sample of the others)"""
    from spatialpandas.spatialindex import HilbertRtree
    rng = rep.rng
    cases, results, metas = [], [], []
    k = 0
    for n, ps in size_pairs():
        k += 1
        rows = [[float(i), float(i + 1)] for i in range(n)]
        qs = size_queries(n, ps, k)
        try:
            t = HilbertRtree(np.array(rows), p=rng.choice([1, 10]), page_size=ps)
            per = []
            for q in qs:
                it = t.intersects(tuple(q))
                cv, ov = t.covers_overlaps(tuple(q))
                per.append(([int(x) for x in it], [int(x) for x in cv], [int(x) for x in ov]))
            tb = [float(x) for x in t.total_bounds]
        except Exception as e:
            rep.violation(f'raises:{type(e).__name__}', f'index build or query raised {e!r}'[:300],
                          {'d': 1, 'rows': rows, 'page_size': ps, 'p': 10, 'queries': qs})
            return
        rep.evaluations += len(qs)
        inter, cov, _tie = U.brute_batch(rows, qs, 1)
        for j, (q, (it, cv, ov)) in enumerate(zip(qs, per)):
            ei = np.flatnonzero(inter[j]).tolist()
            ec = np.flatnonzero(cov[j]).tolist()
            eo = np.flatnonzero(inter[j] & ~cov[j]).tolist()
            if sorted(it) != ei or sorted(cv) != ec or sorted(ov) != eo or len(set(it)) != len(it):
                rep.violation('oracle:sizes', 'a query over n unit intervals is answered wrongly',
                              {'d': 1, 'rows': rows, 'page_size': ps, 'p': 10, 'queries': [q],
                               'impl': [sorted(it), sorted(cv), sorted(ov)], 'expected': [ei, ec, eo]})
                return
        if tb != [0.0, float(n)]:
            rep.violation('oracle:total_bounds', 'total_bounds is not the union of the finite boxes',
                          {'d': 1, 'rows': rows, 'page_size': ps, 'p': 10, 'queries': qs[:1], 'impl': tb})
            return
        if n <= 24 or rng.random() < (0.01 if tier == 'quick' else 0.2):
            b = Build(1, rows, ps, 10, qs, 'sizes')
            b.tb, b.impl = tb, per
            cases.append(b.case_public())
            results.append(b.result_public())
            metas.append((1, rows, ps, 10, qs, 'sizes'))
    rep.count('sizes:(n,page_size)', k)
    rep.count('sizes:model_compared', len(cases))
    bad = C.coq_mismatches(IMPORTS, PUB_FN, PUB_TY, PUB_RES, cases, results,
                           shard=max(10, len(cases) // (3 * C.NCPU) + 1), timeout=1500)
    for i in bad[:1]:
        sig, what, rp = diagnose(Build(*metas[i]).run())
        rep.violation(sig, what, rp)


# --------------------------------------------------------------------------
# optional: the private node arithmetic
# --------------------------------------------------------------------------
def run_ranges(rep, tier):
    """OPTIONAL (internals): tree length, _leaf_start(), _start_index/_stop_index of every node
    for every (n, page_size), n <= 200, against the partition laws and the model.  Skipped and
    counted when the private attributes are not there; disagreements are counted, not reported."""
    from spatialpandas.spatialindex import HilbertRtree
    shape_cases, shape_res = [], []
    reps = {}
    nlaw = 0
    for n, ps in size_pairs():
        try:
            t = HilbertRtree(np.zeros((n, 2)), p=1, page_size=ps)
            ls, rg = U.node_ranges(t.numba_rtree)
            ls = int(ls)
            rg = np.asarray(rg)
            m = rg.shape[0]
            assert rg.ndim == 2 and rg.shape[1] == 2
        except Exception:
            rep.count('internal-unavailable:node_ranges')
            return
        if tier != 'quick' or n <= 32 or (n * 31 + ps) % 20 == 0:
            shape_cases.append((N(n), N(ps)))
            shape_res.append((N(m), N(ls)))
        node = np.arange(m)
        internal = node[2 * node + 2 < m]
        leaves = node[2 * node + 2 >= m]
        pages, nleaves = -(-n // ps), (m + 1) // 2
        okr = (m % 2 == 1 and ls == (m - 1) // 2
               and np.array_equal(rg[internal, 0], rg[2 * internal + 1, 0])
               and np.array_equal(rg[internal, 1], rg[2 * internal + 2, 1])
               and np.array_equal(rg[2 * internal + 1, 1], rg[2 * internal + 2, 0])
               and np.array_equal(rg[leaves, 0], (leaves - ls) * ps)
               and np.array_equal(rg[leaves, 1], (leaves - ls + 1) * ps)
               and rg[0, 0] == 0 and rg[0, 1] >= n
               and nleaves >= pages and (nleaves == 1 or nleaves // 2 < pages))
        key = (m, ps)
        if key not in reps:
            reps[key] = (n, rg)
        elif not np.array_equal(reps[key][1], rg):
            okr = False
        if not okr:
            nlaw += 1
    rep.count('internal-compared:node_ranges', len(reps))
    rep.count('internal-compared:tree_shape', len(shape_cases))
    try:
        bad = C.coq_mismatches(IMPORTS, 'shape_case', 'nat * nat', 'nat * nat', shape_cases, shape_res,
                               shard=max(50, len(shape_cases) // (3 * C.NCPU) + 1), timeout=1500)
        keys = sorted(reps)
        cases = [(N(reps[k][0]), N(k[1])) for k in keys]
        results = [C.Raw('[' + '; '.join(f'({a}, {b})' for a, b in reps[k][1].tolist()) + ']%nat')
                   for k in keys]
        bad2 = C.coq_mismatches(IMPORTS, 'node_ranges_case', 'nat * nat', 'list (nat * nat)', cases,
                                results, shard=max(10, len(cases) // (3 * C.NCPU) + 1), timeout=1500)
    except C.ModelUnavailable:
        rep.count('internal-unavailable:node_ranges')
        return
    ndiff = nlaw + len(bad) + len(bad2)
    if ndiff:
        rep.count('internal-differs-public-agrees', ndiff)
        rep.extra.setdefault('internal_differs_example',
                             {'what': 'node_ranges', 'laws_broken': nlaw, 'shape_differs': len(bad),
                              'ranges_differ': len(bad2)})


def run_log2(rep, tier):
    kmax = 2 ** 16 if tier == 'quick' else 2 ** 20
    tab = U.numba_log2_up_table(kmax)
    for k in range(1, kmax + 1):
        if int(tab[k]) != (k - 1).bit_length():
            rep.violation('log2_up', 'int(ceil(log2(k))) differs from the integer log2_up',
                          {'k': k, 'impl': int(tab[k]), 'expected': (k - 1).bit_length(), 'log2_check': True})
            return
    # Nat.log2_up itself against the same integer definition
    ks = list(range(1, 1025)) + [2 ** j + e for j in range(10, 13) for e in (-1, 0, 1)]
    got = C.coq_eval('Model.Rtree', 'map Nat.log2_up [' + '; '.join(f'{k}%nat' for k in ks) + ']')
    vals = [int(x) for x in got.replace('%nat', '').strip('[] ').split(';')]
    if vals != [(k - 1).bit_length() for k in ks]:
        rep.violation('log2_up:model', 'Nat.log2_up differs from the integer log2_up', {'log2_check': True})
    rep.count('log2_values', kmax)
    # the real build around the powers of two (page_size 1): public answers; tree length as an extra
    from spatialpandas.spatialindex import HilbertRtree
    top = 13 if tier == 'quick' else 17
    for j in range(0, top):
        for e in (-1, 0, 1):
            n = 2 ** j + e
            if n < 1:
                continue
            t = HilbertRtree(np.column_stack([np.arange(n, dtype=float), np.arange(n, dtype=float) + 1]),
                             p=10, page_size=1)
            for q in ((-1.0, n + 2.0), (n - 0.5, n + 5.0), (0.25, 0.5), (n / 2, n / 2), (n + 1.5, n + 2.0)):
                lo, hi = max(0, math.ceil(q[0]) - 1), min(n - 1, math.floor(q[1]))
                exp = list(range(lo, hi + 1)) if q[0] <= n and q[1] >= 0 else []
                got_i = sorted(int(x) for x in t.intersects(q))
                cv, ov = t.covers_overlaps(q)
                if got_i != exp or sorted([int(x) for x in cv] + [int(x) for x in ov]) != exp:
                    rep.violation('oracle:pow2', 'a query on an index of about 2^j rows is answered wrongly',
                                  {'n': n, 'page_size': 1, 'query': list(q), 'log2_check': True,
                                   'impl_len': len(got_i), 'expected_len': len(exp)})
                    return
            bt = getattr(t, '_bounds_tree', None)
            if bt is None or getattr(bt, 'ndim', 0) != 2:
                rep.count('internal-unavailable:_bounds_tree(length)')
            elif bt.shape[0] != 2 * 2 ** ((n - 1).bit_length()) - 1:
                rep.count('internal-differs-public-agrees')


def replay(rep, rp):
    if rp.get('log2_check'):
        rep.tier_run = 'quick'
        run_log2(rep, 'quick')
        for v in rep.violations:
            print(v['signature'], v['what'])
        return not rep.violations

    def un(e):
        if isinstance(e, list):
            return [un(x) for x in e]
        if isinstance(e, str):
            return float(e)
        return e
    rows, queries = un(rp['rows']), un(rp['queries'])
    if str(rp.get('tag', '')).startswith('float:'):
        return F.replay(rep, rp, sys.modules[__name__], rows, queries)
    b = Build(rp['d'], rows, rp['page_size'], rp['p'], queries, rp.get('tag', 'replay')).run()
    if b.error:
        print('impl raised', b.error)
        return False
    if b.state_error:
        print('stateful sequence (batch kept, input overwritten, batch asked again):', b.state_error)
        return False
    if rp.get('tag', '').startswith('reused-buffer'):
        buf = np.empty((len(rows), 2 * rp['d']), dtype='float64')
        b = Build(rp['d'], rows, rp['page_size'], rp['p'], queries, 'replay').run(buf=buf)
        other = Build(rp['d'], [[0.0] * (2 * rp['d'])] * len(rows), rp['page_size'], 1, queries, 'replay').run(buf=buf)
        b.recheck(why='second-index-from-same-buffer')
        if b.state_error or other.state_error:
            print('reused buffer:', b.state_error or other.state_error)
            return False
    ok = check_oracle(rep, b)
    check_pickle(rep, b)
    bad = []
    if U.well_formed(rows, b.d):
        bad = C.coq_mismatches(IMPORTS, PUB_FN, PUB_TY, PUB_RES, [b.case_public()], [b.result_public()])
    print('impl :', b.tb, [[sorted(x) for x in tr] for tr in b.impl])
    if bad:
        sig, what, rp2 = diagnose(b)
        print(sig, what)
        print('model (keys = identity, coordinates x%d):' % U.SCALE, rp2.get('model'))
    for q in queries:
        print('brute:', q, U.brute(rows, q, b.d) if U.well_formed(rows, b.d) else 'n/a (reversed row)')
    for v in rep.violations:
        print(v['signature'], v['what'])
    return ok and not bad and not rep.violations
