"""C05 on coordinates that are not small integers.

Model/Sjoin.v (and therefore the main run of harness/c05.py) sees integer coordinates of
magnitude < 20.  A change that only shows on other numbers - an absolute tolerance in a kernel
('abs(cross) <= 1e-12'), a relative one, a float32 intermediate, a magnitude-dependent shortcut
('segment shorter than 1e-9 = a point'), rounding of the query box - is invisible there.  Three
classes are added, each with an oracle that needs no tolerance:

 (S) SIMILARITY: the predicates are invariant under  v -> v * 2^k + t  applied to every
     coordinate of both frames, and for integer base coordinates and dyadic t with every image
     exactly representable ALL the arithmetic of the kernels stays exact (differences of
     representable numbers with a common quantum, products of < 2^26-sized multiples of it).
     The same frames pushed through 2^-30, 2^-20, 2^-40, 2^+20, 2^-200, 2^+200, through large
     dyadic translations (extent tiny relative to the magnitude: 2^-20 steps around 2^30) must
     give exactly the pair table of the base frames - which is compared with the Coq model
     (Model/Sjoin.v) in the same run.  Signature  rows-scale-invariance:<how>:<kind>.

 (Z) NEAR-TIES AT LARGE MAGNITUDE: integer coordinates up to 2^25 (float64 products still
     exact), long primitive segments  A -> A + m*(a, b)  with gcd(a, b) = 1, the lattice points
     ON them and the nearest lattice points OFF them (cross product exactly +1 / -1, inside the
     segment's bounding box), as lines, rings, multilines, triangle / multipolygon edges (one
     unit inside, one unit outside) and multipoints; float64 / int64 / int32.  Oracle: the Coq
     model over Z (the ordinary run_call path).

 (F) ARBITRARY binary64: decimal degrees with 1e-6 steps, 0.1-grids (collinear only up to
     rounding), 1e-7-sized coordinates, 2^-20 steps around integers, random 53-bit doubles,
     each optionally scaled by a power of two; shapes of every kind over such a lattice; left
     points on the vertices, interpolated ON segments in floating point and moved by -2..2
     ulps, inside a segment's bounding box but off the segment.  Oracle: Model/SjoinFloat.v -
     the pair table over Coq's primitive floats (Model/FloatKernels.v kernels) evaluated by the
     kernel, compared bit for bit (a pair more or less is a difference).
     Signature  rows-float-model:<how>:<kind>.

Every random choice comes from rep.rng.
"""
import math
import re
from fractions import Fraction

from . import common as C
from . import c05_util as U

Nat, Rec, Some, Raw = C.Nat, C.Rec, C.Some, C.Raw

FIMPORTS = 'Model.Num Model.FloatKernels Model.SjoinFloat'
FCASE_TY = 'list (option (float * float)) * list (option fshape)'
FRES_TY = 'list (nat * nat)'
FFN = 'fsjoin_case'
INF = float('inf')


def _main():
    from . import c05 as M      # at call time: c05 imports this module
    return M


# --------------------------------------------------------------------------
# nested coordinate lists
# --------------------------------------------------------------------------
def map_xy(el, fx, fy):
    """the element with fx applied to every x and fy to every y"""
    if el is None:
        return None
    if el and isinstance(el[0], (list, tuple)):
        return [map_xy(e, fx, fy) for e in el]
    return [fx(c) if i % 2 == 0 else fy(c) for i, c in enumerate(el)]


def flat(el):
    out = []

    def rec(x):
        if isinstance(x, (list, tuple)):
            for y in x:
                rec(y)
        elif x is not None:
            out.append(x)
    rec(el)
    return out


def ulps(x, k):
    for _ in range(abs(k)):
        x = math.nextafter(x, INF if k > 0 else -INF)
    return x


def degenerate_extent(left_elems):
    """the present left points share one x (or one y) of magnitude >= 2^53 (only counted): the
    spatial index widens a zero extent by + 1, which such a coordinate absorbs - sjoin raised
    ZeroDivisionError there until /repo 7cf01a0; probe_degenerate_extent holds the class in
    every run, the scaled and random streams meet it now and then"""
    pts = [p for p in left_elems if p is not None]
    for ax in (0, 1):
        vals = {float(p[ax]) for p in pts}
        if len(vals) == 1 and abs(next(iter(vals))) >= 2.0 ** 53:
            return True
    return False


def probe_degenerate_extent(rep):
    """left frames whose points have NO extent in x or in y, at magnitudes on both sides of 2^53
    (one point; several points on one vertical / horizontal line; both signs), joined with a
    square around them and a square beside them: exactly one row per point (run_call also compares
    with the brute-force pair set of the scalar form).  Deterministic."""
    M = _main()
    for mag in (2.0 ** 30, 2.0 ** 52, 2.0 ** 53, -2.0 ** 54, 2.0 ** 60, 1e29, 2.0 ** 200):
        for name, pts in (('one-point', [[mag, 1.0], None]),
                          ('common-x', [[mag, 1.0], [mag, 2.0], None, [mag, 3.0]]),
                          ('common-y', [[1.0, -mag], [2.0, -mag], [3.0, -mag]]),
                          ('one-point-twice', [[mag, -mag], [mag, -mag]])):
            xs, ys = [p[0] for p in pts if p], [p[1] for p in pts if p]
            h = max(4.0, abs(mag) / 2 ** 20)
            box = [M.sq(min(xs) - h, min(ys) - h, max(xs) + h, max(ys) + h)]
            beside = [M.sq(max(xs) + 2 * h, min(ys) - h, max(xs) + 3 * h, max(ys) + h)]
            lspec, rspec, ls, rs = M.make_specs(M.META[0], pts, 'float64', 'polygon', [box, None, beside],
                                                'float64')
            fr = M.Frames(lspec, rspec, export=False)
            batch = []
            rows = M.run_call(rep, fr, 'inner', ls, rs, batch, ('degenerate-extent', name, mag), model=False)
            rep.count('degenerate-extent:' + name)
            want = [(i, 0) for i, p in enumerate(pts) if p is not None]
            replay = {'left': lspec, 'right': rspec, 'how': 'inner', 'lsuffix': ls, 'rsuffix': rs, 'model': False}
            if rows is None and batch and 'raised' in batch[0][5]:
                exc = batch[0][5]['raised'].split(':')[0]
                rep.count(f'degenerate-extent:raises:{exc}')
                if rep.hist[f'degenerate-extent:raises:{exc}'] > 1:
                    continue          # one report per class; the count is in the evidence
                rep.violation(f'raises-degenerate-extent:{exc}',
                              f'sjoin raises {exc} for a left frame whose points have no extent in one '
                              f'dimension at magnitude {mag!r} ({name}: {pts!r})', {**replay, 'raised': exc})
            elif rows is not None and rows != want:
                rep.violation('rows-degenerate-extent', f'rows {rows}, expected {want}', replay)


# --------------------------------------------------------------------------
# (S) similarity transforms  v -> v * 2^k + t
# --------------------------------------------------------------------------
# (k, tx, ty) - float64 frames
XFORMS_F64 = [(-30, 0, 0), (-20, 0, 0), (-40, 0, 0), (20, 0, 0), (30, 0, 0), (-200, 0, 0), (200, 0, 0),
              (-20, 2 ** 30, -2 ** 29), (-30, 2 ** 20, 2 ** 21), (0, 2 ** 40, -2 ** 40),
              (10, 2 ** 50, 2 ** 50), (-10, 10 ** 6 + 0.5, -123456.25), (-24, 77, 50)]
XFORMS_F32 = [(-30, 0, 0), (-20, 0, 0), (20, 0, 0), (-10, 64, -32)]
XFORMS_INT = {'int64': [(20, 0, 0), (10, 2 ** 40, -2 ** 40), (0, -2 ** 33, 2 ** 33)],
              'int32': [(20, 0, 0), (8, 2 ** 20, -2 ** 20)],
              'int16': [(8, 0, 0), (4, 1000, -1000)]}


def xforms_for(subtype):
    if subtype == 'float64':
        return XFORMS_F64
    if subtype == 'float32':
        return XFORMS_F32
    return XFORMS_INT[subtype]


def apply_xform(elems, xf, subtype):
    """elems (integer coordinates) under v -> v * 2^k + t; None if an image is not exactly
    representable in the subtype (then the transform is not used for this frame)"""
    import numpy as np
    k, tx, ty = xf
    s = Fraction(2) ** k
    ok = [True]

    def mk(t):
        def f(v):
            want = Fraction(v) * s + Fraction(t)
            if subtype.startswith('float'):
                got = float(np.dtype(subtype).type(float(want)))
                if not math.isfinite(got) or Fraction(got) != want:
                    ok[0] = False
                return got
            if want.denominator != 1 or not (np.iinfo(subtype).min <= want <= np.iinfo(subtype).max):
                ok[0] = False
                return 0
            return int(want)
        return f
    out = [map_xy(e, mk(tx), mk(ty)) for e in elems]
    return out if ok[0] else None


def scaled_bases(rng, tier):
    """(lspec, rspec, ls, rs, how): base frames over small integers - the catalogue of every
    kind against the 5x5 grid, and a random structured stream"""
    M = _main()
    k = 0
    grid = [None if p is None else list(p) for p in M.LEFT_GRID]
    for kind in M.KINDS:
        cat = [e for e in M.CATALOGUE[kind]]
        for lsub, rsub in (('float64', 'float64'), ('float32', 'float32'), ('int64', 'int32'),
                           ('float64', 'int64')):
            if kind == 'point' and rsub != 'float64' and not lsub.startswith('int'):
                rsub = 'float64'
            meta = M.META_GEOM[k % len(M.META_GEOM)]
            k += 1
            yield (*M.make_specs(meta, grid, lsub, kind, cat + [None], rsub), M.HOW3[k % 3])
    nrand = 40 if tier == 'quick' else 400
    for _ in range(nrand):
        kind = rng.choice(M.KINDS)
        le = M.rand_points(rng, rng.choice([3, 5, 8, 12]), missing_p=rng.choice([0, 0.15]))
        ri = [M.rand_right_element(rng, kind, le) for _ in range(rng.choice([1, 2, 3, 5]))]
        meta = M.META_GEOM[k % len(M.META_GEOM)]
        k += 1
        lsub = rng.choice(['float64', 'float64', 'float32', 'int64', 'int32'])
        rsub = rng.choice(['float64', 'float64', 'float32', 'int64', 'int32'])
        yield (*M.make_specs(meta, le, lsub, kind, ri, rsub), rng.choice(M.HOW3))


def transformed_specs(lspec, rspec, xf):
    """both frames under the transform; None if it does not apply exactly"""
    le = apply_xform(lspec['elems'], xf, lspec['subtype'])
    ri = apply_xform(rspec['elems'], xf, rspec['subtype'])
    if le is None or ri is None:
        return None
    return {**lspec, 'elems': le}, {**rspec, 'elems': ri}


def compare_scaled(rep, lspec, rspec, ls, rs, how, xf, base_rows, meta_desc='scaled'):
    """the real sjoin on the transformed frames must give the base frames' rows"""
    M = _main()
    t = transformed_specs(lspec, rspec, xf)
    if t is None:
        rep.count('scaled:transform-not-exact(skipped)')
        return None
    tl, tr = t
    if degenerate_extent(tl['elems']):
        rep.count('scaled:left-points-without-extent-at>=2^53')
    fr = M.Frames(tl, tr, export=False)
    batch = []
    rows = M.run_call(rep, fr, how, ls, rs, batch, (meta_desc, tuple(xf)), model=False)
    if rows is None:
        if batch:
            rep.violation(f'rows-scale-invariance:{how}:{rspec["kind"]}',
                          f'sjoin on the frames under v -> v*2^{xf[0]} + ({xf[1]}, {xf[2]}) raised although '
                          'it returns on the base frames',
                          {'left': lspec, 'right': rspec, 'how': how, 'lsuffix': ls, 'rsuffix': rs,
                           'xform': list(xf), 'raised': batch[0][5].get('raised')})
        return None
    rep.count('scaled:' + ('translate' if (xf[1] or xf[2]) else 'scale') + f':2^{xf[0]}')
    if rows != base_rows and rep.hist.get('scaled:differs:' + rspec['kind'], 0) < 3:
        rep.count('scaled:differs:' + rspec['kind'])
        missing = [r for r in base_rows if r not in rows][:4]
        extra = [r for r in rows if r not in base_rows][:4]
        rep.violation(f'rows-scale-invariance:{how}:{rspec["kind"]}',
                      f'the joined rows change when every coordinate of both frames goes through the exact '
                      f'map v -> v*2^{xf[0]} + ({xf[1]}, {xf[2]}): missing {missing}, extra {extra} '
                      '(rows as (left position, right position))',
                      {'left': lspec, 'right': rspec, 'how': how, 'lsuffix': ls, 'rsuffix': rs,
                       'xform': list(xf), 'rows': rows, 'base_rows': base_rows})
    return rows


def run_scaled(rep, batch, frames, tier):
    M = _main()
    rng = rep.rng
    n = 0
    for lspec, rspec, ls, rs, how in scaled_bases(rng, tier):
        try:
            fr = M.Frames(lspec, rspec)
        except Exception as e:  # noqa: BLE001
            rep.count('construct_error:' + type(e).__name__)
            continue
        frames.append(fr)
        base = M.run_call(rep, fr, how, ls, rs, batch, ('scaled-base',))
        if base is None:
            rep.count('scaled:base-without-rows')
            continue
        cands = xforms_for(lspec['subtype']) if lspec['subtype'] != 'float64' else xforms_for(rspec['subtype'])
        if lspec['subtype'].startswith('int') or rspec['subtype'].startswith('int'):
            both = [x for x in cands if x[0] >= 0 and float(x[1]).is_integer() and float(x[2]).is_integer()]
            cands = both or cands
        if n < 28 * 4 and tier != 'quick':
            chosen = cands
        elif n < 28:
            # the catalogue frames: several transforms each, all of them over the run
            chosen = [cands[(n + j) % len(cands)] for j in range(0, len(cands), 3)]
            if (-30, 0, 0) in cands and (-30, 0, 0) not in chosen:
                chosen.append((-30, 0, 0))
        else:
            chosen = [rng.choice(cands)]
        n += 1
        for xf in chosen:
            compare_scaled(rep, lspec, rspec, ls, rs, how, xf, base)


# --------------------------------------------------------------------------
# (Z) near-ties at large magnitude, integer coordinates (oracle: Model/Sjoin.v)
# --------------------------------------------------------------------------
def _egcd(a, b):
    if b == 0:
        return a, 1, 0
    g, x, y = _egcd(b, a % b)
    return g, y, x - (a // b) * y


def primitive_direction(rng, mag):
    """(a, b) coprime with mag/2 <= a, b <= mag and (u, v), 0 <= u < a, 0 <= v <= b, a*v - b*u = 1"""
    while True:
        a, b = rng.randint(mag // 2, mag), rng.randint(mag // 2, mag)
        g, s, t = _egcd(a, b)
        if g != 1 or a < 2 or b < 2:
            continue
        # a*s + b*t = 1  ->  v = s, u = -t ; shift by multiples of (a, b)
        u, v = -t, s
        q = u // a
        u, v = u - q * a, v - q * b
        if a * v - b * u == 1 and 0 <= u < a and 0 <= v <= b:
            return a, b, u, v


def near_tie_frames(rng, n):
    """(kind, left elems, right elems, lsub, rsub)"""
    kinds = ['line', 'ring', 'multiline', 'polygon', 'multipolygon', 'multipoint', 'line', 'polygon']
    for i in range(n):
        kind = kinds[i % len(kinds)]
        mag = 2 ** rng.choice([8, 12, 16, 20, 23, 23])
        a, b, u, v = primitive_direction(rng, mag)
        sgx, sgy = rng.choice((1, -1)), rng.choice((1, -1))     # all four slopes
        m = rng.randint(2, 3)
        ax, ay = rng.randint(-mag, mag), rng.randint(-mag, mag)

        def P(j, w):     # A + j*(a, b) + w*(u, v), reflected
            return [ax + sgx * (j * a + w * u), ay + sgy * (j * b + w * v)]
        A, B = P(0, 0), P(m, 0)
        on = [P(j, 0) for j in range(m + 1)]
        near = [P(j, 1) for j in range(m)] + [P(j + 1, -1) for j in range(m)]     # cross = +-1, in the bbox
        # third vertex: A + m*(a,b) rotated by a quarter turn about A (a right triangle over AB)
        Cv = [ax + sgx * (-m * b), ay + sgy * (m * a)]
        Dv = [ax + sgx * (m * a - m * b), ay + sgy * (m * b + m * a)]
        far = [[ax + 5 * mag, ay - 7 * mag], [Cv[0], ay]]
        if kind == 'line':
            right = [A + B, B + A, A + P(1, 0) + B + Cv, None, A + A, B + Cv]
        elif kind == 'ring':
            right = [A + B + Cv + A, A + Cv + B + A, None, A + B + A]
        elif kind == 'multiline':
            right = [[A + P(1, 0), P(1, 0) + B], [B + Cv, A + B], [[], A + B], None, [Cv + Dv]]
        elif kind == 'polygon':
            right = [[A + B + Cv + A], [A + Cv + B + A], [A + B + Dv + Cv + A], None, [],
                     [A + B + Dv + Cv + A, P(1, 0) + P(2, 0) + P(1, 1) + P(1, 0)]]
        elif kind == 'multipolygon':
            right = [[[A + B + Cv + A], [B + Dv + Cv + B]], [[A + Cv + B + A]], None, [],
                     [[A + B + Dv + Cv + A], []]]
        else:
            right = [A + B, on[1] + near[0], near[0] + near[-1] + Cv, [], None]
        left = on + near + far + [None, list(on[1]), list(near[0]), Cv, Dv,
                                  [(A[0] + B[0]) // 2, (A[1] + B[1]) // 2]]
        rng.shuffle(left)
        lsub = rng.choice(['float64', 'float64', 'int64', 'int32'])
        rsub = rng.choice(['float64', 'float64', 'int64', 'int32'])
        yield kind, left, right, lsub, rsub


def run_near_ties(rep, batch, frames, tier):
    M = _main()
    n = 56 if tier == 'quick' else 600
    for i, (kind, left, right, lsub, rsub) in enumerate(near_tie_frames(rep.rng, n)):
        meta = M.META_GEOM[i % len(M.META_GEOM)]
        lspec, rspec, ls, rs = M.make_specs(meta, left, lsub, kind, right, rsub)
        fr = M.Frames(lspec, rspec)
        frames.append(fr)
        rep.count('near-tie-large-magnitude:' + kind)
        for how in (M.HOW3 if (tier != 'quick' or i % 8 == 0) else [M.HOW3[i % 3]]):
            M.run_call(rep, fr, how, ls, rs, batch, ('near-tie', kind))


# --------------------------------------------------------------------------
# (F) arbitrary binary64 frames (oracle: Model/SjoinFloat.v)
# --------------------------------------------------------------------------
def lit(x):
    x = float(x)
    assert math.isfinite(x)
    h = x.hex()
    return f'({h})%float' if h[0] == '-' else f'{h}%float'


def fshape_term(kind, el):
    """the right element as Model/SjoinFloat.v fshape, from the nested list it was built from"""
    def fl(vs):
        return Raw('[' + '; '.join(lit(v) for v in vs) + ']')
    if kind == 'point':
        return Rec('FPoint', Raw(lit(el[0])), Raw(lit(el[1])))
    if kind == 'multipoint':
        return Rec('FMultiPoint', fl(el))
    if kind in ('line', 'ring'):
        return Rec('FLines', [fl(el)])
    if kind == 'multiline':
        return Rec('FLines', [fl(sub) for sub in el])
    rings = el if kind == 'polygon' else [r for part in el for r in part]
    vals, offs = [], [0]
    for r in rings:
        vals += list(r)
        offs.append(len(vals))
    return Rec('FPolygon', fl(vals), [Nat(o) for o in offs])


def fcase_term(lspec, rspec):
    left = [None if p is None else Some(Raw(f'({lit(p[0])}, {lit(p[1])})')) for p in lspec['elems']]
    right = [None if e is None else Some(fshape_term(rspec['kind'], e)) for e in rspec['elems']]
    return (left, right)


WORLDS = ['gps', 'decimal', 'micro', 'dyadic-tiny', 'rnd', 'gps', 'decimal', 'thirds']


def make_world(rng):
    """(name, fx, fy): monotone maps from small lattice integers to float64 coordinates"""
    w = rng.choice(WORLDS)
    post = 2.0 ** rng.choice([0, 0, 0, 0, -30, 30, -100, 90, -20])
    if w == 'gps':
        bx, by = round(rng.uniform(-180, 180), 6), round(rng.uniform(-85, 85), 6)
        st = rng.choice([1e-6, 1e-6, 1e-5, 2.5e-7])
        fx, fy = (lambda i: round(bx + i * st, 7) * post), (lambda i: round(by + i * st, 7) * post)
    elif w == 'decimal':
        ox, oy = rng.randint(-20, 20), rng.randint(-20, 20)
        fx, fy = (lambda i: ((i + ox) / 10.0) * post), (lambda i: ((i + oy) / 10.0) * post)
    elif w == 'thirds':
        fx, fy = (lambda i: (i / 3.0) * post), (lambda i: (i / 7.0 + 1.0) * post)
    elif w == 'micro':
        st = rng.choice([1e-7, 1e-6, 3e-8])
        fx, fy = (lambda i: (i * st) * post), (lambda i: (i * st) * post)
    elif w == 'dyadic-tiny':
        bx, by = float(rng.randint(-1000, 1000)), float(rng.randint(-1000, 1000))
        h = 2.0 ** rng.choice([-20, -30, -40])
        fx, fy = (lambda i: (bx + i * h) * post), (lambda i: (by + i * h) * post)
    else:
        e = rng.randint(-8, 8)
        tx = sorted(math.ldexp(1.0 + rng.getrandbits(52) / 2.0 ** 52, e) for _ in range(60))
        ty = sorted(math.ldexp(1.0 + rng.getrandbits(52) / 2.0 ** 52, e) for _ in range(60))
        fx, fy = (lambda i: tx[i + 14] * post), (lambda i: ty[i + 14] * post)
    return w + ('' if post == 1.0 else f'*2^{int(math.log2(post))}'), fx, fy


def segments_of(kind, el):
    if el is None:
        return []
    if kind in ('point', 'multipoint'):
        return []
    if kind in ('line', 'ring'):
        subs = [el]
    elif kind in ('multiline', 'polygon'):
        subs = el
    else:
        subs = [r for part in el for r in part]
    out = []
    for s in subs:
        vs = list(zip(s[0::2], s[1::2]))
        out += list(zip(vs[:-1], vs[1:]))
    return out


def float_frames(rng, n):
    """(world, kind, left points, right elements) over float64 lattices"""
    M = _main()
    for i in range(n):
        kind = M.KINDS[i % len(M.KINDS)] if i % 3 else rng.choice(['line', 'multiline', 'ring', 'polygon'])
        world, fx, fy = make_world(rng)
        lat_left = M.rand_points(rng, rng.choice([3, 5, 8]), lo=-1, hi=8, missing_p=rng.choice([0, 0.15]))
        lat_right = [M.rand_right_element(rng, kind, lat_left, lo=-1, hi=8)
                     for _ in range(rng.choice([1, 2, 3, 4]))]
        left = [map_xy(p, fx, fy) for p in lat_left]
        right = [map_xy(e, fx, fy) for e in lat_right]
        segs = [s for e in right for s in segments_of(kind, e)]
        extra = []
        for (x0, y0), (x1, y1) in (rng.sample(segs, min(len(segs), 4)) if segs else []):
            t = rng.choice((0.5, 0.25, 0.75, 1.0 / 3.0, rng.random(), 0.0, 1.0))
            px, py = x0 + t * (x1 - x0), y0 + t * (y1 - y0)
            extra.append([ulps(px, rng.randint(-2, 2)), ulps(py, rng.randint(-2, 2))])
            extra.append([px, py])
            t2 = rng.choice((0.25, 0.75, rng.random()))
            extra.append([x0 + t * (x1 - x0), y0 + t2 * (y1 - y0)])     # in the bbox, off the segment
            extra.append([(x0 + x1) / 2, (y0 + y1) / 2])
        verts = [(c[0], c[1]) for e in right if e is not None
                 for c in [list(z) for z in zip(flat(e)[0::2], flat(e)[1::2])]]
        for vx, vy in (rng.sample(verts, min(len(verts), 3)) if verts else []):
            extra.append([vx, vy])
            extra.append([ulps(vx, rng.choice((-1, 1))), vy])
            extra.append([vx, ulps(vy, rng.choice((-1, 1)))])
        rng.shuffle(extra)
        left = left + extra[:14]
        if rng.random() < 0.3:
            left.insert(rng.randrange(len(left) + 1), None)
        yield world, kind, left, right


def check_float_rows(rep, lspec, rspec, how, rows, queue, replay):
    """rows of one sjoin call on float frames: the unmatched rows must be what the matched ones
    leave over; the matched pairs go to the kernel (Model/SjoinFloat.v)"""
    M = _main()
    pairs = sorted([(l, r) for l, r in rows if l is not None and r is not None])
    want = M.expected_rows(how, pairs, len(lspec['elems']), len(rspec['elems']))
    if want != rows:
        rep.violation(f'rows-unmatched:{how}',
                      'the rows without partner are not the rows the matched pairs leave over',
                      {**replay, 'rows': rows})
    res = [(Nat(l), Nat(r)) for l, r in sorted(pairs, key=lambda p: (p[1], p[0]))]
    queue.append((fcase_term(lspec, rspec), res, lspec, rspec, how, replay, pairs))


def flush_float(rep, queue):
    if not queue:
        return
    cases = [q[0] for q in queue]
    ress = [q[1] for q in queue]
    bad = C.coq_mismatches(FIMPORTS, FFN, FCASE_TY, FRES_TY, cases, ress, shard=60)
    for i in bad[:6]:
        _, _, lspec, rspec, how, replay, pairs = queue[i]
        model = C.coq_eval(FIMPORTS, f'{FFN} {C.coq(cases[i])}')
        mp = sorted((int(x), int(y)) for x, y in re.findall(r'\((\d+)(?:%nat)?,\s*(\d+)(?:%nat)?\)', model))
        extra = [p for p in pairs if p not in mp]
        missing = [p for p in mp if p not in pairs]

        def show(p):
            return f'point {lspec["elems"][p[0]]!r} x {rspec["kind"]} {rspec["elems"][p[1]]!r}'
        rep.violation(f'rows-float-model:{how}:{rspec["kind"]}',
                      'the intersecting pairs sjoin reports on float64 frames differ from the binary64 model '
                      f'(Model/SjoinFloat.v), pairs as (left position, right position): reported but not '
                      f'intersecting {extra[:6]}, intersecting but not reported {missing[:6]}; e.g. '
                      + show((extra + missing)[0] if (extra + missing) else (0, 0)),
                      {**replay, 'pairs': pairs, 'model_pairs': mp})
    rep.extra['float_model_cases'] = rep.extra.get('float_model_cases', 0) + len(queue)
    queue.clear()


def run_float(rep, tier):
    M = _main()
    n = 260 if tier == 'quick' else 3000
    queue = []
    for i, (world, kind, left, right) in enumerate(float_frames(rep.rng, n)):
        meta = M.META_GEOM[i % len(M.META_GEOM)]
        lspec, rspec, ls, rs = M.make_specs(meta, left, 'float64', kind, right, 'float64')
        if degenerate_extent(left):
            rep.count('float-frames:left-points-without-extent-at>=2^53')
        try:
            fr = M.Frames(lspec, rspec, export=False)
        except Exception as e:  # noqa: BLE001
            rep.count('construct_error:' + type(e).__name__)
            continue
        rep.count('float-frames:' + world.split('*')[0])
        if '*' in world:
            rep.count('float-frames:scaled-by-a-power-of-two')
        for how in (M.HOW3 if (tier != 'quick' or i % 10 == 0) else [M.HOW3[i % 3]]):
            batch = []
            rows = M.run_call(rep, fr, how, ls, rs, batch, ('float', world, kind), model=False)
            if rows is None:
                if batch and 'raised' in batch[0][5]:
                    rep.violation(f'raises:{batch[0][5]["raised"].split(":")[0]}',
                                  'sjoin raised on finite float64 frames', batch[0][5])
                continue
            replay = {'left': lspec, 'right': rspec, 'how': how, 'lsuffix': ls, 'rsuffix': rs,
                      'model': False, 'float_model': True}
            check_float_rows(rep, lspec, rspec, how, rows, queue, replay)
            if any(l is not None and r is not None for l, r in rows):
                rep.count('float-frames:has_pairs')
    flush_float(rep, queue)


# --------------------------------------------------------------------------
# replays
# --------------------------------------------------------------------------
def replay_scaled(rep, rp):
    M = _main()
    fr = M.Frames(rp['left'], rp['right'])
    batch = []
    base = M.run_call(rep, fr, rp['how'], rp['lsuffix'], rp['rsuffix'], batch, None)
    print('base rows       :', base)
    rows = compare_scaled(rep, rp['left'], rp['right'], rp['lsuffix'], rp['rsuffix'], rp['how'],
                          tuple(rp['xform']), base)
    print('transformed rows:', rows, ' under v -> v*2^%d + (%r, %r)' % tuple(rp['xform']))
    M.flush(rep, batch)
    for v in rep.violations:
        print(v['signature'], '-', v['what'])
    return not rep.violations


def replay_float(rep, rp):
    M = _main()
    fr = M.Frames(rp['left'], rp['right'], export=False)
    batch, queue = [], []
    rows = M.run_call(rep, fr, rp['how'], rp['lsuffix'], rp['rsuffix'], batch, None, model=False)
    print('rows:', rows)
    if rows is not None:
        check_float_rows(rep, rp['left'], rp['right'], rp['how'], rows, queue, dict(rp))
        print('model pairs (left, right), right-major:',
              C.coq_eval(FIMPORTS, f'{FFN} {C.coq(queue[0][0])}'))
        flush_float(rep, queue)
    for v in rep.violations:
        print(v['signature'], '-', v['what'][:300])
    return not rep.violations
