"""C13 — bounds / total_bounds are the tight extents.

Correspondence: every bounds quantity of real arrays (all seven kinds, five
subtypes, missing / empty / non-finite elements, sliced / taken / concatenated
buffers) against Model/Bounds.v evaluated by the Coq kernel on the exported
buffers; plus the agreement of array / GeoSeries / Dask / spatial-index values.
Coordinates that are not small integers (all ten subtypes over their whole range) and
Dask frames of every provenance (persisted, re-read from parquet, packed): c13_util.py.
"""
import itertools
import math

import numpy as np

from . import c13_util as U
from . import common as C
from . import geomgen as G

ANCHOR_FILES = ['spatialpandas/geometry/_algorithms/bounds.py',
                'spatialpandas/geometry/baselist.py', 'spatialpandas/geometry/basefixed.py',
                'spatialpandas/geoseries.py', 'spatialpandas/dask.py']
TRUSTED = ['numpy slicing / boolean assignment as transcribed in Model/Arrow.v, Model/Bounds.v',
           'pyarrow buffers() export (harness/common.py export_listarr/export_fixarr, c13_util.export_exact)',
           'Python int / float.as_integer_ratio arithmetic used to scale dyadic coordinates to integers']

IMPORTS = 'Model.Num Model.Arrow Model.Bounds Spec.BoundsSpec'
RES_TY = 'option (list bbox * bbox * (num * num) * (num * num))'
# the guards the theorems assume are evaluated on every real array
LA_FN = 'fun a => if wf_listarr a && nulls_empty a && even_outer a then Some (la_all a) else None'
FA_FN = 'fun a => if wf_fixarr a then Some (fa_all a) else None'


def impl_all(arr):
    try:
        b = arr.bounds
        tb = arr.total_bounds
        tx = arr.total_bounds_x
        ty = arr.total_bounds_y
        return C.Some(([tuple(C.fnum(v) for v in row) for row in np.asarray(b).tolist()],
                       tuple(C.fnum(v) for v in tb),
                       tuple(C.fnum(v) for v in tx), tuple(C.fnum(v) for v in ty)))
    except Exception as e:  # the property says these never raise
        return ('raised', type(e).__name__, str(e)[:200])


def gen_arrays(rep, tier):
    rng = rep.rng
    scale = getattr(rep, 'scale', 1)
    nrand = 250 * scale if tier == 'quick' else 6000
    nexh = 60 * scale if tier == 'quick' else 4000
    shapes = G.small_shapes_1level()
    out = []
    # (a) small-scope enumeration for the one-level kinds: arrays of <=3 elements, each
    #     missing, empty or of <=2 vertices over {1, 2, NaN}; a seeded sample of the 92^3
    #     arrays per kind in the quick tier plus every array of <= 2 elements of a sub-scope
    sub = [None, [], [1, 2], [float('nan'), 1], [2, 1, 1, float('nan')], [float('nan')] * 2,
           [float('inf'), 2, 1, float('-inf')]]
    for kind in ('multipoint', 'line', 'ring'):
        for n in (0, 1, 2):
            for els in itertools.product(sub, repeat=n):
                out.append((kind, 'float64', list(els), 0))
        for _ in range(nexh):
            els = [rng.choice(shapes) for _ in range(rng.randint(1, 3))]
            out.append((kind, 'float64', els, rng.randint(0, 2)))
    # points: every array of <= 3 slots over {missing, (1,2), (2,1), (nan,1), (nan,nan)}
    psub = [None, [1, 2], [2, 1], [float('nan'), 1], [float('nan'), float('nan')], [0, 0]]
    for n in range(0, 4):
        for els in itertools.product(psub, repeat=n):
            out.append(('point', 'float64', list(els), 0))
    # (b) random structured arrays of every kind and subtype, with derivations
    for kind in G.KINDS:
        for st in G.SUBTYPES:
            for _ in range(nrand // 5):
                isint = st.startswith('int')
                n = rng.choice([0, 1, 1, 2, 3, 5, 8])
                els = G.rand_elements(rng, kind, n, lo=-8, hi=8,
                                      nan_p=0.0 if isint else rng.choice([0, 0.15, 0.5]))
                if rng.random() < 0.1 and n:
                    els = [None] * n  # all missing
                out.append((kind, st, els, rng.randint(0, 3)))
    return out


def run(rep):
    tier = getattr(rep, 'tier_run', rep.tier)
    rep.rule = ('arrays of all 7 kinds x 5 subtypes built from nested lists with missing / empty / '
                'non-finite elements, then 0-3 random derivation steps (slice, take, rotate-concat, '
                'mask, reverse); small scopes enumerated (see harness/c13.py); a case is non-trivial '
                'when at least one element has a finite coordinate; distinct = distinct '
                '(kind, subtype, exported buffers); plus (harness/c13_util.py) all 10 subtypes with '
                'coordinates over the whole range of the subtype (exact power-of-two scaling into the same '
                'model) and Dask frames of 6 provenances x 1..12 partitions against the pandas array and '
                'Model/DaskModel.v box_total')
    la_cases, la_res, la_meta = [], [], []
    fa_cases, fa_res, fa_meta = [], [], []
    import pandas as pd
    from spatialpandas import GeoSeries
    nagree = 0
    for kind, st, els, nder in gen_arrays(rep, tier):
        try:
            arr = G.make_array(kind, els, st)
        except Exception as e:
            rep.count('construct_error:' + type(e).__name__)
            continue
        # stateful part of the history: on some arrays the source's quantities are computed
        # (and an index built) BEFORE deriving, so that anything cached on the source and handed
        # on to derived arrays is exercised; some derivations end with a fill-take
        warm = rep.rng.random() < 0.4
        warm_ps = None
        if warm:
            try:
                arr.bounds, arr.total_bounds
                if rep.rng.random() < 0.5 and len(arr):
                    warm_ps = rep.rng.choice([1, 2, 512])
                    arr.build_sindex(page_size=warm_ps)
                rep.count('warmed-up-source')
            except Exception:
                pass
        arr, desc = G.derive(rep.rng, arr, nder)
        if warm:
            desc = [('warm', warm_ps)] + desc
        if warm and rep.rng.random() < 0.6 and len(arr) > 0:
            arr.bounds
            idx = [rep.rng.choice([-1, rep.rng.randrange(len(arr))]) for _ in range(rep.rng.randint(1, len(arr) + 2))]
            arr = arr.take(np.array(idx, dtype='int64'), allow_fill=True)
            desc = desc + [('filltake', idx)]
            rep.count('fill-take-after-warm-up')
        if isinstance(arr.data.type, type(None)) or str(arr.data.type) == 'null':
            rep.count('null_typed_skipped')
            continue
        try:
            rec = C.export_fixarr(arr) if kind == 'point' else C.export_listarr(arr)
        except ValueError:
            rep.count('null_typed_skipped')
            continue
        res = impl_all(arr)
        meta = {'kind': kind, 'subtype': st, 'elements': els, 'derivation': desc}
        rep.evaluations += 1
        rep.count(f'{kind}')
        if any(c is not None and math.isfinite(c) for e in els for c in G.flat_coords(e)):
            rep.nontrivial((kind, st, repr(rec)))
        if len(desc):
            rep.count('derived')
        if any(e is None for e in els):
            rep.count('has_missing')
        if any(G.has_nonfinite(e) for e in els):
            rep.count('has_nonfinite')
        if isinstance(res, tuple):
            rep.violation(f'raises:{kind}:{res[1]}',
                          f'{kind} bounds/total_bounds raised {res[1]}: {res[2]}',
                          {**meta, 'impl': res,
                           'repro': f"G.make_array({kind!r}, {els!r}, {st!r}) then {desc!r}; .bounds"})
            continue
        rep.sample({**meta, 'impl': res}, cap=4)
        if kind == 'point':
            fa_cases.append(rec); fa_res.append(res); fa_meta.append(meta)
        else:
            la_cases.append(rec); la_res.append(res); la_meta.append(meta)
        # agreement of the other entry points (every 7th array; they are slow)
        if rep.evaluations % 7 == 0:
            nagree += 1
            agree(rep, arr, meta)
    for fn, ty, cases, ress, metas in ((LA_FN, 'listarr', la_cases, la_res, la_meta),
                                       (FA_FN, 'fixarr', fa_cases, fa_res, fa_meta)):
        bad = C.coq_mismatches(IMPORTS, fn, ty, RES_TY, cases, ress)
        for i in bad[:20]:
            model = C.coq_eval(IMPORTS, f'({fn}) {C.coq(cases[i])}')
            k = metas[i]['kind']
            rep.violation(f'bounds-differ:{k}',
                          f'{k} bounds/total_bounds differ from the proven model',
                          {**metas[i], 'buffers': cases[i], 'impl': ress[i], 'model': model})
    rep.extra['agreement_checks'] = nagree
    large_arrays(rep)
    # coordinates over the whole range of all ten subtypes (same model, exact dyadic scaling) and
    # the Dask entry points on frames of every provenance: see harness/c13_util.py
    U.wide_arrays(rep, tier, agree, LA_FN, FA_FN, IMPORTS, RES_TY)
    U.dask_provenances(rep, tier)


def large_arrays(rep):
    """Arrays far larger than the kernel-evaluated cases (block-wise or parallel reductions
    only show at size): the relations the theorems give between the quantities must hold -
    total_bounds = union of the bounds rows (C13_total / C13_rows_in_total), the projections
    agree (C13_total_proj), and the numbers equal a plain numpy reduction over the finite
    coordinates of the non-missing elements."""
    import pyarrow as pa
    rng = np.random.default_rng(rep.seed)
    nbig = 0
    for kind in ('multipoint', 'line', 'multiline', 'polygon', 'point'):
        for nvert in (70001, 131075, 262147 if rep.tier_run == 'thorough' else 65599):
            xy = rng.integers(-1000, 1000, size=(nvert, 2)).astype('float64')
            # the extremes sit among the very last vertices and at the very first
            xy[-1] = (5000, -7000); xy[-2] = (-6000, 8000); xy[0] = (4000, 4000)
            xy[nvert // 2] = (np.nan, 9000)          # finite in one coordinate only
            flat = xy.ravel()
            cls = G.array_class(kind)
            if kind == 'point':
                arr = cls(flat)
                nel = nvert
            else:
                # ragged elements: element i has (i % 7) + 1 vertices; the tail goes to the last
                sizes = []
                left = nvert
                i = 0
                while left > 0:
                    k = min(left, (i % 7) + 1); sizes.append(k); left -= k; i += 1
                offs = np.concatenate([[0], np.cumsum(sizes)]).astype('int32') * 2
                inner = pa.ListArray.from_arrays(pa.array(offs), pa.array(flat))
                lev = G.LEVELS[kind]
                data = inner
                for _ in range(lev - 1):
                    n = len(data)
                    grp = np.arange(0, n + 1, 1, dtype='int32')
                    data = pa.ListArray.from_arrays(pa.array(grp), data)
                arr = cls(data)
                nel = len(arr)
            meta = {'kind': kind, 'large': True, 'vertices': int(nvert), 'elements': int(nel)}
            for view, name in ((arr, 'whole'), (arr[3:], 'slice[3:]'), (arr[:-1], 'slice[:-1]')):
                b = np.asarray(view.bounds, dtype=float)
                tb = np.asarray(view.total_bounds, dtype=float)
                tx = np.asarray(view.total_bounds_x, dtype=float)
                ty = np.asarray(view.total_bounds_y, dtype=float)
                with np.errstate(all='ignore'):
                    import warnings
                    with warnings.catch_warnings():
                        warnings.simplefilter('ignore')
                        union = np.array([np.nanmin(b[:, 0]), np.nanmin(b[:, 1]),
                                          np.nanmax(b[:, 2]), np.nanmax(b[:, 3])])
                ok = _same(tb, union) and _same(tx, tb[[0, 2]]) and _same(ty, tb[[1, 3]])
                if name == 'whole':
                    fin = xy
                    ref = np.array([np.nanmin(fin[:, 0]), np.nanmin(fin[:, 1]),
                                    np.nanmax(fin[:, 0]), np.nanmax(fin[:, 1])])
                    ok = ok and _same(tb, ref)
                rep.evaluations += 1
                nbig += 1
                rep.count('large:' + kind)
                rep.nontrivial(('large', kind, nvert, name))
                if not ok:
                    rep.violation(f'large-total-bounds:{kind}',
                                  f'{kind} total_bounds of a large array ({nvert} vertices, {name}) is not '
                                  'the union of its bounds rows / its projections / the numpy reduction',
                                  {**meta, 'view': name, 'total_bounds': tb.tolist(), 'union_of_rows': union.tolist(),
                                   'total_bounds_x': tx.tolist(), 'total_bounds_y': ty.tolist(),
                                   'repro': 'harness/c13.py large_arrays (seeded)'})
    rep.extra['large_arrays'] = nbig


def _same(a, b):
    a = np.asarray(a, dtype='float64'); b = np.asarray(b, dtype='float64')
    return a.shape == b.shape and bool(np.all((a == b) | (np.isnan(a) & np.isnan(b))))


def agree(rep, arr, meta):
    """array = GeoSeries = Dask combination (= spatial index root when no NaN row)"""
    import dask.dataframe as dd
    from spatialpandas import GeoSeries
    b, tb = arr.bounds, arr.total_bounds
    s = GeoSeries(arr, index=list(range(10, 10 + len(arr))))
    ok = _same(s.bounds.values, b) and _same(s.total_bounds, tb) \
        and list(s.bounds.columns) == ['x0', 'y0', 'x1', 'y1'] and list(s.bounds.index) == list(s.index)
    if not ok:
        rep.violation('agree:series', 'GeoSeries.bounds/total_bounds differ from the array\'s',
                      {**meta, 'array_total_bounds': list(tb), 'series_total_bounds': list(s.total_bounds)})
    if len(arr) > 0:
        for nparts in (1, min(3, len(arr))):
            try:
                ds = dd.from_pandas(s, npartitions=nparts)
                dtb = ds.total_bounds
                dtb = dtb.compute() if hasattr(dtb, 'compute') else dtb
                db = ds.bounds.compute()
            except Exception as e:
                kind, st = meta.get('kind', '?'), str(arr.numpy_dtype)
                rep.violation(U.dask_raise_signature(kind, st, arr, e, 'from_pandas'),
                              f'the Dask versions of bounds / total_bounds of a {kind}[{st}] series cannot be '
                              f'obtained: {e!r}'[:300],
                              {**meta, 'npartitions': nparts, 'error': repr(e)[:300]})
                break
            if not (_same(dtb, tb) and _same(db.values, b)):
                rep.violation('agree:dask', 'Dask bounds/total_bounds differ from the array\'s',
                              {**meta, 'npartitions': nparts, 'array_total_bounds': list(tb),
                               'dask_total_bounds': list(np.asarray(dtb, dtype=float))})
        nanb = np.isnan(np.asarray(b, dtype=float))
        # rows without any extent (missing / empty elements) contribute to neither side; a row that
        # is NaN in one dimension only is dropped whole by the index (documented there): skipped
        if not (nanb.any(axis=1) & ~nanb.all(axis=1)).any():
            fresh = type(arr)(arr.data, dtype=arr.dtype)
            # (an extent of width 0 at |coordinate| >= 2^53 included: the index builds since
            #  7cf01a0, U.CORPUS has such arrays on every run)
            try:
                stb = fresh.sindex.total_bounds
            except Exception as e:
                rep.violation(f'agree:sindex-raises:{type(e).__name__}',
                              f'the spatial index of the array cannot be built / asked for total_bounds: {e!r}'[:300],
                              {**meta, 'array_total_bounds': list(tb)})
                stb = tb
            if not _same(stb, tb):
                rep.violation('agree:sindex', 'spatial index total_bounds differs from the array\'s',
                              {**meta, 'array_total_bounds': list(tb), 'sindex_total_bounds': list(stb)})
    _rows_in_total(rep, b, tb, meta)


def _rows_in_total(rep, b, tb, meta):
    # every element inside its bounds, every row inside total_bounds (finite ones)
    bb = np.asarray(b, dtype=float)
    if len(bb):
        tbv = np.asarray(tb, dtype=float)
        fin = ~np.isnan(bb[:, 0])
        if fin.any() and not (bb[fin, 0].min() >= tbv[0] and bb[fin, 2].max() <= tbv[2]):
            rep.violation('rows-in-total:x', 'a bounds row lies outside total_bounds', meta)
        fin = ~np.isnan(bb[:, 1])
        if fin.any() and not (bb[fin, 1].min() >= tbv[1] and bb[fin, 3].max() <= tbv[3]):
            rep.violation('rows-in-total:y', 'a bounds row lies outside total_bounds', meta)


def replay(rep, rp):
    if rp.get('large'):
        rep.tier_run = 'quick'
        large_arrays(rep)
        return not rep.violations
    kind, st = rp['kind'], rp['subtype']

    def un(e):
        if isinstance(e, list):
            return [un(x) for x in e]
        if isinstance(e, str):
            return float(e)
        return e
    els = un(rp['elements'])
    if rp.get('dask'):
        spec = {**{k: rp[k] for k in ('kind', 'subtype', 'npartitions', 'pack_npartitions', 'p', 'wide')},
                'elements': els}
        rep.tier_run = 'quick'
        U.dask_provenances(rep, 'quick', specs=[spec], which=[rp['provenance']])
        for v in rep.violations:
            print(v['signature'], '-', v['what'])
        return not rep.violations
    arr = G.make_array(kind, els, st)
    for d in rp.get('derivation', []):
        if d[0] == 'warm':
            arr.bounds, arr.total_bounds
            if d[1] and len(arr):
                arr.build_sindex(page_size=d[1])
        elif d[0] == 'slice':
            arr = arr[d[1]:d[2]]
        elif d[0] == 'take':
            arr = arr.take(np.array(d[1], dtype='int64'))
        elif d[0] == 'rotate':
            arr = type(arr)._concat_same_type([arr[d[1]:], arr[:d[1]]])
        elif d[0] == 'mask':
            arr = arr[np.array(d[1], dtype=bool)]
        elif d[0] == 'rev':
            arr = arr[::-1]
        elif d[0] == 'filltake':
            arr.bounds
            arr = arr.take(np.array(d[1], dtype='int64'), allow_fill=True)
    # exact dyadic scaling (k = 0 for the small-integer cases): numbers below are v * 2^k
    rec, k = U.export_exact(arr, kind)
    res = U.impl_all_exact(arr, k)
    if isinstance(res, tuple):
        print('impl raised / reports a number that is not a coordinate:', res)
        return False
    fn, ty = (FA_FN, 'fixarr') if kind == 'point' else (LA_FN, 'listarr')
    bad = C.coq_mismatches(IMPORTS, fn, ty, RES_TY, [rec], [res])
    print('scale: 2^%d' % k)
    print('impl :', res)
    print('model:', C.coq_eval(IMPORTS, f'({fn}) {C.coq(rec)}'))
    nv = len(rep.violations)
    agree(rep, arr, {'kind': kind, 'subtype': st})
    for v in rep.violations[nv:]:
        print(v['signature'], '-', v['what'])
    return not bad and len(rep.violations) == nv
