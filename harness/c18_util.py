"""Workers of the C18 check.  Each runs in its own process (numba reads NUMBA_NUM_THREADS /
NUMBA_DISABLE_JIT at import):

  python -m harness.c18_util footprint <seed> <tier>     (NUMBA_DISABLE_JIT=1)
  python -m harness.c18_util sched <seed> <tier>         (NUMBA_NUM_THREADS=t)
  python -m harness.c18_util clients <seed> <tier>

and prints one JSON document on the last line of stdout.
"""
import hashlib
import json
import os
import random
import re
import shutil
import sys
import tempfile
import threading
import time
import warnings

warnings.filterwarnings('ignore')

PHASES = {}


class phase:
    """with phase('name'): ...  accumulates [wall seconds, CPU seconds of the whole process] per name"""

    def __init__(self, name):
        self.name = name

    def __enter__(self):
        self.t, self.c = time.time(), time.process_time()

    def __exit__(self, *a):
        w = PHASES.setdefault(self.name, [0.0, 0.0])
        w[0] += time.time() - self.t
        w[1] += time.process_time() - self.c
        return False


_MARK = [None, 0.0, 0.0]


def mark(name):
    """sequential phases: closes the phase opened by the previous mark() and opens `name` (None = just close)"""
    now, cpu = time.time(), time.process_time()
    if _MARK[0] is not None:
        w = PHASES.setdefault(_MARK[0], [0.0, 0.0])
        w[0] += now - _MARK[1]
        w[1] += cpu - _MARK[2]
    _MARK[:] = [name, now, cpu]


# ======================================================================
# (1) footprint observation of the prange / parallel kernels
# ======================================================================
def worker_footprint(seed, tier):
    import numpy as np
    assert os.environ.get('NUMBA_DISABLE_JIT') == '1'
    import spatialpandas  # noqa: F401
    from spatialpandas.geometry import baselist, line, multiline, multipoint, multipolygon, point, polygon
    from spatialpandas.geometry._algorithms import intersection
    from . import geomgen as G

    rng = random.Random(seed)
    state = {'rec': None}
    records = []

    def key(k):
        if isinstance(k, (int, np.integer)) and not isinstance(k, (bool, np.bool_)):
            return int(k)
        return 'non-integer:' + repr(k)[:40]

    def enc(v):
        v = v.item() if hasattr(v, 'item') else v
        if isinstance(v, float):
            return repr(v)
        return repr(v)

    class Recorder:
        def __init__(self, kernel):
            self.kernel, self.cur, self.arr = kernel, None, None
            self.init, self.its, self.reads, self.outside = None, [], [], []

        def enter(self, i):
            if self.init is None and self.arr is not None:
                self.init = [enc(x) for x in np.ndarray.__getitem__(self.arr, slice(None)).tolist()]
            self.cur = i
            self.its.append([int(i), []])

        def leave(self):
            self.cur = None

    class RecArray(np.ndarray):
        """an array whose stores are observed.  _owner: the iteration during which it was
        allocated (None = outside every iteration, i.e. shared between iterations);
        _is_result: the kernel's result array"""
        _owner = None
        _is_result = False

        def __array_finalize__(self, obj):
            if obj is not None:
                self._owner = getattr(obj, '_owner', None)
                self._is_result = getattr(obj, '_is_result', False)

        def __setitem__(self, k, v):
            np.ndarray.__setitem__(self, k, v)
            r = state['rec']
            if r is None:
                return
            kk = key(k)
            if r.cur is None:
                return          # sequential prologue / epilogue / a serial kernel: not an iteration
            if self._owner is not None and self._owner == r.cur:
                return                      # a scratch array of this very iteration
            if self._is_result:
                val = enc(np.ndarray.__getitem__(self, k)) if isinstance(kk, int) else 'n/a'
                r.its[-1][1].append([kk, val])
            else:
                # an array allocated outside the loop body (or by another iteration) is written
                # by this iteration: shared between the numba threads
                r.outside.append(['store-into-shared-array', int(r.cur), kk])

        def __getitem__(self, k):
            r = state['rec']
            if r is not None and r.cur is not None and self._is_result:
                r.reads.append([int(r.cur), key(k)])
            return np.ndarray.__getitem__(self, k)

        def fill(self, v):
            r = state['rec']
            if r is not None and r.cur is not None and not (self._owner is not None and self._owner == r.cur):
                r.outside.append(['fill-inside-iteration', int(r.cur)])
            np.ndarray.fill(self, v)

    def rec_prange(*a):
        r = state['rec']
        for i in range(*a):
            if r is not None:
                r.enter(i)
            yield i
        if r is not None:
            r.leave()

    class RecInds:
        """stands for `inds` in the `for i, j in enumerate(inds)` kernels of point.py"""

        def __init__(self, a):
            self.a = a

        def __len__(self):
            return len(self.a)

        def __iter__(self):
            r = state['rec']
            for pos, j in enumerate(self.a):
                if r is not None:
                    r.enter(pos)
                yield j
            if r is not None:
                r.leave()

    class NpShim:
        """numpy as the kernels see it: every array they allocate is observed"""

        def __getattr__(self, name):
            return getattr(np, name)

        def _tag(self, out):
            out = out.view(RecArray)
            r = state['rec']
            out._owner = None if r is None else r.cur
            if r is not None and r.arr is None and r.cur is None:
                r.arr = out                 # the result array of the `enumerate(inds)` kernels
                out._is_result = True
            return out

        def zeros(self, *a, **kw):
            return self._tag(np.zeros(*a, **kw))

        def empty(self, *a, **kw):
            return self._tag(np.empty(*a, **kw))

        def ones(self, *a, **kw):
            return self._tag(np.ones(*a, **kw))

        def full(self, *a, **kw):
            return self._tag(np.full(*a, **kw))

    def finish(r, final):
        if r.init is None:       # no iteration at all
            r.init = [enc(x) for x in final]
        records.append({'kernel': r.kernel, 'init': r.init, 'its': r.its, 'reads': r.reads,
                        'outside': r.outside, 'final': [enc(x) for x in final]})

    def wrap_result_kernel(fn, name, pos):
        def w(*args):
            args = list(args)
            if len(args) <= pos or not isinstance(args[pos], np.ndarray):
                unavailable.append(name + ':signature')
                return fn(*args)
            res = args[pos]
            rv = res.view(RecArray)
            rv._is_result = True
            rv._owner = None
            r = Recorder(name)
            r.arr = rv
            args[pos] = rv
            state['rec'] = r
            saved = intersection.np, baselist.np
            intersection.np = baselist.np = NpShim()
            try:
                out = fn(*args)
            finally:
                intersection.np, baselist.np = saved
                state['rec'] = None
            finish(r, np.asarray(res).tolist())
            return out
        return w

    def wrap_inds_kernel(fn, name):
        def w(*args):
            args = list(args)
            if not args or not isinstance(args[-1], np.ndarray):
                unavailable.append(name + ':signature')
                return fn(*args)
            args[-1] = RecInds(args[-1])
            r = Recorder(name)
            state['rec'] = r
            saved = point.np
            point.np = NpShim()
            try:
                out = fn(*args)
            finally:
                point.np = saved
                state['rec'] = None
            finish(r, np.asarray(out).tolist())
            return np.asarray(out)
        return w

    unavailable = []

    def install(target_mod, attr, source_mod, name, pos):
        """wrap kernel `name` (looked up by its private name; optional)"""
        try:
            fn = getattr(source_mod, name)
            getattr(target_mod, attr)
        except AttributeError:
            unavailable.append(name)
            return
        setattr(target_mod, attr, wrap_result_kernel(fn, name, pos) if pos is not None
                else wrap_inds_kernel(fn, name))

    # the iteration source of every prange loop
    baselist.prange = rec_prange
    intersection.prange = rec_prange
    install(line, '_geometry_map_nested1', baselist, '_geometry_map_nested1', 1)
    install(multiline, '_geometry_map_nested2', baselist, '_geometry_map_nested2', 1)
    install(polygon, '_geometry_map_nested2', baselist, '_geometry_map_nested2', 1)
    install(multipolygon, '_geometry_map_nested3', baselist, '_geometry_map_nested3', 1)
    install(multipoint, 'multipoints_intersect_bounds', intersection, 'multipoints_intersect_bounds', 7)
    # the serial *_intersect_bounds kernels too: should one of them become a prange loop, its
    # iterations and every array it shares between them are observed
    install(line, 'lines_intersect_bounds', intersection, 'lines_intersect_bounds', 7)
    install(multiline, 'lines_intersect_bounds', intersection, 'lines_intersect_bounds', 7)
    install(multiline, 'multilines_intersect_bounds', intersection, 'multilines_intersect_bounds', 8)
    install(polygon, 'polygons_intersect_bounds', intersection, 'polygons_intersect_bounds', 8)
    install(multipolygon, 'multipolygons_intersect_bounds', intersection, 'multipolygons_intersect_bounds', 9)
    for nm in ('_perform_intersects_multipoint', '_perform_intersects_line', '_perform_intersects_polygon'):
        install(point, nm, point, nm, None)

    ncalls = 25 if tier == 'quick' else 250
    oob = [0]
    mark('footprint: recorded kernel calls')
    from spatialpandas.geometry import Line, MultiLine, MultiPoint, MultiPolygon, Polygon
    for _ in range(ncalls):
        n = rng.choice([0, 1, 2, 3, 5, 8])
        box0 = (rng.randint(0, 3), rng.randint(0, 3), rng.randint(3, 6), rng.randint(3, 6))
        for kind in ('line', 'ring', 'multiline', 'polygon', 'multipolygon'):
            arr = G.make_array(kind, G.rand_elements(rng, kind, n, lo=0, hi=6))
            arr.intersects_bounds(box0)
            if n:
                arr.intersects_bounds(box0, inds=np.array([rng.randrange(n) for _ in range(rng.randint(0, n))],
                                                          dtype='int64'))
            try:
                arr.length
                if kind in ('polygon', 'multipolygon'):
                    arr.area
            except IndexError:
                # compute_line_length reads values[start] also for an empty trailing element:
                # an IndexError in Python mode (a harmless out-of-bounds read when compiled)
                oob[0] += 1
        mp = G.make_array('multipoint', G.rand_elements(rng, 'multipoint', n, lo=0, hi=6))
        box = sorted([rng.randint(0, 6), rng.randint(0, 6)]) + sorted([rng.randint(0, 6), rng.randint(0, 6)])
        box = (box[0], box[2], box[1], box[3])
        mp.intersects_bounds(box)
        if n:
            mp.intersects_bounds(box, inds=np.array([rng.randrange(n) for _ in range(rng.randint(0, n))], dtype='int64'))
        pts = G.make_array('point', G.rand_elements(rng, 'point', n, lo=0, hi=6))
        shapes = [MultiPoint([1, 1, 2, 3, 4, 4]), Line([0, 0, 3, 3, 6, 0]), MultiLine([[0, 0, 6, 6], [], [0, 6, 6, 0]]),
                  Polygon([[0, 0, 5, 0, 5, 5, 0, 5, 0, 0], [1, 1, 1, 2, 2, 2, 2, 1, 1, 1]]),
                  MultiPolygon([[[0, 0, 2, 0, 2, 2, 0, 2, 0, 0]], [[3, 3, 6, 3, 6, 6, 3, 6, 3, 3]]])]
        for sh in shapes:
            pts.intersects(sh)
            if n:
                inds = np.array([rng.randrange(n) for _ in range(rng.randint(0, n + 1))], dtype='int64')
                pts.intersects(sh, inds=inds)
    mark(None)
    return {'records': records, 'python_mode_index_errors': oob[0], 'unavailable': sorted(set(unavailable)),
            'phase_seconds': {k: [round(v[0], 1), round(v[1], 1)] for k, v in PHASES.items()}}


# ======================================================================
# data and canonical results of the operations
# ======================================================================
def make_frames(n, seed):
    import numpy as np
    from spatialpandas import GeoDataFrame
    from spatialpandas.geometry import (LineArray, MultiLineArray, MultiPointArray, MultiPolygonArray, PointArray,
                                        PolygonArray)
    rs = np.random.RandomState(seed)
    xy = rs.randint(0, 1000, size=(n, 2)).astype('float64') / 8.0
    xy = xy[np.lexsort((xy[:, 1], xy[:, 0]))]      # input partitions are vertical stripes
    pts = [list(p) for p in xy]
    mps, lns, pgs, mpgs, mls = [], [], [], [], []
    for i in range(n):
        x, y = xy[i]
        k = 1 + i % 3
        mps.append([c for j in range(k) for c in (x + j, y + 2 * j)])
        lns.append([x, y, x + 1 + i % 4, y + 2, x + 3, y - 1])
        sq = [x, y, x + 2, y, x + 2, y + 2, x, y + 2, x, y]
        pgs.append(None if i % 97 == 5 else [sq])
        mpgs.append([[sq], [[x + 5, y, x + 6, y, x + 6, y + 1, x + 5, y]]])
        mls.append(None if i % 89 == 7 else [[x, y, x + 1, y + 2], [x + 3, y - 1, x + 4 + i % 3, y + 0.5, x + 2, y]])
    df = GeoDataFrame({'id': np.arange(n), 'pt': PointArray(pts), 'mp': MultiPointArray(mps),
                       'ln': LineArray(lns), 'pg': PolygonArray(pgs), 'mpg': MultiPolygonArray(mpgs),
                       'ml': MultiLineArray(mls)})
    m = 30
    rxy = rs.randint(0, 110, size=(m, 2)).astype('float64')
    rpg = [[[x, y, x + 9, y, x + 9, y + 7, x, y + 7, x, y]] for x, y in rxy]
    right = GeoDataFrame({'rid': np.arange(m), 'geometry': PolygonArray(rpg)})
    return df, right


def _h(obj):
    return hashlib.sha256(json.dumps(obj, sort_keys=True, default=str).encode()).hexdigest()[:16]


def _floats(a):
    import numpy as np
    a = np.asarray(a, dtype='float64')
    return hashlib.sha256(a.tobytes()).hexdigest()[:16]


def make_large(n, seed):
    """>= 50 000 elements of each of the 7 kinds, built straight from numpy buffers; the
    coordinates are multiples of 1/4 in [0, 1000) so that a box over the middle of the plane is
    hit by some elements, missed by others and crossed by a few"""
    import numpy as np
    import pyarrow as pa
    from spatialpandas.geometry import (LineArray, MultiLineArray, MultiPointArray, MultiPolygonArray,
                                        PointArray, PolygonArray, RingArray)
    rs = np.random.RandomState(seed)
    # (a quarter-grid plus a full-mantissa fraction: the coordinates are not dyadic, so any reduction
    # whose order depended on the thread count would show in the last bit)
    # (the points themselves stay on the grid: they must lie exactly on the query shapes)
    gx = rs.randint(0, 4000, n) / 4.0
    gy = rs.randint(0, 4000, n) / 4.0
    x = gx + rs.random_sample(n) * 0.2
    y = gy + rs.random_sample(n) * 0.2

    def la(offsets, values):
        return pa.ListArray.from_arrays(pa.array(np.asarray(offsets), type=pa.int32()), values)

    def verts(dx, dy, x0=x, y0=y):
        """interleaved coordinates of the polyline x0+dx[j], y0+dy[j] for every element"""
        v = np.empty((len(x0), len(dx), 2))
        for j, (a, b) in enumerate(zip(dx, dy)):
            v[:, j, 0] = x0 + a
            v[:, j, 1] = y0 + b
        return v.reshape(len(x0), -1)
    sq = ([0, 6, 6, 0, 0], [0, 0, 6, 6, 0])
    hole = ([2, 2, 4, 4, 2], [2, 4, 4, 2, 2])
    out = {}
    out['point'] = PointArray((gx, gy))
    mp = verts([0, 3, -2], [0, 5, 7])
    out['multipoint'] = MultiPointArray(la(np.arange(n + 1) * 6, pa.array(mp.reshape(-1))))
    ln = verts([0, 4, 9, 2], [0, 7, -3, 11])
    out['line'] = LineArray(la(np.arange(n + 1) * 8, pa.array(ln.reshape(-1))))
    rg = verts(*sq)
    out['ring'] = RingArray(la(np.arange(n + 1) * 10, pa.array(rg.reshape(-1))))
    # multiline: three lines per element, far enough apart that often only some of them hit
    l1 = verts([0, 5], [0, 3])
    l2 = verts([40, 45, 50], [10, 2, 12])
    l3 = verts([-60, -55], [-20, -35])
    vals = np.concatenate([l1, l2, l3], axis=1).reshape(-1)
    per = np.array([4, 6, 4])
    inner_off = np.concatenate([[0], np.cumsum(np.tile(per, n))])
    out['multiline'] = MultiLineArray(la(np.arange(n + 1) * 3, la(inner_off, pa.array(vals))))
    # polygon: a square with a hole
    vals = np.concatenate([verts(*sq), verts(*hole)], axis=1).reshape(-1)
    inner_off = np.arange(2 * n + 1) * 10
    out['polygon'] = PolygonArray(la(np.arange(n + 1) * 2, la(inner_off, pa.array(vals))))
    # multipolygon: the square with a hole and a second square 30 to the right
    sq2 = ([30, 36, 36, 30, 30], [0, 0, 6, 6, 0])
    vals = np.concatenate([verts(*sq), verts(*hole), verts(*sq2)], axis=1).reshape(-1)
    ring_off = np.arange(3 * n + 1) * 10
    poly_off = np.concatenate([[0], np.cumsum(np.tile(np.array([2, 1]), n))])
    out['multipolygon'] = MultiPolygonArray(la(np.arange(n + 1) * 2, la(poly_off, la(ring_off, pa.array(vals)))))
    return out, gx, gy


def large_suite(n, seed, repeats=3, slow_points=None):
    """every kernel family reachable from the public API on large arrays: returns
    ({name: digest of the first run}, [names whose repeats differ], [scalar-form disagreements]).
    slow_points: the point kernels against a multipoint / line / multiline open one numba parallel region PER POINT
    (the threads split the vertices of the shape, not the points): 0.3 ms per point with 16 threads, 17 s per call on
    60 000 points.  The number of points adds nothing there, so these three run on `slow_points` points (those lying
    on the shapes + the first ones) when it is given."""
    import numpy as np
    from spatialpandas.geometry import Line, MultiLine, MultiPoint, MultiPolygon, Polygon
    from spatialpandas.spatialindex import HilbertRtree
    arrs, x, y = make_large(n, seed)
    box = (300.0, 250.0, 700.0, 800.0)
    digests, unstable, scalar_bad = {}, [], []
    rs = np.random.RandomState(seed + 1)
    sample = rs.randint(0, n, 40)

    def run(name, fn, canon=lambda r: _floats(np.asarray(r))):
        """`repeats` runs; returns the first result"""
        first = fn()
        got = [canon(first)] + [canon(fn()) for _ in range(repeats - 1)]
        digests[name] = got[0]
        if len(set(got)) != 1:
            unstable.append(name)
        return first

    for kind, arr in arrs.items():
        res = np.asarray(run(f'large:intersects_bounds:{kind}', lambda a=arr: a.intersects_bounds(box)))
        if not (0 < int(res.sum()) < n):
            scalar_bad.append(f'intersects_bounds:{kind}: the box is not a mixed hit/miss case ({int(res.sum())}/{n})')
        inds = rs.randint(0, n, n // 2).astype('int64')
        run(f'large:intersects_bounds[inds]:{kind}', lambda a=arr, i=inds: a.intersects_bounds(box, inds=i))
        run(f'large:bounds:{kind}', lambda a=arr: a.bounds)
        run(f'large:total_bounds:{kind}', lambda a=arr: np.asarray(a.total_bounds, dtype=float))
        if kind != 'point':
            ln = np.asarray(run(f'large:length:{kind}', lambda a=arr: a.length))
            ar = np.asarray(run(f'large:area:{kind}', lambda a=arr: a.area))
        # the scalar form on a sample
        for i in sample:
            el = arr[int(i)]
            if bool(el.intersects_bounds(box)) != bool(res[i]):
                scalar_bad.append(f'intersects_bounds:{kind}[{int(i)}]')
                break
        if kind != 'point':
            for i in sample[:15]:
                el = arr[int(i)]
                if float(el.length) != float(ln[i]) or float(el.area) != float(ar[i]):
                    scalar_bad.append(f'length/area:{kind}[{int(i)}]')
                    break
    # points against shapes
    pts = arrs['point']
    pick = rs.randint(0, n, 300)
    shapes = {
        'multipoint': MultiPoint(np.column_stack([x[pick], y[pick]]).reshape(-1).tolist()),
        'line': Line([0.0, 0.0, 1000.0, 1000.0, 1000.0, 0.0]),
        'multiline': MultiLine([[0.0, 500.0, 1000.0, 500.0], [250.0, 0.0, 250.0, 1000.0], [0.0, 0.0, 1000.0, 1000.0]]),
        'polygon': Polygon([[100.0, 100.0, 900.0, 100.0, 900.0, 600.0, 100.0, 600.0, 100.0, 100.0],
                            [300.0, 200.0, 300.0, 400.0, 600.0, 400.0, 600.0, 200.0, 300.0, 200.0]]),
        'multipolygon': MultiPolygon([[[0.0, 0.0, 400.0, 0.0, 400.0, 400.0, 0.0, 400.0, 0.0, 0.0]],
                                      [[500.0, 500.0, 990.0, 500.0, 990.0, 990.0, 500.0, 990.0, 500.0, 500.0]]]),
    }
    # (numba launches a nested parallel region per point for the multipoint / line kernels, which
    # is slow with many threads: the inds variant uses a short index list)
    inds = rs.randint(0, n, 4000).astype('int64')
    pts_all, sample_all = pts, sample
    if slow_points is not None and slow_points < n:
        on_shape = np.flatnonzero((x == y) | (y == 500.0) | (x == 250.0))
        sub = np.unique(np.concatenate([on_shape, pick[:60], np.arange(slow_points)]))
        pts_sub = pts.take(sub)
        sample_sub = rs.randint(0, len(sub), 40)
        inds_sub = rs.randint(0, len(sub), 1000).astype('int64')
    for nm, sh in shapes.items():
        if slow_points is not None and slow_points < n and nm in ('multipoint', 'line', 'multiline'):
            pts, sample, ix = pts_sub, sample_sub, inds_sub
        else:
            pts, sample, ix = pts_all, sample_all, inds
        m = len(pts)
        res = np.asarray(run(f'large:point.intersects:{nm}', lambda s=sh: pts.intersects(s)))
        run(f'large:point.intersects[inds]:{nm}', lambda s=sh: pts.intersects(s, inds=ix))
        if not (0 < int(res.sum()) < m):
            scalar_bad.append(f'point.intersects:{nm}: not a mixed hit/miss case ({int(res.sum())}/{m})')
        for i in sample:
            if bool(pts[int(i)].intersects(sh)) != bool(res[i]):
                scalar_bad.append(f'point.intersects:{nm}[{int(i)}]')
                break
    pts = pts_all
    # R-tree: build + queries, through the array (sindex / cx) and directly
    pb = np.asarray(arrs['polygon'].bounds, dtype='float64')
    qb = np.array(box)
    run('large:rtree:build+intersects', lambda: np.sort(np.asarray(HilbertRtree(pb, page_size=64).intersects(qb))))
    tree = HilbertRtree(pb, page_size=64)
    run('large:rtree:intersects', lambda: np.sort(np.asarray(tree.intersects(qb))))
    run('large:rtree:covers_overlaps',
        lambda: np.concatenate([np.sort(np.asarray(z)) for z in tree.covers_overlaps(qb)] + [np.array([-1])]))
    for kind in ('point', 'multiline', 'polygon'):
        a = arrs[kind]
        fresh = a.copy()
        run(f'large:cx:{kind}', lambda f=fresh: np.asarray(f.build_sindex().cx[box[0]:box[2], box[1]:box[3]].bounds))
    return digests, unstable, scalar_bad


class DelayFS:
    """built lazily (needs fsspec): a LocalFileSystem whose calls sleep a seeded random time and
    are recorded as (thread, op, path, mode)"""
    _cls = None

    @classmethod
    def make(cls, seed, maxdelay, slow_unit=0.0):
        from fsspec.implementations.local import LocalFileSystem
        if cls._cls is None:
            class _DelayFS(LocalFileSystem):
                def __init__(self, *a, **kw):
                    super().__init__(*a, **kw)

                def _nap(self, op, path, mode=None):
                    with self._lk:
                        d = self._rng.random() * self._maxdelay
                        self.trace.append((threading.get_ident(), op, str(path), mode))
                    if self._slow_unit and op == 'open' and mode == 'wb':
                        # the sub-part files of EARLY input partitions are written slowest, so that
                        # threaded process_partition tasks finish in another order than submitted
                        m = re.search(r'/part(\d+)\.parquet$', str(path))
                        if m:
                            d += max(0, 3 - int(m.group(1))) * self._slow_unit
                    if d > 0:
                        time.sleep(d)

                def open(self, path, mode='rb', **kw):
                    self._nap('open', path, mode)
                    return super().open(path, mode, **kw)

                def ls(self, path, detail=False, **kw):
                    self._nap('ls', path)
                    return super().ls(path, detail=detail, **kw)

                def rm(self, path, recursive=False, maxdepth=None):
                    self._nap('rm', path)
                    return super().rm(path, recursive=recursive, maxdepth=maxdepth)

                def makedirs(self, path, exist_ok=False):
                    self._nap('makedirs', path)
                    return super().makedirs(path, exist_ok=exist_ok)

                def mv(self, p1, p2, **kw):
                    self._nap('mv', p1, str(p2))
                    return super().mv(p1, p2, **kw)

                move = mv

                def exists(self, path, **kw):
                    self._nap('exists', path)
                    return super().exists(path, **kw)

                def isdir(self, path):
                    self._nap('isdir', path)
                    return super().isdir(path)

                def isfile(self, path):
                    self._nap('isfile', path)
                    return super().isfile(path)
            cls._cls = _DelayFS
        fs = cls._cls(skip_instance_cache=True)
        fs._rng = random.Random(seed)
        fs._maxdelay = maxdelay
        fs._slow_unit = slow_unit
        fs._lk = threading.Lock()
        fs.trace = []
        return fs


def run_suite(df, right, nparts, tmp, tag, fs_seed, maxdelay, want_trace=False, tempdir_format=None):
    """every operation of the property once; returns {op: digest} (+ the FS trace)"""
    import dask.dataframe as dd
    import numpy as np
    import spatialpandas.dask  # noqa: F401
    from spatialpandas import GeoDataFrame, sjoin
    from spatialpandas.geometry import PointArray
    from spatialpandas.io import read_parquet, read_parquet_dask
    out = {}
    ddf = dd.from_pandas(df, npartitions=nparts)
    ddf = ddf.map_partitions(lambda d, partition_info=None: d.assign(src=partition_info['number']),
                             meta=ddf._meta.assign(src=np.int64(0)))
    box = (20.0, 30.0, 70.0, 90.0)
    r = ddf.cx[box[0]:box[2], box[1]:box[3]].compute()
    out['cx:point'] = _h(sorted(r['id'].tolist()))
    r = ddf.set_geometry('mp').cx[box[0]:box[2], box[1]:box[3]].compute()
    out['cx:multipoint'] = _h(sorted(r['id'].tolist()))
    r = ddf.set_geometry('pg').cx[box[0]:box[2], box[1]:box[3]].compute()
    out['cx:polygon'] = _h(sorted(r['id'].tolist()))
    r = sjoin(ddf, right, how='inner').compute()
    out['sjoin:inner'] = _h(sorted(zip(r['id'].tolist(), r['index_right'].tolist())))
    r = sjoin(ddf, right, how='left').compute()
    out['sjoin:left'] = _h(sorted(zip(r['id'].tolist(), [-1 if x != x else int(x) for x in r['index_right'].tolist()])))
    import dask
    everything, nothing = (-1e4, -1e4, 1e4, 1e4), (5e4, 5e4, 6e4, 6e4)
    x_mid = float(df['pt'].array.bounds[len(df) // 2][0])
    y_mid = float(df['pt'].array.bounds[len(df) // 3][1])
    degenerate = {'zero-width': (x_mid, -1e4, x_mid, 1e4), 'zero-height': (-1e4, y_mid, 1e4, y_mid)}
    cols = ('pt', 'mp', 'ln', 'pg', 'mpg', 'ml')
    # degenerate boxes (what .cx[x, :] / .cx[:, y] build) on every column, evaluated in ONE graph together
    # with a box that matches everything and one that matches nothing, and the scalar cx forms
    with phase('  of which: Dask degenerate boxes'):
        names, lazy = [], []
        for col in cols:
            s = ddf[col]
            for bn, b in list(degenerate.items()) + [('everything', everything), ('nothing', nothing)]:
                names.append(f'intersects_bounds[{bn}]:{col}')
                lazy.append(s.intersects_bounds(b))
            # (the scalar cx forms on the two line columns; the history suite puts them to all 7 kinds)
            if col == 'ln':
                names.append(f'cx[x, :]:{col}')
                lazy.append(ddf.set_geometry(col).cx[x_mid, :]['id'])
            elif col == 'ml':
                names.append(f'cx[:, y]:{col}')
                lazy.append(ddf.set_geometry(col).cx[:, y_mid]['id'])
        for nm, g in zip(names, dask.compute(*lazy)):
            out[nm] = _h(sorted(g.tolist()) if nm.startswith('cx') else g.sort_index().tolist())
    for col in cols:
        s = ddf[col]
        out[f'bounds:{col}'] = _floats(s.bounds.compute().sort_index().values)
        out[f'total_bounds:{col}'] = _floats(s.total_bounds)
        out[f'area:{col}'] = _floats(s.area.compute().sort_index().values)
        out[f'length:{col}'] = _floats(s.length.compute().sort_index().values)
        out[f'intersects_bounds:{col}'] = _h(s.intersects_bounds(box).compute().sort_index().tolist())
    p = ddf.pack_partitions(npartitions=3, p=12)
    r = p.compute()
    out['pack_partitions'] = _h([p.npartitions, sorted(zip(r.index.tolist(), r['id'].tolist()))])
    # pack_partitions_to_parquet through the delaying filesystem
    fs = DelayFS.make(fs_seed, maxdelay)
    path = os.path.join(tmp, f'packed_{tag}.parq')
    kw = {}
    if tempdir_format is not None:
        kw['tempdir_format'] = os.path.join(tmp, f'ext_{tag}', tempdir_format)
        os.makedirs(os.path.join(tmp, f'ext_{tag}'), exist_ok=True)
    # short retries: a broken run must fail quickly instead of backing off for half an hour
    kw['_retry_args'] = dict(wait_exponential_multiplier=1, wait_exponential_max=20,
                             stop_max_attempt_number=6)
    try:
        back = ddf.pack_partitions_to_parquet(path, filesystem=fs, npartitions=4, p=12, **kw)
    except TypeError:
        kw.pop('_retry_args')
        out['internal-unavailable:_retry_args'] = 'x'
        shutil.rmtree(path, ignore_errors=True)
        back = ddf.pack_partitions_to_parquet(path, filesystem=fs, npartitions=4, p=12, **kw)
    trace = list(fs.trace)
    files = sorted(os.path.relpath(os.path.join(dp, f), path) for dp, _dn, fn in os.walk(path) for f in fn)
    dirs = sorted(os.path.relpath(os.path.join(dp, d), path) for dp, dn, _fn in os.walk(path) for d in dn)
    rows = {}
    cells = {}
    for f in files:
        if f.startswith('part.'):
            part = read_parquet(os.path.join(path, f))
            rows[f] = sorted(part['id'].tolist())
            cells[f] = sorted(set(int(x) for x in part['src'].tolist()))
    out['pack_to_parquet:tree'] = _h([files, dirs])
    out['pack_to_parquet:rows'] = _h(rows)
    out['pack_to_parquet:allrows'] = _h(sorted(x for v in rows.values() for x in v) == list(range(len(df))))
    r = back.compute()
    out['pack_to_parquet:readback'] = _h([back.npartitions, sorted(zip(r.index.tolist(), r['id'].tolist()))])
    from spatialpandas.geometry import GeometryDtype
    pb = {c: back[c].partition_bounds for c, dt in zip(back.columns, back.dtypes) if isinstance(dt, GeometryDtype)}
    out['pack_to_parquet:partition_bounds'] = _h({k: _floats(v.values) for k, v in sorted(pb.items())})
    r = read_parquet_dask(path, bounds=box, geometry='pg')
    out['read_parquet_dask'] = _h([r.npartitions, str(r.geometry.name), sorted(r.compute()['id'].tolist())])
    # cross-partition ties: every location occurs once in each of the 4 input partitions, so
    # rows of different input partitions tie on hilbert_distance; the EXACT row order of every
    # part file must not depend on the order in which the process_partition tasks finish
    nt_ = 4 * 120
    loc = np.arange(nt_) % 120
    tie = GeoDataFrame({'id': np.arange(nt_),
                        'pt': PointArray(((loc * 37 % 101).astype('float64'), (loc * 53 % 89).astype('float64')))})
    tddf = dd.from_pandas(tie, npartitions=4)
    fs2 = DelayFS.make(fs_seed + 1, maxdelay, slow_unit=0.03)
    tpath = os.path.join(tmp, f'ties_{tag}.parq')
    tback = tddf.pack_partitions_to_parquet(tpath, filesystem=fs2, npartitions=3, p=8,
                                            **({'_retry_args': kw['_retry_args']} if '_retry_args' in kw else {}))
    order = {}
    for f in sorted(os.listdir(tpath)):
        if f.startswith('part.'):
            order[f] = read_parquet(os.path.join(tpath, f))['id'].tolist()
    out['pack_ties:row-order'] = _h(order)
    out['pack_ties:readback-order'] = _h(tback.compute()['id'].tolist())
    out['pack_ties:has-ties'] = _h(True)
    shutil.rmtree(tpath, ignore_errors=True)
    extra = None
    if want_trace:
        extra = {'trace': [[t, op, os.path.relpath(pth, tmp) if pth.startswith(tmp) else pth, mode]
                           for t, op, pth, mode in trace],
                 'root': os.path.relpath(path, tmp), 'files': files, 'dirs': dirs, 'cells': cells,
                 'ext': None if tempdir_format is None else f'ext_{tag}',
                 'ext_left': [] if tempdir_format is None else sorted(
                     os.path.relpath(os.path.join(dp, x), tmp)
                     for dp, dn, fn in os.walk(os.path.join(tmp, f'ext_{tag}')) for x in dn + fn)}
    shutil.rmtree(path, ignore_errors=True)
    return out, extra


# ======================================================================
# (2) the operations under schedulers x workers x delays, in a process with a given
#     NUMBA_NUM_THREADS
# ======================================================================
def worker_sched(seed, tier):
    import dask
    import numba
    sys.setswitchinterval(1e-5)
    rng = random.Random(seed)
    n = 1200 if tier == 'quick' else 6000
    df, right = make_frames(n, 7)
    tmp = tempfile.mkdtemp(prefix='sp_c18_')
    res = {'numba_threads': numba.config.NUMBA_NUM_THREADS, 'runs': [], 'traces': []}
    # large arrays first: the kernels split their iterations over the numba threads only there
    nl = 60000 if tier == 'quick' else 250000
    res['large_n'] = nl
    with phase('large arrays (60 000 elements)'):
        res['large'], res['large_unstable'], res['large_scalar_bad'] = large_suite(
            nl, 5, slow_points=2000 if tier == 'quick' else None)
    # (the same inputs in every process: the seed of the run, not the per-process one)
    from . import c18_float as F
    base_seed = int(os.environ.get('C18_BASE_SEED', '0'))
    with phase('big single elements'):
        bd, bu = F.big_suite(base_seed, tier)
    res['large'].update(bd)
    res['large_unstable'] += bu
    # the history suite is split between the four processes: this one takes the arrays of its share
    share = int(os.environ.get('C18_HISTORY_SHARE', '0'))
    res['history_share'] = share
    with phase('history suite (share %d of 4)' % share):
        res['history_bad'], res['history_evals'], res['history_arrays'] = F.history_suite(base_seed, tier, share, 4)
    try:
        configs = [('synchronous', 1, 0.0, None)]
        workers = [1, 2, 4, 16]
        for w in workers:
            configs.append(('threads', w, 0.002, None))
        configs.append(('threads', 4, 0.004, 't{partition}'))
        configs.append(('synchronous', 1, 0.0, None))          # repeated run
        if tier != 'quick':
            for _ in range(12):
                configs.append(('threads', rng.choice(workers), rng.choice([0.0, 0.001, 0.006]),
                                rng.choice([None, 't{partition}', '{uuid}/t{partition}'])))
        for ci, (sch, w, delay, tf) in enumerate(configs):
            with phase('scheduled runs (%d configurations)' % len(configs)), dask.config.set(scheduler=sch, num_workers=w):
                want_trace = sch == 'threads' and w in (4, 16)
                out, extra = run_suite(df, right, 4, tmp, f'c{ci}', rng.randrange(10 ** 6), delay,
                                       want_trace=want_trace, tempdir_format=tf)
            res['runs'].append({'scheduler': sch, 'num_workers': w, 'delay': delay, 'tempdir_format': tf,
                                'digests': out})
            if extra is not None:
                extra.update(scheduler=sch, num_workers=w)
                res['traces'].append(extra)
    finally:
        shutil.rmtree(tmp, ignore_errors=True)
    res['phase_seconds'] = {k: [round(v[0], 1), round(v[1], 1)] for k, v in PHASES.items()}
    return res


# ======================================================================
# (3) N client threads sharing one object
# ======================================================================
EV = {'on': False, 'lock': threading.RLock(), 'events': [], 'target': None}


def spy_attr(obj, attr):
    """record every read / write of obj.<attr> as (thread, 0 | 1); the access and its record are
    one atomic step"""
    base = type(obj)

    class Spy(base):
        def __getattribute__(self, name):
            if name == attr and EV['on'] and self is EV['target']:
                with EV['lock']:
                    v = base.__getattribute__(self, name)
                    EV['events'].append((threading.get_ident(), 0))
                    return v
            return base.__getattribute__(self, name)

        def __setattr__(self, name, value):
            if name == attr and EV['on'] and self is EV['target']:
                with EV['lock']:
                    base.__setattr__(self, name, value)
                    EV['events'].append((threading.get_ident(), 1))
                return
            base.__setattr__(self, name, value)
    Spy.__name__ = base.__name__
    Spy.__qualname__ = base.__qualname__
    Spy.__module__ = base.__module__
    obj.__class__ = Spy
    EV['target'] = obj
    return obj


def worker_clients(seed, tier):
    import dask
    import dask.dataframe as dd
    import numpy as np
    import spatialpandas.dask  # noqa: F401
    from spatialpandas import GeoDataFrame, GeoSeries
    from spatialpandas.spatialindex import HilbertRtree
    sys.setswitchinterval(1e-5)
    N = 8
    rounds = 5 if tier == 'quick' else 50
    df0, right = make_frames(400, 11)
    box = (20.0, 30.0, 70.0, 90.0)
    failures = []
    counts = {}
    schedules = []
    retried = {}
    dask_internal = []
    spy_unavailable = {}

    def race(name, fresh, access, canon, cell=None, cfg=None):
        """fresh() -> a new shared object; access(obj) -> result; canon(result) -> comparable;
        cell(obj) -> (object holding the cache, attribute) to spy on; cfg = (k, mw) of the model"""
        expected = canon(access(fresh()))
        for rd in range(rounds):
            obj = fresh()
            spied = False
            if cell is not None:
                # optional extra: record the reads / writes of the private cache cell
                try:
                    holder, attr = cell(obj)
                    if attr in vars(holder):
                        spy_attr(holder, attr)
                        spied = True
                except Exception:  # noqa: BLE001
                    spied = False
                if not spied:
                    spy_unavailable[name] = spy_unavailable.get(name, 0) + 1
            bar = threading.Barrier(N)
            got = [None] * N
            tids = [None] * N

            def client(i):
                tids[i] = threading.get_ident()
                try:
                    bar.wait()
                    got[i] = ('ok', canon(access(obj)))
                except Exception as e:  # noqa: BLE001
                    got[i] = ('raised', f'{type(e).__name__}: {str(e)[:120]}')
            ths = [threading.Thread(target=client, args=(i,)) for i in range(N)]
            EV['events'] = []
            EV['on'] = spied
            for t in ths:
                t.start()
            for t in ths:
                t.join()
            EV['on'] = False
            events = list(EV['events'])
            counts[name] = counts.get(name, 0) + 1
            bad = [g for g in got if g != ('ok', expected)]
            # Dask itself is not fully thread-safe when several threads compute collections that
            # share expression objects: very rarely a client dies inside Dask's graph machinery
            # with KeyError(<task key>).  Not spatialpandas code: counted, the round is repeated
            # (a second failure of the same round is reported).
            if bad and all(g[0] == 'raised' and re.match(r"KeyError: '[A-Za-z_\-]+-[0-9a-f]{32}'", g[1])
                           for g in bad) and not retried.get((name, rd)):
                retried[(name, rd)] = True
                dask_internal.append({'object': name, 'round': rd, 'got': [g[1] for g in bad]})
                continue
            if bad:
                failures.append({'object': name, 'round': rd, 'expected': str(expected)[:200],
                                 'got': [str(b)[:200] for b in bad[:3]]})
                return
            if spied:
                idx = {t: i for i, t in enumerate(tids)}
                schedules.append({'object': name, 'cfg': list(cfg), 'threads': N,
                                  'sched': [idx.get(t, N) for t, _k in events],
                                  'kinds': [k for _t, k in events]})
            # the cache left behind answers like a single-threaded one
            again = canon(access(obj))
            if again != expected:
                failures.append({'object': name, 'round': rd, 'expected': str(expected)[:200],
                                 'got': ['after the race: ' + str(again)[:200]]})
                return

    srng = random.Random(seed)

    def race_mixed(name, fresh, accesses, nthreads=12, nrounds=None, stagger=0.012):
        """like race(), but thread i performs accesses[i % len(accesses)] = (access, canon): the
        FIRST accesses of different kinds to one shared fresh object happen at once"""
        expected = [canon(access(fresh())) for access, canon in accesses]
        for rd in range(nrounds or rounds):
            obj = fresh()
            bar = threading.Barrier(nthreads)
            got = [None] * nthreads
            # staggered starts (seeded, up to `stagger` seconds; growing with the round): a late thread
            # can meet what an early one has half published
            naps = [0.0 if i == 0 else srng.random() * stagger * (1 + rd % 3) / 3 for i in range(nthreads)]

            def client(i):
                access, canon = accesses[i % len(accesses)]
                try:
                    bar.wait()
                    if naps[i]:
                        time.sleep(naps[i])
                    got[i] = ('ok', canon(access(obj)))
                except Exception as e:  # noqa: BLE001
                    got[i] = ('raised', f'{type(e).__name__}: {str(e)[:120]}')
            ths = [threading.Thread(target=client, args=(i,)) for i in range(nthreads)]
            for t in ths:
                t.start()
            for t in ths:
                t.join()
            counts[name] = counts.get(name, 0) + 1
            bad = [(i, g) for i, g in enumerate(got) if g != ('ok', expected[i % len(accesses)])]
            if not bad:
                # whatever was cached / published last answers like a single-threaded object
                for k, (access, canon) in enumerate(accesses):
                    again = canon(access(obj))
                    if again != expected[k]:
                        bad.append((f'after the race, access {k}', ('ok', again)))
                        break
            if bad:
                failures.append({'object': name, 'round': rd, 'expected': [str(e)[:120] for e in expected],
                                 'got': [f'thread {i}: {str(g)[:160]}' for i, g in bad[:3]]})
                return

    # large point arrays with missing elements (placeholder bytes (0, 0)), a box over the origin
    import pyarrow as pa
    from spatialpandas.geometry import PointArray
    nbig = 250000 if tier == 'quick' else 400000
    rs = np.random.RandomState(3)
    xy = np.empty((nbig, 2))
    xy[:, 0] = rs.randint(-2000, 2000, nbig) / 4.0
    xy[:, 1] = rs.randint(-2000, 2000, nbig) / 4.0
    miss = rs.rand(nbig) < 0.1
    xy[miss] = 0.0
    valid = np.packbits(~miss, bitorder='little')
    big = PointArray(pa.FixedSizeBinaryArray.from_buffers(
        pa.binary(16), nbig, [pa.py_buffer(valid.tobytes()), pa.py_buffer(xy.tobytes())]), dtype='float64')
    obox = (-6.0, -5.0, 7.0, 8.0)

    def cx_canon(r):
        b = np.asarray(r.bounds, dtype=float)
        return [int(np.asarray(r.isna()).sum()), len(r), _floats(b[np.lexsort((b[:, 1], b[:, 0]))])]
    big_accesses = [
        (lambda a: a.bounds, lambda r: _floats(r)),
        (lambda a: a.sindex.intersects(np.array(obox)), lambda r: _h(sorted(np.asarray(r).tolist()))),
        (lambda a: a.build_sindex().cx[obox[0]:obox[2], obox[1]:obox[3]], cx_canon),
        (lambda a: a.sindex.covers_overlaps(np.array(obox)),
         lambda r: _h([sorted(np.asarray(r[0]).tolist()), sorted(np.asarray(r[1]).tolist())])),
    ]
    mark('clients: first access to 250 000-point objects')
    race_mixed('PointArray 250k with missing: bounds / sindex / cx at once',
               lambda: big.copy(), big_accesses, nrounds=8 if tier == 'quick' else 30)
    big_ids = np.arange(nbig)
    race_mixed('GeoSeries 250k with missing: cx / sindex at once',
               lambda: GeoSeries(big.copy(), index=big_ids),
               [(lambda s_: s_.build_sindex().cx[obox[0]:obox[2], obox[1]:obox[3]],
                 lambda r: _h(sorted(r.index.tolist()))),
                (lambda s_: s_.sindex.intersects(np.array(obox)), lambda r: _h(sorted(np.asarray(r).tolist()))),
                (lambda s_: s_.bounds.values, lambda r: _floats(r))],
               nrounds=3 if tier == 'quick' else 12)
    race_mixed('GeoDataFrame 250k with missing: cx at once',
               lambda: GeoDataFrame({'pt': big.copy(), 'id': big_ids}),
               [(lambda d: d.build_sindex().cx[obox[0]:obox[2], obox[1]:obox[3]],
                 lambda r: _h(sorted(r['id'].tolist())))],
               nrounds=3 if tier == 'quick' else 12)

    mark('clients: 13 kinds of shared object')
    pts = df0['pt'].array
    pgs = df0['pg'].array
    bounds = np.asarray(pgs.bounds, dtype='float64')
    bounds = bounds[~np.isnan(bounds).any(axis=1)]
    ilist = lambda r: sorted(np.asarray(r).tolist())  # noqa: E731

    race('GeometryArray.sindex (points)', lambda: pts.copy(),
         lambda a: a.sindex.intersects(np.array(box)), ilist,
         cell=lambda a: (a, '_sindex'), cfg=(1, 0))
    race('GeometryArray.build_sindex+cx (polygons)', lambda: pgs.copy(),
         lambda a: a.build_sindex().cx[box[0]:box[2], box[1]:box[3]],
         lambda r: sorted(np.asarray(r.bounds, dtype=float)[:, 0].tolist()),
         cell=lambda a: (a, '_sindex'), cfg=(0, 0))
    race('GeoSeries.cx', lambda: GeoSeries(pts.copy(), index=df0.index),
         lambda s: s.cx[box[0]:box[2], box[1]:box[3]], lambda r: sorted(r.index.tolist()))
    race('GeoSeries.sindex', lambda: GeoSeries(pts.copy(), index=df0.index),
         lambda s: s.sindex.intersects(np.array(box)), ilist,
         cell=lambda s: (s.array, '_sindex'), cfg=(1, 0))
    race('GeoDataFrame.cx', lambda: GeoDataFrame(df0), lambda d: d.cx[box[0]:box[2], box[1]:box[3]],
         lambda r: sorted(r['id'].tolist()))
    race('GeoDataFrame.build_sindex+cx', lambda: GeoDataFrame(df0),
         lambda d: d.build_sindex().cx[box[0]:box[2], box[1]:box[3]], lambda r: sorted(r['id'].tolist()),
         cell=lambda d: (d['pt'].array, '_sindex'), cfg=(0, 0))
    race('HilbertRtree.intersects (numba_rtree)', lambda: HilbertRtree(bounds, page_size=16),
         lambda t: t.intersects(np.array(box)), ilist,
         cell=lambda t: (t, '_numba_rtree'), cfg=(0, 0))
    def hammer(q, k=150):
        def f(obj):
            first = q(obj)
            for _ in range(k):
                nxt = q(obj)
                if ilist(nxt) != ilist(first):
                    return np.array([-1])
            return first
        return f
    race('HilbertRtree.intersects x150 per thread', lambda: HilbertRtree(bounds, page_size=16),
         hammer(lambda t: t.intersects(np.array(box))), ilist)
    race('GeometryArray.sindex.intersects x150 per thread', lambda: pts.copy(),
         hammer(lambda a: a.sindex.intersects(np.array(box))), ilist)
    race('HilbertRtree.covers_overlaps', lambda: HilbertRtree(bounds, page_size=16),
         lambda t: t.covers_overlaps(np.array(box)),
         lambda r: [ilist(r[0]), ilist(r[1])])
    with dask.config.set(scheduler='synchronous'):
        race('DaskGeoSeries.partition_bounds', lambda: dd.from_pandas(GeoDataFrame(df0), npartitions=4)['pt'],
             lambda s: s.partition_bounds, lambda r: _floats(r.values),
             cell=lambda s: (s, '_partition_bounds'), cfg=(0, 1))
        race('DaskGeoSeries.partition_sindex', lambda: dd.from_pandas(GeoDataFrame(df0), npartitions=4)['pt'],
             lambda s: s.partition_sindex.intersects(np.array(box)), ilist,
             cell=lambda s: (s, '_partition_sindex'), cfg=(0, 0))
        race('DaskGeoDataFrame.partition_sindex', lambda: dd.from_pandas(GeoDataFrame(df0), npartitions=4),
             lambda d: d.partition_sindex.intersects(np.array(box)), ilist)
        race('DaskGeoDataFrame.cx', lambda: dd.from_pandas(GeoDataFrame(df0), npartitions=4),
             lambda d: d.cx[box[0]:box[2], box[1]:box[3]].compute(), lambda r: sorted(r['id'].tolist()))
    with dask.config.set(scheduler='threads', num_workers=4):
        race('DaskGeoDataFrame.cx (threads scheduler)', lambda: dd.from_pandas(GeoDataFrame(df0), npartitions=4),
             lambda d: d.cx[box[0]:box[2], box[1]:box[3]].compute(), lambda r: sorted(r['id'].tolist()))
    # ---- concurrent sjoin on SHARED frames (same left / right frame; column subsets of one
    # frame, which share its Index object) ----
    import pandas as pd
    from spatialpandas import sjoin
    mark('clients: sjoin on shared frames')

    def frame_face(f):
        return (type(f).__name__, list(f.index.names), [str(c) for c in f.columns], len(f))

    def sj_canon(r):
        cols_ = [str(c) for c in r.columns]
        pairs = r[['id', 'rid']].astype('float64').fillna(-1.0).values.tolist() if 'id' in cols_ and 'rid' in cols_ else []
        return [type(r).__name__, list(r.index.names), cols_, _h(sorted(map(tuple, pairs)))]

    def index_variant(f, kind, tag):
        f = f.copy()
        if kind == 'named':
            f.index = pd.Index(np.arange(len(f)) * 3 + 1, name=f'{tag}_idx')
        elif kind == 'multi':
            f.index = pd.MultiIndex.from_arrays([np.arange(len(f)) // 7, np.arange(len(f)) % 7],
                                                names=[f'{tag}_hi', f'{tag}_lo'])
        return f
    left0 = GeoDataFrame({'id': df0['id'].values, 'pt': df0['pt'].array, 'a': np.arange(len(df0)) % 5})
    hows = ['inner', 'left', 'right']
    for kind in ('unnamed', 'named', 'multi'):
        for sharing in ('same-frames', 'column-subsets'):
            name = f'sjoin x8 threads ({kind} index, {sharing})'
            L = index_variant(left0, kind, 'l')
            R = index_variant(right, kind, 'r')

            def one(i, how):
                l_, r_ = (L, R) if sharing == 'same-frames' else (L[['pt', 'id']], R[['geometry', 'rid']])
                return sj_canon(sjoin(l_, r_, how=how))
            expected = {h: one(0, h) for h in hows}
            faces = (frame_face(L), frame_face(R))
            for rd in range(2 if tier == 'quick' else 10):
                bar = threading.Barrier(N)
                got = [None] * N

                def client(i):
                    try:
                        bar.wait()
                        out_ = []
                        for k in range(4):
                            h = hows[(i + k) % 3]
                            out_.append((h, one(i, h)))
                        got[i] = ('ok', out_)
                    except Exception as e:  # noqa: BLE001
                        got[i] = ('raised', f'{type(e).__name__}: {str(e)[:120]}')
                ths = [threading.Thread(target=client, args=(i,)) for i in range(N)]
                for t in ths:
                    t.start()
                for t in ths:
                    t.join()
                counts[name] = counts.get(name, 0) + 1
                bad = [g for g in got if g[0] != 'ok' or any(v != expected[h] for h, v in g[1])]
                after = (frame_face(L), frame_face(R))
                if bad or after != faces:
                    failures.append({'object': name, 'round': rd,
                                     'expected': str(expected['inner'])[:200],
                                     'got': [str(b)[:300] for b in bad[:2]] +
                                            ([f'the callers\' frames changed: {faces} -> {after}'] if after != faces else [])})
                    break

    # ---- two pack_partitions_to_parquet computations overlapping in one process and sharing a
    # tempdir_format with {uuid}: same files / rows as the two packs run one after the other ----
    mark('clients: two overlapping packs')
    dfB, _rb = make_frames(300, 23)
    dfB = dfB.assign(id=dfB['id'] + 100000)
    scratch = tempfile.mkdtemp(prefix='sp_c18_pack2_')
    try:
        def pack_one(frame, path, fmt, fs_seed):
            fs = DelayFS.make(fs_seed, 0.002, slow_unit=0.02)
            kw = {'_retry_args': dict(wait_exponential_multiplier=1, wait_exponential_max=20,
                                      stop_max_attempt_number=6)}
            ddf = dd.from_pandas(frame, npartitions=4)
            try:
                ddf.pack_partitions_to_parquet(path, filesystem=fs, npartitions=3, p=10, tempdir_format=fmt, **kw)
            except TypeError:
                ddf.pack_partitions_to_parquet(path, filesystem=fs, npartitions=3, p=10, tempdir_format=fmt)

        def dataset_face(path):
            from spatialpandas.io import read_parquet
            files = sorted(os.path.relpath(os.path.join(dp, f), path) for dp, _dn, fn in os.walk(path) for f in fn)
            rows = {f: read_parquet(os.path.join(path, f))['id'].tolist() for f in files if f.startswith('part.')}
            return [files, rows]

        def leftovers(root):
            return sorted(os.path.relpath(os.path.join(dp, f), root) for dp, _dn, fn in os.walk(root) for f in fn)

        def run_two(tag, concurrent):
            base = os.path.join(scratch, tag)
            tmproot = os.path.join(base, 'tmp')
            os.makedirs(tmproot)
            fmt = os.path.join(tmproot, '{uuid}', 'part-{partition}')
            pa_, pb_ = os.path.join(base, 'A.parq'), os.path.join(base, 'B.parq')
            errs = []

            def job(frame, path, seed_):
                try:
                    pack_one(frame, path, fmt, seed_)
                except Exception as e:  # noqa: BLE001
                    errs.append(f'{type(e).__name__}: {str(e)[:160]}')
            if concurrent:
                ths = [threading.Thread(target=job, args=(df0, pa_, 1)), threading.Thread(target=job, args=(dfB, pb_, 2))]
                for t in ths:
                    t.start()
                for t in ths:
                    t.join()
            else:
                job(df0, pa_, 1)
                job(dfB, pb_, 2)
            if errs:
                return ('raised', errs)
            return ('ok', _h([dataset_face(pa_), dataset_face(pb_), leftovers(tmproot)]))
        with dask.config.set(scheduler='threads', num_workers=2):
            want = run_two('seq', False)
            name = 'two overlapping pack_partitions_to_parquet sharing a {uuid} tempdir_format'
            for rd in range(2 if tier == 'quick' else 6):
                got2 = run_two(f'conc{rd}', True)
                counts[name] = counts.get(name, 0) + 1
                if got2 != want or want[0] != 'ok':
                    failures.append({'object': name, 'round': rd, 'expected': str(want)[:200], 'got': [str(got2)[:400]]})
                    break
    finally:
        shutil.rmtree(scratch, ignore_errors=True)

    mark(None)
    from . import c18_float as F
    with phase('clients: mixed queries on one shared array'):
        hf, hc = F.client_history(seed, tier, N)
    failures.extend(hf)
    counts['7 kinds of array shared by 8 threads putting mixed (ordinary / all / none / degenerate) queries'] = hc

    return {'failures': failures, 'counts': counts, 'clients': N, 'schedules': schedules,
            'dask_internal': dask_internal, 'spy_unavailable': spy_unavailable,
            'phase_seconds': {k: [round(v[0], 1), round(v[1], 1)] for k, v in PHASES.items()}}


def main():
    what, seed, tier = sys.argv[1], int(sys.argv[2]), sys.argv[3]
    fn = {'footprint': worker_footprint, 'sched': worker_sched, 'clients': worker_clients}[what]
    t0, c0 = time.time(), time.process_time()
    try:
        res = fn(seed, tier)
    except Exception:  # noqa: BLE001
        import traceback
        res = {'crashed': traceback.format_exc()[-3000:]}
    res.setdefault('phase_seconds', {})['whole worker (after interpreter start)'] = [
        round(time.time() - t0, 1), round(time.process_time() - c0, 1)]
    sys.stdout.write('\n' + json.dumps(res) + '\n')


if __name__ == '__main__':
    main()
