"""C03, second input class: coordinates that are NOT on the small half grid.

The first part of the check (c03.py) draws rows with integer corners in 0..3 and queries on
the half grid -0.5..3.5.  The property quantifies over every box and every query box, so this
module adds, on every run:

  * UNBOUNDED query boxes: any subset of the query's sides at -inf / +inf (half-lines,
    half-planes, slabs, the query that covers everything), also the wrong way round
    (min = +inf or max = -inf: matches nothing), on non-empty and empty indexes, d = 1, 2, 3,
    every page size, several curve orders;
  * huge finite sides (+-1e308, +-float max, +-2^53 and neighbours, 1e16, 1e22), tiny ones
    (subnormals, 1e-11), +-0.0, many-digit decimals, and sides ONE ULP below / on / above a
    row's side (the ties of < against <= as they occur between arbitrary doubles);
  * rows with such coordinates, including rows with infinite sides ([-inf, x], [x, inf],
    [-inf, inf], [inf, inf]) beside NaN rows;
  * box sets whose total extent on some axis has width 0 at |coordinate| >= 2^53 (all points on
    one meridian at x = 1e16, ...): the index must build and answer (the constructor raised
    ZeroDivisionError until /repo 7cf01a0);
  * indexes with more rows than the default page size (511, 512, 513, 1025, 1100 rows) asked
    unbounded and off-grid queries;
  * the query argument in the forms a caller passes it: tuple / list of Python floats, numpy
    float64 array, numpy scalars, a strided view, float32 array (when every side is a float32),
    Python ints (when every side is an integer).

NaN query sides are NOT asked: a box with an undefined side is not a query box, the property
says nothing about it.

Oracles (no tolerance anywhere):
  (a) the brute-force specification (c03_util.brute_batch: IEEE comparisons of the very doubles
      that were passed, exact by definition, +-inf included);
  (b) Model/Rtree.v inside the Coq kernel, through an ORDER EMBEDDING: the distinct values of
      the build (rows, queries, reported total_bounds; -0.0 = 0.0; -inf / +inf the least /
      greatest) are replaced by their ranks 0, 1, 2, ...  The model only compares and takes
      min / max, and theorem C03_monotone (Properties/C03.v) proves that a strictly increasing
      renaming of the coordinates changes no answer and renames total_bounds, so the model on
      the ranks decides the doubles; C03_unbounded_query proves that a side beyond every row
      coordinate (the image of +-inf) behaves as an absent constraint.
"""
import sys

import numpy as np

from . import common as C
from . import c03_util as U

INF = float('inf')
NAN = float('nan')
FMAX = sys.float_info.max


def up(x):
    return float(np.nextafter(x, INF))


def down(x):
    return float(np.nextafter(x, -INF))


# finite coordinates that are not small half-integers
POOL = [0.0, -0.0, 5e-324, -5e-324, 2.2250738585072014e-308, -2.2250738585072014e-308, 1e-11, -1e-11,
        0.1, 0.2, 0.30000000000000004, 1.0 / 3.0, 0.5, 1.0, up(1.0), down(1.0), 2.0, 2.5, 3.0,
        -0.1, -1.0, down(-1.0), up(-1.0), -2.5,
        180.0, down(180.0), -180.0, up(-180.0), 90.0, -90.0,
        -122.41941550000001, 37.774929499999999, 1000000.1, -1000000.1, 16777216.0, 16777217.0,
        2.0 ** 53, 2.0 ** 53 + 2, 2.0 ** 53 - 1, -2.0 ** 53, 1e16, -1e16, 1e22, 1e300, -1e300,
        1e308, -1e308, FMAX, -FMAX, down(FMAX), up(-FMAX)]


# --------------------------------------------------------------------------
# order embedding into the integers
# --------------------------------------------------------------------------
def rank_of(rows, queries, tb):
    vals = set()
    for r in rows:
        vals.update(float(x) for x in r if x == x)
    for q in queries:
        vals.update(float(x) for x in q)
    vals.update(float(x) for x in tb if x == x)
    order = sorted(vals)                    # -0.0 == 0.0: one value; -inf first, +inf last
    return {v: i for i, v in enumerate(order)}


def _rtxt(r, rk):
    return '[' + '; '.join('None' if x != x else f'Some {rk[float(x)]}' for x in r) + ']'


def case_and_result(b):
    """(case, result) of rtree_case_public for the build b on the ranks of its values"""
    rk = rank_of(b.rows, b.queries, b.tb)
    rows = C.Raw('[' + '; '.join(_rtxt(r, rk) for r in b.rows) + ']%Z')
    qs = C.Raw('[' + '; '.join('[' + '; '.join(str(rk[float(x)]) for x in q) + ']'
                                for q in b.queries) + ']%Z')
    case = (C.Nat(b.d), rows, C.Nat(max(0, b.page_size)), qs)
    res = (C.Raw(_rtxt(b.tb, rk) + '%Z'), b._packed())
    return case, res, rk


# --------------------------------------------------------------------------
# the forms in which a caller passes the query box
# --------------------------------------------------------------------------
def _f32ok(q):
    with np.errstate(over='ignore'):
        return all(float(np.float32(x)) == x for x in q)


def _intok(q):
    return all(abs(x) < 2.0 ** 53 and x == int(x) for x in q)


def _strided(q):
    a = np.zeros(2 * len(q), dtype='float64')
    a[::2] = q
    return a[::2]


FORMS = [
    ('tuple', lambda q: tuple(float(x) for x in q)),
    ('list', lambda q: [float(x) for x in q]),
    ('ndarray', lambda q: np.array(q, dtype='float64')),
    ('np.float64 scalars', lambda q: tuple(np.float64(x) for x in q)),
    ('strided view', _strided),
    ('float32 array', lambda q: np.array(q, dtype='float32') if _f32ok(q) else tuple(q)),
    ('python ints', lambda q: tuple(int(x) for x in q) if _intok(q) else tuple(q)),
    ('np.int64 array', lambda q: np.array(q, dtype='int64') if _intok(q) else tuple(q)),
]

_cls = {}


def fbuild_cls(H):
    """c03.Build with the query passed in one of FORMS"""
    if 'c' not in _cls:
        class FBuild(H.Build):
            form = 0

            def _ask(self, queries):
                t = self.tree_obj
                f = FORMS[self.form][1]
                kept = []
                for q in queries:
                    it = t.intersects(f(q))
                    cv, ov = t.covers_overlaps(f(q))
                    kept.append((it, cv, ov))
                return kept

            def meta(self):
                m = super().meta()
                m['query_form'] = FORMS[self.form][0]
                m['form'] = self.form
                return m
        _cls['c'] = FBuild
    return _cls['c']


# --------------------------------------------------------------------------
# generators
# --------------------------------------------------------------------------
def unbound(rng, d, q):
    """q with a non-empty subset of its sides at infinity"""
    q = list(q)
    u = rng.random()
    if u < 0.15:
        return [-INF] * d + [INF] * d
    sides = rng.sample(range(2 * d), rng.randint(1, 2 * d))
    wrong = rng.random() < 0.12
    for s in sides:
        q[s] = (-INF if s < d else INF)
        if wrong:
            q[s] = -q[s]                   # min = +inf / max = -inf: an empty box
            wrong = False
    return q


def local_pool(rng):
    """a handful of finite values with their one-ulp neighbours: the coordinates of one build"""
    base = rng.sample(POOL, rng.randint(2, 5))
    if rng.random() < 0.5:
        x = rng.choice([1.0, 1e3, 1e-3, 1e9]) * (rng.random() - 0.5)
        base += [x, x + abs(x) * rng.choice([1e-15, 1e-11, 1e-3])]     # extent tiny / magnitude
    vals = set()
    for v in base:
        vals.add(v)
        if rng.random() < 0.6:
            vals.add(up(v))
        if rng.random() < 0.6:
            vals.add(down(v))
    return [v for v in vals if v == v and abs(v) != INF]


def float_rows(rng, d, n, pool, inf_rows):
    rows = []
    for _ in range(n):
        u = rng.random()
        if rows and u < 0.12:
            rows.append(list(rng.choice(rows)))
            continue
        if u < 0.22:
            r = [NAN] * (2 * d)
            if rng.random() < 0.3:
                r = [rng.choice(pool) for _ in range(2 * d)]
                r[rng.randrange(2 * d)] = NAN
            rows.append(r)
            continue
        lo, hi = [], []
        for k in range(d):
            a, b = rng.choice(pool), rng.choice(pool)
            if rng.random() < 0.3:
                b = a
            a, b = (a, b) if a <= b else (b, a)
            if inf_rows and rng.random() < 0.25:
                a, b = rng.choice([(-INF, b), (a, INF), (-INF, INF), (INF, INF), (-INF, -INF)])
            lo.append(a)
            hi.append(b)
        rows.append(lo + hi)
    return rows


def float_queries(rng, d, rows, pool, nq):
    fin = [r for r in rows if not U.isnan_row(r)]
    qs = [[-INF] * d + [INF] * d, [-FMAX] * d + [FMAX] * d]
    if fin:
        qs.append(U.brute_total(fin, d))
    while len(qs) < nq:
        u = rng.random()
        if fin and u < 0.6:
            r = rng.choice(fin)
            q = []
            for s in range(2 * d):
                x = r[s]
                v = rng.random()
                if v < 0.3:
                    pass                                   # on the row's side
                elif v < 0.5:
                    x = up(x)
                elif v < 0.7:
                    x = down(x)
                elif v < 0.8:
                    x = -INF if s < d else INF
                elif v < 0.9:
                    x = rng.choice(pool)
                else:
                    x = r[(s + d) % (2 * d)]               # on the opposite side
                q.append(x)
        elif u < 0.75:
            pt = [rng.choice(pool) for _ in range(d)]      # degenerate
            q = pt + pt
        else:
            lo, hi = [], []
            for k in range(d):
                a, b = sorted((rng.choice(pool), rng.choice(pool)))
                lo.append(a)
                hi.append(b)
            q = lo + hi
            if rng.random() < 0.5:
                q = unbound(rng, d, q)
        qs.append([float(x) for x in q])
    return qs


EXH_ROW_VALUES = [0.0, 1.0, -INF, INF]
EXH_QUERY_VALUES = [-INF, -1e308, 0.0, 0.5, 1.0, up(1.0), 1e308, INF]


def gen(rep, tier):
    """(d, rows, page_size, p, queries, tag)"""
    rng = rep.rng
    quick = tier == 'quick'
    # (1) d = 1, every sequence of n <= 2 rows over intervals with ends in {-inf, 0, 1, inf} and
    #     the NaN row x every page size x every query with sides in EXH_QUERY_VALUES
    ivs = [[a, b] for a in EXH_ROW_VALUES for b in EXH_ROW_VALUES if a <= b] + [[NAN, NAN]]
    qx = [[a, b] for a in EXH_QUERY_VALUES for b in EXH_QUERY_VALUES]
    import itertools
    for n in range(0, 3 if quick else 4):
        for rows in itertools.product(ivs, repeat=n):
            for ps in range(1, n + 2):
                yield (1, [list(r) for r in rows], ps, rng.choice([1, 10, 31]), qx, 'float:exh1d')
    # (2) grid rows, unbounded queries
    for i in range(300 if quick else 20000):
        d = rng.choice([1, 2, 2, 3])
        n = rng.choice([0, 1, 2, 3, 5, 8, 12]) if quick or rng.random() < 0.5 else rng.randint(0, 60)
        rows = U.rand_rows(rng, d, n)
        if not U.well_formed(rows, d):
            continue
        base, extra = U.page_sizes(rng, n)
        ps = rng.choice(base + extra)
        qs = [[-INF] * d + [INF] * d] + [unbound(rng, d, q) for q in U.rand_queries(rng, d, rows, 19)]
        yield (d, rows, ps, rng.choice([1, 2, 10, 31]), qs, 'float:unbounded-query')
    # (3) off-grid rows (some with infinite sides) and off-grid / unbounded queries
    for i in range(400 if quick else 30000):
        d = rng.choice([1, 2, 2, 3])
        n = rng.choice([1, 2, 3, 4, 6, 9, 12]) if quick or rng.random() < 0.5 else rng.randint(0, 60)
        pool = local_pool(rng)
        rows = float_rows(rng, d, n, pool, inf_rows=rng.random() < 0.4)
        base, extra = U.page_sizes(rng, n)
        ps = rng.choice(base + extra)
        yield (d, rows, ps, rng.choice([1, 2, 10, 31]), float_queries(rng, d, rows, pool, 24),
               'float:offgrid')
    # (3b) box sets whose total extent on an axis has width 0 at a magnitude where x + 1 == x
    for i in range(40 if quick else 2000):
        d = rng.choice([1, 2, 2, 3])
        n = rng.choice([1, 1, 2, 3, 5, 9])
        flat = rng.sample(range(d), rng.randint(1, d))           # the axes without extent
        big = rng.choice([2.0 ** 53, -2.0 ** 53, 2.0 ** 53 + 2, 1e16, -1e16, 1e22, 1e300, -1e300,
                          FMAX, -FMAX])
        pool = local_pool(rng)
        rows = float_rows(rng, d, n, pool, inf_rows=False)
        for r in rows:
            if not U.isnan_row(r):
                for k in flat:
                    r[k] = r[d + k] = big
        if all(U.isnan_row(r) for r in rows):
            rows[0] = [big] * (2 * d)
        ps = rng.choice([1, 2, n, n + 1, 512])
        yield (d, rows, ps, rng.choice([1, 2, 10, 31]),
               float_queries(rng, d, rows, pool + [big, up(big), down(big)], 16), 'float:flat-extent')
    # (4) more rows than the default page size
    for n in ([511, 513, 1030] if quick else [511, 512, 513, 1024, 1025, 1100, 2049]):
        d = 2
        rows = []
        for i in range(n):
            x, y = rng.uniform(-180, 180), rng.uniform(-90, 90)
            w, h = rng.choice([0.0, 1e-9, rng.random()]), rng.choice([0.0, rng.random() * 5])
            rows.append([x, y, x + w, y + h])
        for i in rng.sample(range(n), 7):
            rows[i] = [NAN] * 4
        r = rows[rng.randrange(n)]
        while U.isnan_row(r):
            r = rows[rng.randrange(n)]
        qs = [[-INF, -INF, INF, INF], [-INF, 0.0, 0.0, INF], [0.0, -INF, INF, 0.0],
              [r[0], r[1], INF, INF], [-INF, -INF, down(r[2]), r[3]], [up(r[0]), r[1], r[2], r[3]],
              list(r), [-INF, r[1], INF, r[1]], [-FMAX, -FMAX, FMAX, FMAX], [INF, INF, INF, INF]]
        yield (d, rows, 512, 10, qs, 'float:pages')


def absorbed_extent(rows, d):
    """the boxes have total extent of width 0 on some axis at a magnitude where x + 1 == x
    (|x| >= 2^53): rtree._distances_from_bounds widens the range by + 1, which is absorbed, and
    _data2coord divides by the zero width -> ZeroDivisionError in the constructor (the same
    mechanism is modelled by C08, Model/FloatData2Coord.v) -- repaired in /repo (7cf01a0);
    used to count the class"""
    tb = U.brute_total(rows, d)
    return any(tb[k] == tb[d + k] and tb[k] + 1 == tb[k] and abs(tb[k]) != INF for k in range(d))


# --------------------------------------------------------------------------
def diagnose(H, b):
    """one readable kernel evaluation on the ranks (keys = identity)"""
    rk = rank_of(b.rows, b.queries, b.tb)
    inv = {i: v for v, i in rk.items()}
    case = (C.Nat(b.d), [[None if x != x else C.Some(rk[float(x)]) for x in r] for r in b.rows],
            [C.Nat(k) for k in range(len(b.rows))], C.Nat(max(0, b.page_size)),
            [[rk[float(x)] for x in q] for q in b.queries])
    txt = C.coq_eval(H.IMPORTS, f'{H.FN} {C.coq(case)}')
    impl_sorted = [[sorted(x) for x in tr] for tr in b.impl]
    rp = {**b.meta(), 'encoding': 'ranks of the distinct values', 'model_keys': 'identity',
          'impl': {'total_bounds': b.tb, 'results': impl_sorted}}
    try:
        _t, mtb, mper = H.parse_model(txt)
        mtb_f = [NAN if z is None else inv[z] for z in mtb]
        if not H._same_floats(mtb_f, b.tb):
            return ('model:total_bounds', 'total_bounds differs from the proven model',
                    {**rp, 'model': mtb_f})
        for j, (m, tr) in enumerate(zip(mper, impl_sorted)):
            m = [list(z) for z in m]
            if m != tr:
                rp2 = {**rp, 'failing_query': b.queries[j], 'model': m, 'impl': tr}
                if m[0] != tr[0]:
                    return ('model:intersects', 'intersects differs from the proven model', rp2)
                return ('model:covers_overlaps', 'covers_overlaps differs from the proven model', rp2)
    except Exception as e:
        rp['parse_error'] = repr(e)
    rp['model'] = txt[:4000]
    return ('model:differs', 'query results differ from the proven model', rp)


def classify(rep, b):
    qs = b.queries
    rep.count('fq:unbounded', sum(1 for q in qs if any(abs(x) == INF for x in q)))
    rep.count('fq:everything', sum(1 for q in qs if all(abs(x) == INF for x in q)
                                   and all(q[k] < q[b.d + k] for k in range(b.d))))
    rep.count('fq:huge-finite', sum(1 for q in qs if any(1e300 <= abs(x) < INF for x in q)))
    if any(abs(x) == INF for r in b.rows for x in r):
        rep.count('build:row-with-infinite-side')


def run_float(rep, tier, H, defer=False):
    """the builds of gen() through the public API against the brute-force oracle and (on ranks)
    the model in the kernel.  Returns False when a violation was reported; with defer=True the
    kernel part is left running and a function that joins it is returned instead of True."""
    FB = fbuild_cls(H)
    rng = rep.rng
    group = []
    nb = 0
    import warnings
    with warnings.catch_warnings():
        warnings.simplefilter('ignore')         # inf - inf inside the curve scaling of inf rows
        for d, rows, ps, p, queries, tag in gen(rep, tier):
            nb += 1
            b = FB(d, rows, ps, p, queries, tag)
            b.form = rng.randrange(len(FORMS)) if tag != 'float:exh1d' else nb % len(FORMS)
            b.run(recheck_every=1 if tag != 'float:exh1d' else 7)
            rep.evaluations += len(queries)
            rep.count('build:' + tag)
            rep.count('query-form:' + FORMS[b.form][0])
            if absorbed_extent(rows, d):
                # the +1 widening of a zero extent is absorbed at this magnitude (repaired in
                # /repo 7cf01a0: the constructor raised ZeroDivisionError): an ordinary class now
                rep.count('build:zero-extent-beyond-2^53')
            if b.error:
                rep.violation(f'raises:{b.error[0]}', f'index build or query raised {b.error}',
                              {**b.meta(), 'error': b.error})
                return False
            if not H.report_state(rep, b):
                return False
            classify(rep, b)
            if not H.check_oracle(rep, b):
                return False
            if nb % 25 == 0:
                H.check_pickle(rep, b)
            if len(rows) <= 600 or tier != 'quick':     # kernel cost grows with n^2
                case, res, _rk = case_and_result(b)
                group.append(((d, rows, ps, p, queries, tag, b.form), case, res))
            del b
    rep.count('float:model_compared', len(group))
    # the large builds one per coqc process, beside the small ones
    big = [i for i, g in enumerate(group) if len(g[0][1]) > 100]
    small = [i for i, g in enumerate(group) if len(g[0][1]) <= 100]

    def mism(idx, shard):
        if not idx:
            return []
        r = C.coq_mismatches(H.IMPORTS, H.PUB_FN, H.PUB_TY, H.PUB_RES, [group[i][1] for i in idx],
                             [group[i][2] for i in idx], shard=shard, timeout=1500)
        return [idx[j] for j in r]
    import concurrent.futures as cf
    ex = cf.ThreadPoolExecutor(max_workers=2)
    f1 = ex.submit(mism, big, 1)
    f2 = ex.submit(mism, small, max(20, min(200, len(small) // (2 * C.NCPU) + 1)))

    def finish():
        """join the kernel evaluations (they run in coqc processes beside whatever the caller does
        meanwhile) and report the disagreements; False when there is one"""
        try:
            bad = sorted(f1.result() + f2.result())
        finally:
            ex.shutdown(wait=True)
        seen = set()
        for i in bad:
            if len(seen) > 3:
                break
            light = group[i][0]
            b = FB(*light[:6])
            b.form = light[6]
            with warnings.catch_warnings():
                warnings.simplefilter('ignore')
                sig, what, rp = diagnose(H, b.run())
            if sig not in seen:
                seen.add(sig)
                rep.violation(sig, what, rp)
        return not bad
    if defer:
        return finish
    return finish()


def replay(rep, rp, H, rows, queries):
    """replay of a violation found here (tag 'float:...')"""
    FB = fbuild_cls(H)
    b = FB(rp['d'], rows, rp['page_size'], rp['p'], queries, rp.get('tag', 'float:replay'))
    b.form = int(rp.get('form', 0))
    b.run()
    if b.error:
        print('impl raised', b.error)
        return False
    if b.state_error:
        print('stateful sequence (batch kept, input overwritten, batch asked again):', b.state_error)
        return False
    ok = H.check_oracle(rep, b)
    H.check_pickle(rep, b)
    case, res, rk = case_and_result(b)
    bad = C.coq_mismatches(H.IMPORTS, H.PUB_FN, H.PUB_TY, H.PUB_RES, [case], [res])
    print('query passed as:', FORMS[b.form][0])
    print('impl :', b.tb, [[sorted(x) for x in tr] for tr in b.impl])
    if bad:
        sig, what, rp2 = diagnose(H, b)
        print(sig, what)
        print('model (keys = identity, values replaced by their ranks):', rp2.get('model'))
    for q in queries:
        print('brute:', q, U.brute(rows, q, b.d))
    for v in rep.violations:
        print(v['signature'], v['what'])
    return ok and not bad and not rep.violations
