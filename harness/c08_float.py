"""C08, bit-exact part: the binary64 model of the numeric path of hilbert_distance.

Model/FloatData2Coord.v transcribes utils._data2coord, rtree._distances_from_bounds and
GeometryArray.hilbert_distance operation by operation on Coq's primitive floats (IEEE 754
binary64, evaluated by the kernel).  run_float_d2c(rep) calls the real
GeometryArray.hilbert_distance / GeoSeries.hilbert_distance on ARBITRARY float64 data (non-dyadic
coordinates, extents that are not powers of two, tiny extents relative to the magnitude, huge
magnitudes, subnormals, bbox centres on cell edges computed in floating point and their
neighbouring floats, centres outside total_bounds, NaN / inf, empty and missing elements,
zero-extent total_bounds also where +1.0 is absorbed (a range without extent: cell 0 up to the
value, last cell beyond it), p in 1..31, total_bounds default / list /
tuple / ndarray / ints / float32, all subtypes) and compares the distances with the model's, with
no tolerance: every row of every call.  The model is given the per-element bounds rows and the
total_bounds the real array reports, as exact hexadecimal float literals.
"""
import math
import struct

import numpy as np

from . import common as C
from . import geomgen as G

IMPORTS = 'Model.Hilbert Model.FloatData2Coord.\nFrom Coq Require Import PrimFloat'
CASE_TY = 'list frow * frow * option (list fpyval) * nat'
RES_TY = 'foutcome'
FN = "fun c => let '(rows, total, tb, p) := c in f_hilbert_distance rows total tb p"

NAN, INF = float('nan'), float('inf')


# --------------------------------------------------------------------------
# serialisation
# --------------------------------------------------------------------------
def fl(x):
    """a Python float as an exact Gallina primitive-float term"""
    x = float(x)
    if math.isnan(x):
        return 'nan'
    if math.isinf(x):
        return 'infinity' if x > 0 else 'neg_infinity'
    return '(' + x.hex() + ')%float'


def frow(row):
    return C.Raw('(' + ', '.join(fl(v) for v in row) + ')')


def tb_term(obj):
    """the caller's total_bounds as option (list fpyval): ints stay ints (the model applies float())"""
    if obj is None:
        return None
    items = obj.tolist() if isinstance(obj, np.ndarray) else list(obj)
    out = []
    for v in items:
        if isinstance(v, (int, np.integer)) and not isinstance(v, bool):
            out.append(C.Raw(f'(FPyInt ({int(v)})%Z)'))
        else:
            out.append(C.Raw(f'(FPyFloat {fl(float(v))})'))
    return C.Some(out)


def expected_term(res, exc):
    if exc is not None:
        return C.Rec('FRaised', exc)
    return C.Rec('FReturned', [C.Raw(f'{d}%N') for d in res])


# --------------------------------------------------------------------------
# float values
# --------------------------------------------------------------------------
def ulp_step(x, k):
    """the float k steps away from x"""
    for _ in range(abs(k)):
        x = math.nextafter(x, INF if k > 0 else -INF)
    return x


def rand_bits(rng):
    return struct.unpack('<d', struct.pack('<Q', rng.getrandbits(64)))[0]


def value_source(rng, flavour):
    """returns gen(axis) -> float for one array"""
    if flavour == 'decimal':
        ox, oy = rng.randint(-50, 50) * 0.1, rng.randint(-50, 50) * 0.1
        wx, wy = rng.randint(1, 70), rng.randint(1, 70)
        return lambda ax: (ox if ax == 0 else oy) + rng.randint(0, wx if ax == 0 else wy) * 0.1
    if flavour == 'uniform':
        a = [rng.uniform(-1000, 1000) for _ in range(2)]
        w = [rng.choice([1e-3, 0.7, 3.3, 100.1, 12345.6]) for _ in range(2)]
        return lambda ax: a[ax] + rng.random() * w[ax]
    if flavour == 'tiny-extent':
        base = [rng.choice([1e6, 123456.789, 1e15, -3e9, 2.0 ** 40 + 0.5, 0.1, -7e22]) for _ in range(2)]
        m = rng.choice([1, 3, 10, 1000])

        def g(ax):
            if m == 1:
                return ulp_step(base[ax], rng.randint(0, 8))
            return base[ax] + rng.randint(0, m) * (math.ulp(base[ax]) * rng.choice([1, 2, 5]))
        return g
    if flavour == 'huge':
        def g(ax):
            c = rng.random()
            if c < 0.6:
                return rng.choice([-1, 1]) * rng.uniform(0.1, 1.79) * 10.0 ** rng.randint(290, 308)
            if c < 0.8:
                return rng.choice([2.0 ** 62, 2.0 ** 63, -2.0 ** 63, 2.0 ** 64, 1e19, -1e19, 2.0 ** 53, 2.0 ** 53 + 2,
                                   1.7976931348623157e308, -1.7976931348623157e308])
            return rng.uniform(-10, 10)
        return g
    if flavour == 'subnormal':
        def g(ax):
            c = rng.random()
            if c < 0.7:
                return rng.choice([-1, 1]) * rng.randint(0, 1 << rng.choice([1, 4, 20, 52])) * 5e-324
            if c < 0.85:
                return rng.choice([2.2250738585072014e-308, -2.2250738585072014e-308, 0.0, -0.0, 1e-300])
            return rng.uniform(-1, 1) * 1e-310
        return g
    if flavour == 'bits':
        return lambda ax: rand_bits(rng)
    if flavour == 'nonfinite':
        inner = value_source(rng, 'decimal')
        return lambda ax: rng.choice([NAN, NAN, INF, -INF]) if rng.random() < 0.2 else inner(ax)
    if flavour == 'mixed-scale':
        return lambda ax: rng.choice([-1, 1]) * 10.0 ** rng.uniform(-30, 30)
    if flavour == 'signed-zero':
        return lambda ax: rng.choice([0.0, -0.0, 0.0, 5e-324, -5e-324, 1.0, -1.0])
    raise ValueError(flavour)


FLAVOURS = ['decimal', 'uniform', 'tiny-extent', 'huge', 'subnormal', 'bits', 'nonfinite', 'mixed-scale',
            'signed-zero']


def refill(el, gen):
    """the element with every coordinate replaced by gen(axis) (structure, missing and empty kept)"""
    if el is None:
        return None
    if isinstance(el, list) and el and isinstance(el[0], list):
        return [refill(x, gen) for x in el]
    return [gen(i % 2) for i in range(len(el))]


def close_rings(kind, el):
    """rings / polygons: last vertex = first (does not matter for bounds; keeps the arrays well-formed)"""
    if el is None:
        return None
    if kind == 'ring' and len(el) >= 2:
        return el + el[:2]
    if kind == 'polygon':
        return [r + r[:2] if len(r) >= 2 else r for r in el]
    if kind == 'multipolygon':
        return [[r + r[:2] if len(r) >= 2 else r for r in poly] for poly in el]
    return el


def centred_element(kind, cx, cy, dx, dy):
    """an element whose bounding box is [cx-dx, cx+dx] x [cy-dy, cy+dy] (as computed in floating point)"""
    x0, x1, y0, y1 = cx - dx, cx + dx, cy - dy, cy + dy
    if kind == 'point':
        return [cx, cy]
    if kind in ('multipoint', 'line'):
        return [x0, y0, x1, y1]
    if kind == 'ring':
        return [x0, y0, x1, y0, x1, y1, x0, y0]
    if kind in ('multiline', 'polygon'):
        return [[x0, y0, x1, y0, x1, y1, x0, y1, x0, y0]]
    return [[[x0, y0, x1, y0, x1, y1, x0, y1, x0, y0]]]


def edge_values(rng, lo, hi, p, count):
    """floats at / next to the cell edges of the 2^p grid on [lo, hi], computed in floating point in
    several ways (the scaled value is then within a few ulps of an integer: the truncation is
    sensitive to the last bit of every intermediate result)"""
    n = 1 << p
    w = hi - lo
    out = []
    for _ in range(count):
        k = rng.choice([0, 1, n - 1, n, n // 2, rng.randint(0, n), rng.randint(0, n), rng.randint(0, min(n, 64))])
        how = rng.randint(0, 4)
        if how == 0:
            c = lo + k * (w / n)
        elif how == 1:
            c = lo + k * w / n
        elif how == 2:
            c = lo + (k / n) * w
        elif how == 3:
            c = hi - (n - k) * (w / n)
        else:
            c = lo + k / (n / w)
        out.append(ulp_step(c, rng.choice([0, 0, 0, 1, -1, 2, -2])))
    return out


# --------------------------------------------------------------------------
# generation: (kind, subtype, elements, [(label, tbvalues-or-None, form, p)] or None)
# --------------------------------------------------------------------------
def gen_cases(rep, tier):
    rng = rep.rng
    scale = getattr(rep, 'scale', 1)
    per = (3 if tier == 'quick' else 40) * scale
    out = []
    for kind in G.KINDS:
        for flavour in FLAVOURS:
            for _ in range(per):
                gen = value_source(rng, flavour)
                n = rng.choice([1, 2, 3, 5, 8])
                els = [close_rings(kind, refill(G.rand_element(rng, kind, lo=0, hi=6, nan_p=0.0), gen))
                       for _ in range(n)]
                st = 'float64'
                if flavour in ('decimal', 'uniform', 'nonfinite', 'mixed-scale') and rng.random() < 0.3:
                    st = 'float32'
                out.append((kind, st, els, None, flavour))
        # integer subtypes (bounds are float64 all the same)
        for st in ('int64', 'int32', 'int16'):
            for _ in range(max(1, per // 2)):
                big = {'int64': [2 ** 53 + 1, -2 ** 53 - 1, 2 ** 62, -2 ** 62 + 3, 2 ** 40 + 1],
                       'int32': [2 ** 31 - 1, -2 ** 31, 10 ** 9], 'int16': [32767, -32768, 1000]}[st]
                gen = (lambda ax, big=big: rng.choice(big) if rng.random() < 0.3 else rng.randint(-100, 100))
                els = [close_rings(kind, refill(G.rand_element(rng, kind, lo=0, hi=6, nan_p=0.0), gen))
                       for _ in range(rng.choice([1, 2, 4]))]
                out.append((kind, st, els, None, 'int'))
        # bbox centres on / next to cell edges, computed in floating point
        nedge = (20 if tier == 'quick' else 200) * scale
        for it in range(nedge):
            p = rng.choice([1, 2, 3, 5, 8, 10, 15, 16, 20, 24, 25, 30, 31, rng.randint(1, 31)])
            c = rng.random()
            if c < 0.4:
                lo = [rng.randint(-50, 50) * 0.1 for _ in range(2)]
                hi = [l + rng.randint(1, 90) * 0.1 for l in lo]
            elif c < 0.7:
                lo = [rng.uniform(-1000, 1000) for _ in range(2)]
                hi = [l + rng.uniform(1e-3, 1e4) for l in lo]
            elif c < 0.85:
                lo = [rng.choice([-1, 1]) * 10.0 ** rng.uniform(-20, 20) for _ in range(2)]
                hi = [l + abs(l) * rng.uniform(1e-9, 10) for l in lo]
            else:
                lo = [float(rng.randint(-5, 5)) for _ in range(2)]
                hi = [l + rng.choice([3.0, 5.0, 7.0, 10.0, 100.0, 360.0]) for l in lo]
            m = rng.choice([4, 8, 12])
            xs, ys = edge_values(rng, lo[0], hi[0], p, m), edge_values(rng, lo[1], hi[1], p, m)
            els = []
            for x, y in zip(xs, ys):
                if kind == 'point' or rng.random() < 0.3:
                    dx = dy = 0.0
                else:
                    # half-widths that are not dyadic: (x0 + x1) / 2 is then a rounded value near the edge
                    dx = rng.choice([0.1, 0.3, 1e-3, (hi[0] - lo[0]) / 3, (hi[0] - lo[0]) * 0.7, abs(x) * 1e-7])
                    dy = rng.choice([0.1, 0.7, 1e-5, (hi[1] - lo[1]) / 7, (hi[1] - lo[1]) * 0.9, abs(y) * 1e-9])
                els.append(centred_element(kind, x, y, dx, dy))
            form = rng.choice(['tuple', 'list', 'ndarray'])
            tbv = [lo[0], lo[1], hi[0], hi[1]]
            # (an edge of the 2^p grid is an edge of every finer grid)
            out.append((kind, 'float64', els, [('edge', tbv, form, p),
                                               ('edge-finer', tbv, form, min(31, p + rng.randint(1, 6)))], 'edge'))
    # a zero extent where the widening + 1 / + 1.0 is absorbed (|coordinate| >= 2^53): the range has
    # no extent; data at, below and beyond the single value, in x, y and both; explicit and default
    # total_bounds; every p in 1..31 on every run
    pz = 0
    for kind in G.KINDS:
        for it in range((5 if tier == 'quick' else 40) * scale):
            B = rng.choice([2.0 ** 53, -2.0 ** 54, 2.0 ** 60 + 2.0 ** 20, 1e300, -1e18, 2.0 ** 53 + 2, -1.7e308,
                            2.0 ** 1000])
            C2 = rng.choice([2.0 ** 53, -2.0 ** 55, 3e200, -4e17, 2.0 ** 62])
            axis = ['x', 'y', 'both'][it % 3]

            def around(v):
                return [v, v, ulp_step(v, -1), ulp_step(v, 1), v / 2, v * 2 if abs(v) < 1e307 else v, -v, 0.0,
                        ulp_step(v, -3), ulp_step(v, 2)]
            small_ = [rng.randint(-30, 30) * 0.1 for _ in range(10)]
            xs = around(B) if axis in ('x', 'both') else small_
            ys = around(C2) if axis in ('y', 'both') else small_
            rng.shuffle(xs)
            rng.shuffle(ys)
            m = rng.choice([3, 5, 8])
            els = [centred_element(kind, x, y, 0.0, 0.0) for x, y in zip(xs[:m], ys[:m])]
            if rng.random() < 0.5:
                els.insert(rng.randint(0, len(els)), None)
            sx, sy = sorted(small_)[0], sorted(small_)[-1]
            tbv = [B if axis in ('x', 'both') else sx, C2 if axis in ('y', 'both') else sx,
                   B if axis in ('x', 'both') else sy + 0.3, C2 if axis in ('y', 'both') else sy + 0.3]
            variants = []
            for form in rng.sample(['tuple', 'list', 'ndarray', 'npscalars', 'intlist', 'intarray'], 2):
                pz += 1
                variants.append(('absorbed-' + axis, tbv, form, pz % 31 + 1))
            out.append((kind, 'float64', els, variants, 'absorbed'))
            # default total_bounds: every element AT the value on the axis (the array's own extent is zero there)
            els0 = [centred_element(kind, B if axis in ('x', 'both') else x, C2 if axis in ('y', 'both') else y, 0.0, 0.0)
                    for x, y in zip(small_[:m], small_[3:3 + m])]
            pz += 1
            out.append((kind, 'float64', els0, [('absorbed-own-' + axis, None, None, pz % 31 + 1)], 'absorbed'))
    # fixed corpus
    out.append(('point', 'float64', [], None, 'empty'))
    out.append(('polygon', 'float32', [], None, 'empty'))
    out.append(('point', 'float64', [None, None], None, 'all-missing'))
    out.append(('multiline', 'float64', [None, [], [[]]], None, 'all-missing'))
    out.append(('point', 'float64', [[2.0 ** 53, 0.5]], None, 'absorbed'))
    out.append(('point', 'float64', [[-2.0 ** 53, 0.5], [-2.0 ** 53, 0.5]], None, 'absorbed'))
    out.append(('line', 'float64', [[0.5, -2.0 ** 54, 3.5, -2.0 ** 54]], None, 'absorbed'))
    out.append(('point', 'float64', [[1e300, 1e300]], None, 'absorbed'))
    out.append(('point', 'float64', [[0.1, 0.2], [NAN, 0.3], [0.4, NAN], None], None, 'nan'))
    out.append(('line', 'float64', [[-1.7e308, 0.0, 1.7e308, 1.0], [1.7e308, 0.0, 1.7e308, 1.0]], None, 'overflow'))
    return out


def make_tb(form, vals):
    """the object passed as total_bounds, or None when the form cannot hold the values"""
    # (integers beyond 2^70 are not passed: Coq parses decimal literals in quadratic time)
    integral = all(math.isfinite(v) and abs(v) < 2.0 ** 70 and v == int(v) for v in vals)
    if form == 'tuple':
        return tuple(vals)
    if form == 'list':
        return list(vals)
    if form == 'ndarray':
        return np.array(vals, dtype='float64')
    if form == 'npscalars':
        return [np.float64(v) for v in vals]
    if form == 'intlist':
        return [int(v) for v in vals] if integral else None
    if form == 'mixedlist':
        return [int(v) if i % 2 == 0 else float(v) for i, v in enumerate(vals)] if integral else None
    if form == 'intarray':
        return np.array([int(v) for v in vals], dtype='int64') if integral and all(abs(v) < 2 ** 62 for v in vals) \
            else None
    if form == 'f32array':
        with np.errstate(all='ignore'):
            return np.array(vals, dtype='float32')      # rounds: the model sees float(b) of what is passed
    raise ValueError(form)


FORMS = ['tuple', 'list', 'ndarray', 'npscalars', 'intlist', 'mixedlist', 'intarray', 'f32array']


def tb_variants(rng, total, flavour):
    """(label, four floats or None for default, form)"""
    out = [('default', None, None)]
    fin = all(math.isfinite(v) for v in total)
    x0, y0, x1, y1 = total
    form = lambda: rng.choice(FORMS)    # noqa: E731
    if not fin:
        out.append(('own', list(total), rng.choice(['tuple', 'list', 'ndarray'])))
        out.append(('decimal', [-0.3, 0.1, 6.9, 7.3], form()))
        return out
    out.append(('own', list(total), rng.choice(['tuple', 'list', 'ndarray', 'npscalars'])))
    with np.errstate(all='ignore'):
        wx, wy = float(np.float64(x1) - np.float64(x0)), float(np.float64(y1) - np.float64(y0))
        cands = [
            ('inner', [x0 + wx * 0.3, y0 + wy * 0.4, x1 - wx * 0.2, y1 - wy * 0.1]),     # centres outside, both sides
            ('outer', [x0 - 0.1, y0 - 0.3, x1 + 0.7, y1 + 0.9]),
            ('outer-rel', [x0 - abs(wx) / 3, y0 - abs(wy) / 7, x1 + abs(wx) / 9, y1 + abs(wy) / 11]),
            ('degenerate-x', [x0, y0, x0, y1]),
            ('degenerate-y', [x0, y1, x1, y1]),
            ('degenerate-xy', [x1, y0, x1, y0]),
            ('reversed', [x1, y0, x0, y1]),
            ('disjoint', [x1 + 0.1, y1 + 0.2, x1 + 3.4, y1 + 5.6]),
            ('one-ulp', [x0, y0, math.nextafter(x0, INF), math.nextafter(y0, INF)]),
            ('nan', [NAN, y0, x1, y1]),
            ('inf', [-INF, y0, INF, y1]),
            ('half-inf', [x0, y0, INF, y1]),
            ('overflowing', [-1.7e308, -1.7e308, 1.7e308, 1.7e308]),
            ('absorbed', [2.0 ** 53, y0, 2.0 ** 53, y1]),
            ('integers', [float(math.floor(max(min(x0, 1e15), -1e15))), float(math.floor(max(min(y0, 1e15), -1e15))),
                          float(math.floor(max(min(x0, 1e15), -1e15)) + 3), float(math.floor(max(min(y0, 1e15), -1e15)) + 7)]),
            ('big-integers', [-(2.0 ** 53), 0.0, 2.0 ** 53, 2.0 ** 60]),
            ('unit', [0.0, 0.0, 1.0, 1.0]),
        ]
    k = 4
    for label, vals in rng.sample(cands, k):
        vals = [float(v) for v in vals]
        out.append((label, vals, form()))
    return out


# --------------------------------------------------------------------------
def call_impl(arr, tbobj, p, via):
    try:
        if via == 'series':
            from spatialpandas import GeoSeries
            r = GeoSeries(arr).hilbert_distance(total_bounds=tbobj, p=p).values
        else:
            r = arr.hilbert_distance(total_bounds=tbobj, p=p)
        return [int(x) for x in np.asarray(r).tolist()], None
    except Exception as e:
        return None, type(e).__name__


def one_call(rep, arr, bounds, total, tbobj, p, via, meta, cases, results, metas):
    res, exc = call_impl(arr, tbobj, p, via)
    rep.evaluations += 1
    rep.count('float_d2c_calls')
    rep.count('float_d2c:via=' + via)
    if exc is not None:
        rep.count('float_d2c:raised:' + exc)
    elif any(d < 0 for d in res):
        rep.violation('float-d2c-differs:' + meta['kind'], 'hilbert_distance returned a negative distance',
                      {**meta, 'impl': res})
        return
    else:
        rep.count('float_d2c_rows', len(res))
    cases.append(([frow(r) for r in bounds], frow(total), tb_term(tbobj), C.Nat(p)))
    results.append(expected_term(res, exc))
    metas.append({**meta, 'impl': res if exc is None else 'raised ' + exc})


def build(kind, st, els):
    with np.errstate(all='ignore'):
        arr = G.make_array(kind, els, st)
    b = arr.bounds
    bounds = np.asarray(b).reshape(-1, 4)
    return arr, b, [[float(v) for v in row] for row in bounds.tolist()], [float(v) for v in arr.total_bounds]


def run_float_d2c(rep):
    import warnings
    tier = getattr(rep, 'tier_run', rep.tier)
    rng = rep.rng
    rep.rule += ('; BIT-EXACT PART (harness/c08_float.py): arrays of all 7 kinds with arbitrary float64 coordinates ('
                 + ', '.join(FLAVOURS) + ', integer subtypes, float32 subtypes, bbox centres on and one / two '
                 'floats next to the cell edges of the 2^p grid computed in floating point in five ways, with '
                 'non-dyadic half-widths) x total_bounds default / own / inner / outer / degenerate x, y, xy / '
                 'reversed / disjoint / one-ulp wide / NaN / inf / overflowing / integers; zero extent where + 1.0 is '
                 'absorbed (|coordinate| >= 2^53: range without extent) in x, y, both, with data at / one float '
                 'below / beyond / far from the value, explicit and default total_bounds, every p in 1..31; passed as ' + ', '.join(FORMS) + ' x p in 1..31, through '
                 'GeometryArray.hilbert_distance and GeoSeries.hilbert_distance: every distance (or the '
                 'exception) equals Model/FloatData2Coord.v evaluated by the Coq kernel on primitive floats, '
                 'no tolerance')
    cases, results, metas = [], [], []
    pcycle = 0
    absorbed_p = set()
    with warnings.catch_warnings():
        warnings.simplefilter('ignore')
        for kind, st, els, fixed, flavour in gen_cases(rep, tier):
            try:
                arr, braw, bounds, total = build(kind, st, els)
            except Exception as e:
                rep.count('float_d2c:construct_error:' + type(e).__name__)
                continue
            if np.asarray(braw).dtype != np.float64:
                rep.violation('float-d2c-differs:bounds-dtype', f'arr.bounds of a {st} array is {np.asarray(braw).dtype}, '
                              'not float64', {'float_d2c': True, 'kind': kind, 'subtype': st, 'elements': els,
                                              'tb_label': 'default', 'tb_values': None, 'tb_form': None, 'p': 10,
                                              'via': 'array'})
                continue
            rep.count('float_d2c:flavour=' + flavour)
            rep.count('float_d2c:subtype=' + st)
            variants = fixed if fixed is not None else \
                [(lab, vals, form, None) for lab, vals, form in tb_variants(rng, total, flavour)]
            if fixed is not None and fixed[0][1] is not None:
                variants = variants + [('default', None, None, fixed[0][3])]
            for label, vals, form, p in variants:
                if p is None:
                    pcycle += 1
                    p = (pcycle % 31) + 1
                tbobj = None if vals is None else make_tb(form, vals)
                if vals is not None and tbobj is None:
                    form = 'tuple'
                    tbobj = tuple(vals)
                via = 'series' if rep.evaluations % 5 == 0 else 'array'
                meta = {'float_d2c': True, 'kind': kind, 'subtype': st, 'elements': els, 'flavour': flavour,
                        'tb_label': label, 'tb_values': vals, 'tb_form': form, 'p': p, 'via': via}
                rep.count('float_d2c:tb=' + label)
                rep.count('float_d2c:form=' + str(form))
                rep.count(f'float_d2c:p={p}')
                if flavour == 'absorbed' and label.startswith('absorbed'):
                    absorbed_p.add(p)
                    rep.count('float_d2c:absorbed_calls')
                one_call(rep, arr, bounds, total, tbobj, p, via, meta, cases, results, metas)
                if len(rep.nontrivial_keys) < 10 ** 6 and any(all(math.isfinite(v) for v in r) for r in bounds):
                    rep.nontrivial(('float', kind, st, repr(bounds), label, form, repr(vals), p))
    rep.extra['float_absorbed_zero_extent_p_values'] = sorted(absorbed_p)
    if absorbed_p != set(range(1, 32)):
        raise RuntimeError('the absorbed zero-extent class did not cover p = 1..31: %r' % sorted(absorbed_p))
    bad = C.coq_mismatches(IMPORTS, FN, CASE_TY, RES_TY, cases, results, shard=150)
    rep.count('float_d2c_model_mismatches', len(bad))
    seen = set()
    for i in bad:
        sig = 'float-d2c-differs:' + metas[i]['kind']
        if sig in seen:
            continue
        seen.add(sig)
        try:
            model = C.coq_eval(IMPORTS, f'({FN}) {C.coq(cases[i])}')
        except Exception as e:        # the comparison already failed: the value is for the reader only
            model = 'not evaluated: ' + repr(e)[:200]
        rep.violation(sig, 'hilbert_distance differs from the bit-exact binary64 model '
                           '(Model/FloatData2Coord.v evaluated on the bounds rows the array reports)',
                      {**metas[i], 'bounds_rows_hex': [[float(v).hex() for v in r] for r in
                                                       build(metas[i]['kind'], metas[i]['subtype'],
                                                             metas[i]['elements'])[2]],
                       'model': model})


    probe_wide_extent(rep)


KNOWN_WIDE_EXTENT = 'upper-edge-not-last-cell:extent-wider-than-DBL_MAX'


def probe_wide_extent(rep):
    """Deterministic corpus case for the recorded finding C08_f_data2coord_above_overflow_refuted
    (coq/Proofs/FloatData2CoordMono.v): when hi - lo overflows to +inf (an extent wider than the
    largest double) the factor n / (hi - lo) is 0 and EVERY centre lands in cell 0, also one on the
    upper edge, which the property puts in the last cell.  The float model agrees with the code bit
    for bit (so the correspondence sees nothing); the expectation here is the PROPERTY's."""
    from spatialpandas.geometry import PointArray
    big = 1.7e308
    p = 3
    arr = PointArray([[big, 0.5], [-big, 0.5], [0.0, 0.5]])
    got = [int(d) for d in arr.hilbert_distance((-big, 0.0, big, 1.0), p=p)]
    import spatialpandas.spatialindex.hilbert_curve as hc
    n = 2 ** p
    want_first = int(hc.distance_from_coordinate(p, np.array([n - 1, n // 2], dtype=np.int64)))
    rep.evaluations += 1
    rep.count('corpus:wide-extent')
    if got[0] != want_first:
        rep.violation(KNOWN_WIDE_EXTENT,
                      'a centre on the upper edge of a total_bounds extent wider than the largest double '
                      f'is put in cell 0, not in the last cell: hilbert_distance(({-big}, 0, {big}, 1), p={p}) '
                      f'of the points x = {big}, {-big}, 0 gives {got} (all equal)',
                      {'float_d2c_wide_extent': True, 'got': got, 'expected_first': want_first, 'p': p})

def replay(rep, rp):
    if rp.get('float_d2c_wide_extent'):
        n0 = len(rep.violations)
        probe_wide_extent(rep)
        return len(rep.violations) == n0
    def un(e):
        if isinstance(e, list):
            return [un(x) for x in e]
        if isinstance(e, str):
            return float(e)
        return e
    kind, st = rp['kind'], rp['subtype']
    els = un(rp['elements'])
    arr, braw, bounds, total = build(kind, st, els)
    p = int(rp['p'])
    vals = un(rp['tb_values']) if rp.get('tb_values') is not None else None
    tbobj = None if vals is None else make_tb(rp.get('tb_form') or 'tuple', vals)
    ok = True
    for via in ('array', 'series'):
        cases, results, metas = [], [], []
        one_call(rep, arr, bounds, total, tbobj, p, via, {'kind': kind}, cases, results, metas)
        if not cases:
            print(via, ': negative distance')
            ok = False
            continue
        print(via, 'impl :', metas[0]['impl'])
        print(via, 'model:', C.coq_eval(IMPORTS, f'({FN}) {C.coq(cases[0])}'))
        if C.coq_mismatches(IMPORTS, FN, CASE_TY, RES_TY, cases, results):
            ok = False
    return ok
