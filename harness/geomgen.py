"""Generators of geometry arrays shared by the correspondence checks.

An element is written as the nested Python list the array constructors take:
  point        [x, y]
  multipoint   [x0, y0, x1, y1, ...]
  line, ring   [x0, y0, ...]
  multiline    [[...], [...]]
  polygon      [[ring], [ring], ...]
  multipolygon [[[ring], ...], ...]
None is a missing element.
"""
import itertools
import math

import numpy as np

KINDS = ['point', 'multipoint', 'line', 'ring', 'multiline', 'polygon', 'multipolygon']
LEVELS = {'point': 0, 'multipoint': 1, 'line': 1, 'ring': 1, 'multiline': 2, 'polygon': 2,
          'multipolygon': 3}
SUBTYPES = ['float64', 'float32', 'int64', 'int32', 'int16']


def array_class(kind):
    from spatialpandas import geometry as g
    return {'point': g.PointArray, 'multipoint': g.MultiPointArray, 'line': g.LineArray,
            'ring': g.RingArray, 'multiline': g.MultiLineArray, 'polygon': g.PolygonArray,
            'multipolygon': g.MultiPolygonArray}[kind]


def scalar_class(kind):
    from spatialpandas import geometry as g
    return {'point': g.Point, 'multipoint': g.MultiPoint, 'line': g.Line, 'ring': g.Ring,
            'multiline': g.MultiLine, 'polygon': g.Polygon, 'multipolygon': g.MultiPolygon}[kind]


def has_nonfinite(el):
    if el is None:
        return False
    if isinstance(el, (list, tuple)):
        return any(has_nonfinite(x) for x in el)
    return not math.isfinite(el)


def make_array(kind, elems, subtype='float64'):
    """build the array; integer subtypes cannot hold NaN (caller's responsibility)"""
    cls = array_class(kind)
    if kind == 'point':
        # object array of rows so that None is kept as missing
        rows = np.empty(len(elems), dtype=object)
        for i, e in enumerate(elems):
            rows[i] = None if e is None else np.asarray(e, dtype=subtype)
        if len(elems) == 0:
            return cls([], dtype=subtype)
        if all(e is None for e in elems):
            return cls(rows, dtype=subtype)
        return cls(rows, dtype=subtype)
    return cls(list(elems), dtype=subtype)


def flat_coords(el):
    """all coordinates of an element, flattened"""
    if el is None:
        return []
    out = []

    def rec(x):
        if isinstance(x, (list, tuple)):
            for y in x:
                rec(y)
        else:
            out.append(x)
    rec(el)
    return out


def rand_ring(rng, lo=0, hi=6, nmax=5, closed=True):
    n = rng.randint(3, nmax)
    pts = [(rng.randint(lo, hi), rng.randint(lo, hi)) for _ in range(n)]
    if closed:
        pts.append(pts[0])
    return [c for p in pts for c in p]


def rand_coords(rng, n, lo=0, hi=6, nan_p=0.0):
    out = []
    for _ in range(2 * n):
        if nan_p and rng.random() < nan_p:
            out.append(rng.choice([float('nan'), float('inf'), float('-inf')]))
        else:
            out.append(rng.randint(lo, hi))
    return out


def rand_element(rng, kind, lo=0, hi=6, nan_p=0.0, missing_p=0.15, empty_p=0.1, nmax=4):
    """a random element of the kind (None = missing; [] / [[]] = empty)"""
    r = rng.random()
    if r < missing_p:
        return None
    if kind == 'point':
        return rand_coords(rng, 1, lo, hi, nan_p)
    if r < missing_p + empty_p:
        return []
    if kind in ('multipoint', 'line', 'ring'):
        return rand_coords(rng, rng.randint(1, nmax), lo, hi, nan_p)
    if kind in ('multiline', 'polygon'):
        return [rand_coords(rng, rng.randint(0 if rng.random() < .1 else 1, nmax), lo, hi, nan_p)
                for _ in range(rng.randint(1, 3))]
    if kind == 'multipolygon':
        return [[rand_coords(rng, rng.randint(0 if rng.random() < .1 else 1, nmax), lo, hi, nan_p)
                 for _ in range(rng.randint(1, 2))] for _ in range(rng.randint(1, 3))]
    raise ValueError(kind)


def rand_elements(rng, kind, n, **kw):
    return [rand_element(rng, kind, **kw) for _ in range(n)]


def derive(rng, arr, steps=None):
    """apply a random short derivation (slice / take / concat / mask) so that the
    buffers get non-zero offsets; returns (derived array, description)"""
    desc = []
    k = rng.randint(0, 3) if steps is None else steps
    for _ in range(k):
        n = len(arr)
        op = rng.choice(['slice', 'slice', 'take', 'concat', 'mask', 'rev'])
        if op == 'slice':
            a = rng.randint(0, n)
            b = rng.randint(a, n)
            arr = arr[a:b]
            desc.append(('slice', a, b))
        elif op == 'take' and n > 0:
            idx = [rng.randrange(n) for _ in range(rng.randint(0, n + 1))]
            arr = arr.take(np.array(idx, dtype='int64'))
            desc.append(('take', idx))
        elif op == 'concat':
            a = rng.randint(0, n)
            arr = type(arr)._concat_same_type([arr[a:], arr[:a]])
            desc.append(('rotate', a))
        elif op == 'mask' and n > 0:
            m = [rng.random() < .7 for _ in range(n)]
            arr = arr[np.array(m, dtype=bool)]
            desc.append(('mask', m))
        elif op == 'rev':
            arr = arr[::-1]
            desc.append(('rev',))
    return arr, desc


def small_shapes_1level(vals=(1, 2, float('nan'))):
    """None, [], every 1-vertex and 2-vertex coordinate list over vals"""
    out = [None, []]
    for n in (1, 2):
        for c in itertools.product(vals, repeat=2 * n):
            out.append(list(c))
    return out
