"""Machinery shared by C10 and C19: build a frame, run the real
pack_partitions_to_parquet through the recording filesystem on a scratch directory,
observe everything the model talks about, and build the Gallina case terms."""
import json
import os
import re
import shutil
import tempfile

import numpy as np

from . import common as C
from . import fsrec as F

DS = 'ds'
UUID1 = '00005eed-0000-4000-8000-000000000001'     # the first uuid4 under deterministic_uuid
# mode -> (tempdir_format below the scratch root, parent directory of the per-partition temp
#          directories, prefix of their leaf name).  'sib*' and 'subdir' are OUTSIDE the dataset
#          but share a string prefix with its path ("ds"): a path is inside another only
#          component-wise, never by string prefix.
TMPSPEC = {
    'inside': None,
    'uuid': ('tmp/{uuid}/t{partition}', 'tmp/' + UUID1, 't'),
    'flat': ('t{partition}', '', 't'),
    'sib': (DS + '.tmp-{partition}', '', DS + '.tmp-'),
    'sibuuid': (DS + '.tmp-{uuid}-{partition}', '', DS + '.tmp-' + UUID1 + '-'),
    'subdir': (DS + '-tmp/{partition}', DS + '-tmp', ''),
}
MODES = ('inside', 'uuid', 'flat', 'sib', 'sibuuid', 'subdir')
OLD_MODES = ('inside', 'uuid', 'flat')
RX_PARTDIR = re.compile(r'^part\.(\d+)\.parquet$')


def leaf_prefix(mode):
    return 't' if TMPSPEC[mode] is None else TMPSPEC[mode][2]


def leaf_rx(mode):
    """the last component of the temp directory of output <n>"""
    if TMPSPEC[mode] is None:
        return RX_PARTDIR
    return re.compile('^' + re.escape(TMPSPEC[mode][2]) + r'(\d+)$')


def tmp_dir_rx(mode):
    """the path (below the scratch root) of the temp directory of output <n>"""
    if TMPSPEC[mode] is None:
        return re.compile(r'^%s/part\.(\d+)\.parquet$' % re.escape(DS))
    _, par, pre = TMPSPEC[mode]
    return re.compile('^' + re.escape(par + '/' if par else '') + re.escape(pre) + r'(\d+)$')


PK_IMPORTS = 'Model.FS Model.PackFS'


# --------------------------------------------------------------------------
# frames
# --------------------------------------------------------------------------
def make_frame(n, variant, rng):
    """n rows, two geometry columns, duplicate and missing geometries.
    variant: 'plain' (distinct points), 'dup' (few distinct points), 'miss' (missing in both
    columns + duplicates), 'same' (all points equal)"""
    from spatialpandas import GeoDataFrame
    from spatialpandas.geometry import LineArray, PointArray
    pts, lines = [], []
    for r in range(n):
        if variant == 'plain':
            p = [(r * 7 + 3) % 23, (r * 11 + 5) % 19]
        elif variant == 'dup':
            p = [r % 3, (r // 2) % 2]
        elif variant == 'same':
            p = [4, 4]
        else:
            p = None if r % 3 == 1 else [r % 4, (r * 3) % 5]
        pts.append(p)
        lines.append(None if (variant == 'miss' and r % 4 == 2) else [r, 0, r + 1, (r * 5) % 7, r % 2, 3])
    if variant == 'miss' and all(p is None for p in pts):
        pts[0] = [1, 1]
    return GeoDataFrame({'geometry': PointArray(pts), 'g2': LineArray(lines),
                         'rid': np.arange(n, dtype='int64'),
                         'payload': [f'row{r}-{rng.randint(0, 9)}' for r in range(n)]})


def make_ddf(df, cuts):
    """input partitions df[cuts[j]:cuts[j+1]] (empty slices allowed)"""
    import dask.dataframe as dd
    from dask import delayed
    parts = [delayed(df.iloc[a:b]) for a, b in zip(cuts[:-1], cuts[1:])]
    return dd.from_delayed(parts, meta=df.iloc[:0])


def row_key(df):
    """the rows of a (computed) frame as a sorted list of tuples"""
    rows = []
    g1 = list(df['geometry'])
    g2 = list(df['g2'])
    for r, (a, b, rid, pay) in enumerate(zip(g1, g2, df['rid'].tolist(), df['payload'].tolist())):
        rows.append((int(rid), str(pay), repr(a), repr(b)))
    return sorted(rows)


# --------------------------------------------------------------------------
# one real run
# --------------------------------------------------------------------------
def tempdir_format(root, mode):
    if TMPSPEC[mode] is None:
        return None
    return os.path.join(root, TMPSPEC[mode][0])


class Observed:
    pass


class deterministic_uuid:
    """uuid.uuid4 from a counter while the call runs: the dataset uuid and the keys of the
    dask.delayed(pure=False) tasks (hence the order in which the synchronous scheduler runs
    them) are then the same in every run, which makes fault positions comparable across runs"""

    def __enter__(self):
        import uuid
        self._orig = uuid.uuid4
        cnt = [0]

        def uuid4():
            cnt[0] += 1
            return uuid.UUID(int=(0x5eed << 96) | cnt[0], version=4)
        uuid.uuid4 = uuid4
        return self

    def __exit__(self, *a):
        import uuid
        uuid.uuid4 = self._orig
        return False


_RID_CACHE = {}


def read_rids(abspath):
    """the rid column of a parquet file, None if it cannot be read (cached on the file's bytes:
    the writers are deterministic, so the many runs of C19 mostly see identical files)"""
    import pyarrow as pa
    import pyarrow.parquet as pq
    try:
        data = open(abspath, 'rb').read()
    except OSError:
        return None
    if data in _RID_CACHE:
        return _RID_CACHE[data]
    try:
        out = pq.read_table(pa.BufferReader(data), columns=['rid']).column('rid').to_pylist()
    except Exception:
        out = None
    if len(_RID_CACHE) < 5000:
        _RID_CACHE[data] = out
    return out


def run_pack(root, df, cuts, k, mode, compression='snappy', overwrite=False, plan=None, K=None,
             rid_cell=None):
    """run the real call; returns an Observed with: raised (exception or None), frame (the
    returned DaskGeoDataFrame or None), trace, fired, cells {(i,N): [rids]}, tmp_parent
    (relative path of the external temp parent, None for inside)"""
    import dask
    F.set_tmp_prefix(leaf_prefix(mode))
    fs = F.RecFS(root, plan=plan)
    o = Observed()
    o.cells = {}

    def on_closed(rp):
        comps = rp.split('/')
        m = re.match(r'^part(\d+)\.parquet$', comps[-1])
        if not m or len(comps) < 2:
            return
        par = comps[-2]
        mp = leaf_rx(mode).match(par)
        if not mp:
            return
        rids = read_rids(os.path.join(root, rp))
        if rids is not None:
            o.cells[(int(m.group(1)), int(mp.group(1)))] = rids
    fs.on_write_closed = on_closed
    ddf = make_ddf(df, cuts)
    kw = {}
    if K is not None:
        kw['_retry_args'] = dict(wait_fixed=0, stop_max_attempt_number=K)
    o.raised, o.frame = None, None
    with dask.config.set(scheduler='synchronous'), deterministic_uuid():
        try:
            o.frame = ddf.pack_partitions_to_parquet(
                os.path.join(root, DS), filesystem=fs, npartitions=k, compression=compression,
                tempdir_format=tempdir_format(root, mode), overwrite=overwrite, **kw)
        except BaseException as e:  # noqa: BLE001 - whatever the call raises is an outcome
            if isinstance(e, (KeyboardInterrupt, SystemExit)):
                raise
            o.raised = e
    fs.plan = {}
    o.trace = [t for t in fs.trace if t[0] != 'invalidate_cache']
    o.fired = list(fs.fired)
    o.tmp_parent = None if TMPSPEC[mode] is None else TMPSPEC[mode][1]
    return o


def assignment_of(o, nin, mode, kinds=('open_w',)):
    """asg[i] = sorted outputs N for which a sub-part (i, N) was written (from the trace)"""
    asg = [set() for _ in range(nin)]
    iorder, corder = [], []
    rx_dir, rx_file = leaf_rx(mode), re.compile(r'^part(\d+)\.parquet$')
    for t in o.trace:
        if t[0] == 'open_w':
            comps = t[1].split('/')
            if len(comps) < 2:
                continue
            md, mf = rx_dir.match(comps[-2]), rx_file.match(comps[-1])
            if md and mf and tmp_dir_rx(mode).match('/'.join(comps[:-1])):
                N, i = int(md.group(1)), int(mf.group(1))
                asg[i].add(N)
                if i not in iorder:
                    iorder.append(i)
    return [sorted(s) for s in asg], iorder + [i for i in range(nin) if i not in iorder]


def concat_order(o, k, mode):
    """the order in which the concat_parts tasks ran, read off the trace: a task starts
    with `isfile part_output_path` (non-empty output) or `rm parts_tmp_path` (empty)"""
    last_mk = max([j for j, t in enumerate(o.trace) if t[0] == 'makedirs'], default=-1)
    order = []
    rx_out = re.compile(r'^%s/part\.(\d+)\.parquet$' % DS)
    rx_tmp = tmp_dir_rx(mode)
    for t in o.trace[last_mk + 1:]:
        m = None
        if t[0] == 'isfile':
            m = rx_out.match(t[1])
        elif t[0] == 'rm':
            m = rx_tmp.match(t[1])
        if m and int(m.group(1)) not in order:
            order.append(int(m.group(1)))
    return order + [N for N in range(k) if N not in order]


# --------------------------------------------------------------------------
# classifying the files of the scratch tree
# --------------------------------------------------------------------------
class Classifier:
    """content terms for the files of a tree after a run.  `cells` maps (i, N) to the rids
    written into that sub-part; `df` is the input frame (for the partition bounds)."""

    def __init__(self, root, df, cells, ref=None):
        self.root, self.df, self.cells = root, df, cells
        # ref: {basename: (bytes, term)} of the metadata files of a reference (fault-free) run;
        # a metadata file with the same bytes has the same content
        self.ref = ref or {}
        self.rid2cell = {}
        self.ambiguous = False
        for c, rids in cells.items():
            for r in rids:
                if r in self.rid2cell and self.rid2cell[r] != c:
                    self.ambiguous = True
                self.rid2cell[r] = c
        self._rows = {}

    def part_cells(self, ap):
        """(cells, rids) of a parquet data file if its rows are exactly the rows of a set of
        cells, else None"""
        rids = read_rids(ap)
        if rids is None:
            return None
        try:
            cs = sorted({self.rid2cell[r] for r in rids})
        except KeyError:
            return None
        want = sorted(r for c in cs for r in self.cells[c])
        if sorted(rids) != want:
            return None
        return cs, rids

    def dataset_parts(self, d):
        """[(name, cells, rids)] of the part.<n>.parquet files of directory d, numeric order"""
        out = []
        names = [n for n in os.listdir(d) if re.match(r'^part\.\d+\.parquet$', n)
                 and os.path.isfile(os.path.join(d, n))]
        for n in sorted(names, key=lambda s: int(s.split('.')[1])):
            pc = self.part_cells(os.path.join(d, n))
            out.append((n, pc))
        return out

    def __call__(self, rp, ap):
        import pyarrow.parquet as pq
        base = os.path.basename(rp)
        data = open(ap, 'rb').read()
        m = re.match(rb'^opaque:(\d+)$', data)
        if m:
            return C.Rec('COpaque', int(m.group(1)))
        if not data:
            return C.Rec('CPartial')
        if base in self.ref and self.ref[base][0] == data:
            return self.ref[base][1]
        if base == '_metadata':
            try:
                md = pq.read_metadata(ap)
                counts = [md.row_group(j).num_rows for j in range(md.num_row_groups)]
                parts = self.dataset_parts(os.path.dirname(ap))
                if all(pc is not None for _, pc in parts) and counts == [len(pc[1]) for _, pc in parts]:
                    return C.Rec('CMeta', [F.cells_term(pc[0]) for _, pc in parts])
            except Exception:
                pass
            return C.Rec('COpaque', F.opaque_id(data))
        if base == '_common_metadata':
            try:
                if self.common_ok(ap):
                    parts = self.dataset_parts(os.path.dirname(ap))
                    return C.Rec('CCommon', [F.cells_term(pc[0]) for _, pc in parts])
            except Exception:
                pass
            return C.Rec('COpaque', F.opaque_id(data))
        pc = self.part_cells(ap)
        if pc is not None:
            return C.Rec('CRows', F.cells_term(pc[0]))
        if read_rids(ap) is None and data[:4] != b'PAR1':
            return C.Rec('CPartial')
        return C.Rec('COpaque', F.opaque_id(data))

    def common_ok(self, ap):
        """_common_metadata carries, per geometry column, one partition_bounds row per part,
        equal to the total bounds of the rows that part holds"""
        import pyarrow.parquet as pq
        md = pq.read_metadata(ap).metadata
        sm = json.loads(md[b'spatialpandas'].decode())
        pb = sm['partition_bounds']
        parts = self.dataset_parts(os.path.dirname(ap))
        if any(pc is None for _, pc in parts):
            return False
        if set(pb) != {'geometry', 'g2'}:
            return False
        for col in ('geometry', 'g2'):
            d = pb[col]
            for key in ('x0', 'y0', 'x1', 'y1'):
                if sorted(int(j) for j in d[key]) != list(range(len(parts))):
                    return False
            for j, (_, pc) in enumerate(parts):
                sub = self.df[self.df['rid'].isin(pc[1])]
                tb = sub[col].values.total_bounds
                got = [d[key][str(j)] for key in ('x0', 'y0', 'x1', 'y1')]
                for a, b in zip(tb, got):
                    a = float(a)
                    b = float('nan') if b is None else float(b)
                    if not (a == b or (a != a and b != b)):
                        return False
        return True


def prior_classifier(rp, ap):
    data = open(ap, 'rb').read()
    m = re.match(rb'^opaque:(\d+)$', data)
    if m:
        return C.Rec('COpaque', int(m.group(1)))
    if not data:
        return C.Rec('CPartial')
    return C.Rec('COpaque', F.opaque_id(data))


# --------------------------------------------------------------------------
# Gallina terms
# --------------------------------------------------------------------------
def config_term(k, mode, tmp_parent, overwrite, iorder, corder):
    if mode == 'inside':
        tm = C.Rec('TInside')
    else:
        tm = C.Rec('TExternal', F.path_term(tmp_parent))
    return C.Rec('Build_config', F.path_term(DS), C.Nat(k), tm, bool(overwrite),
                 [C.Nat(i) for i in iorder], [C.Nat(n) for n in corder])


def asg_term(asg):
    return [[C.Nat(n) for n in outs] for outs in asg]


def synthetic_prior(root, rng, nparts, junk=True):
    """a tree at <root>/ds that looks like an older dataset (plus debris of an aborted run)"""
    d = os.path.join(root, DS)
    os.makedirs(d, exist_ok=True)
    for j in range(nparts):
        with open(os.path.join(d, f'part.{j}.parquet'), 'wb') as f:
            f.write(b'opaque:%d' % rng.randint(1, 10 ** 6))
    for n in ('_metadata', '_common_metadata'):
        with open(os.path.join(d, n), 'wb') as f:
            f.write(b'opaque:%d' % rng.randint(1, 10 ** 6))
    if junk:
        jd = os.path.join(d, f'part.{nparts + 1}.parquet')
        os.makedirs(jd)
        with open(os.path.join(jd, 'part0.parquet'), 'wb') as f:
            f.write(b'opaque:%d' % rng.randint(1, 10 ** 6))
        with open(os.path.join(d, 'notes.txt'), 'wb') as f:
            f.write(b'opaque:7')


def scratch():
    return tempfile.mkdtemp(prefix='sp_c10_')


def wipe(root):
    for n in os.listdir(root):
        p = os.path.join(root, n)
        shutil.rmtree(p) if os.path.isdir(p) and not os.path.islink(p) else os.remove(p)
