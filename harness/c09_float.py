"""C09, binary64 part: key VALUES of packed frames against the Coq kernel, float frames, sizes.

Model/PackFloat.v computes, on Coq's primitive floats, the key column that
`pack_partitions` indexes the rows by, from the bounds rows of the input partitions alone
(per-partition bounds -> nanmin / nanmax -> `hilbert_distance(total_bounds, p)` per partition,
on top of the bit-exact Model/FloatData2Coord.v).  This module

  * serialises one real packing (input partitions as (row id, bounds row), output partitions as
    (row id, index value), requested count, p) as a `c09_float_case` term: the kernel decides
    that the real (index, row) pairs are exactly the model's (key, row) pairs, that the index is
    non-decreasing and the count.  harness/c09.py adds such a case for EVERY packing it runs, so
    the reference for the key values no longer is the library's own hilbert_distance;
  * generates frames whose coordinates are not small integers: many-digit decimals in a narrow
    lon/lat-like window, decimal grids whose extent is 2^p spacings (every coordinate a float
    or two away from a cell edge), bbox centres on the cell edges of the frame's own 2^p grid
    computed in floating point, extents of a few ulps at magnitudes 1e6 .. 1e16, magnitudes of
    1e-11, windows across zero with +-0.0.  The extreme coordinates are never representable
    with ~10 decimals, and near-tie rows make every perturbation of the total bounds (or of the
    order of the float operations) visible in some index value;
  * runs LARGE frames (rows drawn from a small set of distinct near-tie grid points, so that
    the kernel evaluates every distinct row) on both sides of the size thresholds of the
    numeric path (512, 50 000 rows for numba threads, 2^16, 2^17), several numba threads, the
    same rows packed from one input partition and from several small ones: every index value
    equals the model's key of that row, and the ordered key list and the rows per key do not
    depend on the input partitioning (exact metamorphic relation).
"""
import math

import numpy as np

from . import common as C

IMPORTS = ('Model.Num Model.Bounds Model.DaskModel Model.Hilbert Model.FloatData2Coord Model.Pack '
           'Model.PackFloat.\nFrom Coq Require Import PrimFloat')
CASE_TY = 'list (list (nat * frow)) * list (list (nat * N)) * N * nat'
RES_TY = 'bool * bool * bool * bool'
FN = 'c09_float_case'

KEYS_CASE_TY = 'list (list frow) * nat'
KEYS_RES_TY = 'option (list (list N))'
KEYS_FN = 'c09_float_keys'

INF = float('inf')


# --------------------------------------------------------------------------
# serialisation (exact hexadecimal float literals)
# --------------------------------------------------------------------------
def fl(x):
    x = float(x)
    if math.isnan(x):
        return 'nan'
    if math.isinf(x):
        return 'infinity' if x > 0 else 'neg_infinity'
    return '(' + x.hex() + ')%float'


def frow(row):
    return '(' + ', '.join(fl(v) for v in row) + ')'


def coqN(v):
    return C.Raw(f'{int(v)}%N')


def float_case(in_parts, out_parts, req, p):
    """in_parts: [[(row id, bounds row of 4 floats)]], out_parts: [[(row id, index)]]"""
    return ([[C.Raw(f'({int(v)}%nat, {frow(r)})') for v, r in q] for q in in_parts],
            [[C.Raw(f'({int(v)}%nat, {int(i)}%N)') for v, i in q] for q in out_parts],
            coqN(req), C.Nat(int(p)))


def model_keys(in_rows_parts, p):
    """the model's keys (text) for the reader of a violation"""
    term = '[' + '; '.join('[' + '; '.join(frow(r) for r in q) + ']' for q in in_rows_parts) + ']'
    try:
        return C.coq_eval(IMPORTS, f'{KEYS_FN} ({term}, {int(p)}%nat)')
    except Exception as e:      # the comparison has failed already: for the reader only
        return 'not evaluated: ' + repr(e)[:200]


# --------------------------------------------------------------------------
# float coordinates
# --------------------------------------------------------------------------
FLAVOURS = ['window', 'edge', 'fine', 'grid', 'tiny', 'small', 'zero-cross']


def ulp_step(x, k):
    for _ in range(abs(k)):
        x = math.nextafter(x, INF if k > 0 else -INF)
    return x


def edge_values(rng, lo, hi, p, count):
    """floats at / next to the cell edges of the 2^p grid on [lo, hi], computed in floating point
    in five ways, inside [lo, hi]"""
    n = 1 << p
    w = hi - lo
    out = []
    for _ in range(count):
        k = rng.choice([1, n - 1, n // 2, rng.randint(0, n), rng.randint(0, n), rng.randint(0, min(n, 64))])
        how = rng.randint(0, 6)
        if how >= 5:
            # the step of an ulp or two taken on the OFFSET from lo (finer than an ulp of the sum when
            # |lo| is large): the scaled value is within an ulp of the integer k
            d = k * (w / n) if how == 5 else k * w / n
            out.append(min(max(lo + ulp_step(d, rng.choice([0, 0, 1, -1, 2, -2])), lo), hi))
            continue
        if how == 0:
            c = lo + k * (w / n)
        elif how == 1:
            c = lo + k * w / n
        elif how == 2:
            c = lo + (k / n) * w
        elif how == 3:
            c = hi - (n - k) * (w / n)
        else:
            c = lo + k / (n / w)
        c = ulp_step(c, rng.choice([0, 0, 0, 1, -1, 2, -2]))
        out.append(min(max(c, lo), hi))
    return out


def axis_values(rng, flavour, p, m):
    """(lo, hi, m floats in [lo, hi]) of one axis; lo < hi"""
    if flavour in ('window', 'edge'):
        lo = rng.uniform(-180, 180)
        hi = lo + rng.choice([1e-3, 1e-2, 0.37, 2.5]) * rng.uniform(0.5, 1)
        if flavour == 'edge':
            vals = edge_values(rng, lo, hi, p, m)
        else:
            vals = [min(max(lo + rng.random() * (hi - lo), lo), hi) for _ in range(m)]
        return lo, hi, vals
    if flavour == 'fine':
        # lo with few significant bits (v - lo is exact or nearly so), a width that is no power of two,
        # values an ulp of the OFFSET away from the cell edges: the sharpest near-ties
        lo = rng.choice([0.0, 3.0, -16.0, 0.5, 0.1, -0.3, 1.0, -1024.0])
        hi = lo + rng.choice([rng.uniform(0.1, 1000), rng.randint(1, 999) * 0.1, rng.randint(3, 99) * 1.0])
        return lo, hi, edge_values(rng, lo, hi, p, m)
    if flavour == 'grid':
        # a regular decimal grid whose extent is 2^p spacings: x_k = (i0 + k) * step written with
        # a few decimals (not representable), so every value is a near-tie of the discretisation
        digits = rng.choice([1, 1, 2, 3])
        unit = rng.choice([1, 5, 3, 7])
        i0 = rng.randint(-60, 60)
        n = 1 << p
        g = lambda k: round((i0 + k) * unit * 10.0 ** -digits, digits)    # noqa: E731
        ks = [rng.choice([rng.randint(0, n), rng.randint(0, min(n, 40)), n - rng.randint(0, min(n, 40))])
              for _ in range(m)]
        return g(0), g(n), [g(k) for k in ks]
    if flavour == 'tiny':
        # extents of a few (thousand) ulps at a large magnitude
        base = rng.choice([1e6 + 0.1, 123456.789, 1e15 + 0.5, -3e9 - 0.3, 2.0 ** 40 + 0.5, 2.0 ** 52 + 1, 1e16, -1e16])
        u = math.ulp(base) * rng.choice([1, 2, 5])
        span = rng.choice([3, 10, 1000, 1 << min(p, 12)])
        lo, hi = base, base + span * u
        if not lo < hi:
            lo, hi = hi, lo
        vals = [min(max(base + rng.randint(0, span) * u, lo), hi) for _ in range(m)]
        return lo, hi, vals
    if flavour == 'small':
        lo = rng.uniform(-1, 1) * 1e-11
        hi = lo + rng.uniform(0.1, 1) * 1e-11
        return lo, hi, [min(max(lo + rng.random() * (hi - lo), lo), hi) for _ in range(m)]
    if flavour == 'zero-cross':
        w = rng.choice([1e-3, 0.7, 33.3])
        lo, hi = -rng.uniform(0.1, 1) * w, rng.uniform(0.1, 1) * w
        vals = [rng.choice([0.0, -0.0, 5e-324, -5e-324]) if rng.random() < 0.3 else
                min(max(lo + rng.random() * (hi - lo), lo), hi) for _ in range(m)]
        return lo, hi, vals
    raise ValueError(flavour)


def centred_element(kind, cx, cy, dx, dy):
    """an element whose bounding box is [cx-dx, cx+dx] x [cy-dy, cy+dy] (as computed in floating point)"""
    x0, x1, y0, y1 = cx - dx, cx + dx, cy - dy, cy + dy
    if kind == 'point':
        return [cx, cy]
    if kind in ('multipoint', 'line'):
        return [x0, y0, x1, y1]
    if kind == 'ring':
        return [x0, y0, x1, y0, x1, y1, x0, y0]
    if kind in ('multiline', 'polygon'):
        return [[x0, y0, x1, y0, x1, y1, x0, y1, x0, y0]]
    return [[[x0, y0, x1, y0, x1, y1, x0, y1, x0, y0]]]


def float_elements(rng, kind, flavour, n, p, missing=1, empty=1):
    """n elements of `kind` with float coordinates of the flavour; two of them pin the total bounds
    to exactly [lo, hi] on both axes (so that 'edge' / 'grid' values are near-ties of THIS frame's
    grid); `missing` rows are None, `empty` rows empty (None for points)"""
    m = max(n - missing - empty - 1, 0)
    lox, hix, xs = axis_values(rng, flavour, p, m)
    loy, hiy, ys = axis_values(rng, flavour if flavour != 'grid' or rng.random() < 0.7 else 'window', p, m)
    rng.shuffle(ys)
    if kind == 'point':
        els = [[lox, loy], [hix, hiy]] if rng.random() < 0.5 else [[lox, hiy], [hix, loy]]
    elif rng.random() < 0.5:
        els = [centred_element(kind, lox, loy, 0.0, 0.0), centred_element(kind, hix, hiy, 0.0, 0.0)]
    else:
        # one element spans the whole extent: its centre (lo + hi) / 2 sits on the middle cell edge
        els = [_box_element(kind, lox, loy, hix, hiy)]
    for x, y in zip(xs, ys):
        if kind == 'point':
            els.append([x, y])
            continue
        f = rng.choice([0.0, 0.0, 0.25, 0.5, 0.9])
        dx = f * min(x - lox, hix - x)
        dy = rng.choice([0.0, 0.3, 0.9]) * min(y - loy, hiy - y)
        els.append(centred_element(kind, x, y, max(dx, 0.0), max(dy, 0.0)))
    keep = max(n - missing - empty, 2)
    els = els[:keep] + [None] * missing + [None if kind == 'point' else []] * empty
    rng.shuffle(els)
    return els


def _box_element(kind, x0, y0, x1, y1):
    if kind in ('multipoint', 'line'):
        return [x0, y0, x1, y1]
    if kind == 'ring':
        return [x0, y0, x1, y0, x1, y1, x0, y0]
    if kind in ('multiline', 'polygon'):
        return [[x0, y0, x1, y0, x1, y1, x0, y1, x0, y0]]
    return [[[x0, y0, x1, y0, x1, y1, x0, y1, x0, y0]]]


def second_column(rng, kind, n):
    """the other geometry column of a float frame (its own window; a few missing rows)"""
    k2 = 'line' if kind == 'point' else 'point'
    els = float_elements(rng, k2, rng.choice(['window', 'grid', 'zero-cross']), n, 10, missing=1, empty=1)
    while len(els) < n:
        els.append(None)
    return k2, els[:n]


# --------------------------------------------------------------------------
# large frames
# --------------------------------------------------------------------------
def big_points(rng, p, nrows, flavour):
    """(xy array of nrows points drawn from a small set of distinct near-tie points, which holds
    the four extreme values)"""
    side = min(1 << p, 24)
    lox, hix, xs = axis_values(rng, flavour, p, side)
    loy, hiy, ys = axis_values(rng, flavour, p, side)
    # whatever the flavour: centres on / next to the cell edges of this frame's grid, computed in
    # floating point in five ways (near-ties of the discretisation for any extent)
    xs = np.array([lox, hix] + xs + edge_values(rng, lox, hix, p, 40))
    ys = np.array([loy, hiy] + ys + edge_values(rng, loy, hiy, p, 40))
    npr = np.random.RandomState(rng.getrandbits(32))
    # every x value and every y value occurs, each x with six y's: a few hundred distinct points
    ix = npr.randint(0, len(xs), nrows)
    iy = (ix * 5 + npr.randint(0, 6, nrows)) % len(ys)
    ix[:2] = [0, 1]
    iy[:2] = [0, 1]
    perm = npr.permutation(nrows)
    return np.column_stack([xs[ix], ys[iy]])[perm]


def check_big(rep, spec):
    """one large frame (points or two-vertex lines), packed from several input partitionings"""
    import random

    import dask
    import numba
    import pandas as pd
    from spatialpandas import GeoDataFrame, GeoSeries
    from spatialpandas.geometry import LineArray, PointArray
    from . import c06_util as U

    rng = random.Random(spec['seed'])
    p, nrows, kind = spec['p'], spec['nrows'], spec['kind']
    xy = big_points(rng, p, nrows, spec['flavour'])
    nmiss = spec.get('missing', 0)
    if kind == 'point':
        if nmiss:
            # rows with NaN coordinates only (no location): bounds row NaN, key 0
            xy = xy.copy()
            xy[-nmiss:] = np.nan
        arr = PointArray(xy)
    else:
        # two-vertex lines around the point: the bbox centre ((x - d) + (x + d)) / 2 is a rounded
        # value next to the near-tie
        d = np.abs(xy) * 2.0 ** -30 + 1e-9
        flat = np.column_stack([xy - d, xy + d])
        arr = LineArray(flat.tolist())
    df = GeoDataFrame({'g': GeoSeries(arr), 'v': np.arange(nrows, dtype='int64'),
                       'w': np.arange(nrows) * 0.5})
    bounds = np.asarray(df.geometry.bounds.values, dtype='float64')
    # distinct bounds rows (NaN rows together)
    keyrows = [tuple('nan' if math.isnan(x) else x.hex() for x in map(float, r)) for r in bounds]
    distinct = {}
    for i, kr in enumerate(keyrows):
        distinct.setdefault(kr, i)
    drows = [[float(x) for x in bounds[i]] for i in distinct.values()]
    info = {'big': spec}
    baseline = None
    evaluated = []
    nthreads = min(4, numba.config.NUMBA_NUM_THREADS)
    old = numba.get_num_threads()
    numba.set_num_threads(nthreads)
    try:
        for cuts in spec['cutsets']:
            cuts = [min(c, nrows) for c in cuts]
            X = U.dask_from_chunks(df, cuts)
            n_out = spec['npartitions']
            try:
                P = X.pack_partitions(npartitions=n_out, p=p)
                parts = list(dask.compute(*P.to_delayed()))
            except ValueError:
                rep.count('unclaimed:ValueError')
                continue
            rep.evaluations += 1
            rep.count('big-frame-packing')
            rep.count(f'big:rows>={1 << (nrows.bit_length() - 1)}')
            rep.count('big:largest-input-partition>=%d' % (1 << (max(b - a for a, b in zip(cuts[:-1], cuts[1:])).bit_length() - 1)))
            out = pd.concat(parts)
            here = {**info, 'cuts': cuts}
            v = out['v'].values
            idx = out.index.values.astype('int64')
            if len(out) != nrows or not np.array_equal(np.sort(v), np.arange(nrows)):
                rep.violation('rows-not-conserved', f'large frame ({nrows} rows, input cuts {cuts}): '
                              f'{len(out)} rows out, or row ids lost / duplicated', here)
                continue
            order = np.argsort(v, kind='stable')
            same_w = np.array_equal(out['w'].values[order], df['w'].values)
            ob = np.asarray(out.geometry.bounds.values, dtype='float64')[order]
            if not same_w or not U.same_floats(ob, bounds) or list(out.columns) != list(df.columns):
                rep.violation('rows-not-conserved', f'large frame ({nrows} rows, input cuts {cuts}): a packed '
                              'row does not carry the columns / geometry of the input row with its id', here)
                continue
            if out.index.name != 'hilbert_distance' or (np.diff(idx) < 0).any():
                rep.violation('not-sorted', f'large frame ({nrows} rows, input cuts {cuts}): index '
                              f'{out.index.name!r} not non-decreasing across the output', here)
            if len(parts) != n_out:
                rep.violation('partition-count' if len(parts) < n_out else 'partition-count-more',
                              f'large frame: asked for {n_out} partitions, computes to {len(parts)}', here)
            byrow = idx[order]                      # index value of row id 0..nrows-1
            # rows with equal bounds rows: one key
            firsts = np.array([distinct[kr] for kr in keyrows])
            if not np.array_equal(byrow, byrow[firsts]):
                bad = int(np.nonzero(byrow != byrow[firsts])[0][0])
                rep.violation('equal-rows-different-keys',
                              f'large frame ({nrows} rows, input cuts {cuts}, p={p}): rows {bad} and '
                              f'{int(firsts[bad])} have the same bounds row {bounds[bad].tolist()} but are indexed '
                              f'{int(byrow[bad])} and {int(byrow[firsts[bad]])}', here)
                continue
            keys = [int(byrow[i]) for i in distinct.values()]
            if baseline is None:
                baseline = (cuts, idx.copy(), byrow.copy())
            elif not np.array_equal(baseline[1], idx) or not np.array_equal(baseline[2], byrow):
                nd = int((baseline[2] != byrow).sum())
                rep.violation('depends-on-input-partitioning',
                              f'large frame ({nrows} rows, p={p}): {nd} rows are indexed differently when the '
                              f'input is cut at {cuts} instead of {baseline[0]}', here)
            rep.nontrivial(('big', kind, nrows, p, repr(cuts), spec['seed']))
            if keys in evaluated:       # the kernel has this very list of keys for this frame already
                continue
            evaluated.append(keys)
            yield ([[C.Raw(frow(r)) for r in drows]], C.Nat(p)), \
                C.Some([[coqN(k) for k in keys]]), {**here, 'distinct_rows': len(drows), 'drows': drows,
                                                    'impl_keys': keys}
    finally:
        numba.set_num_threads(old)


def gen_big_specs(rep, tier):
    rng = rep.rng
    quick = tier == 'quick'
    specs = []
    # (rows, input partitionings): one partition above the threshold against partitions below it
    c600 = [[0, 600], [0, 511, 512, 600], [0] + list(range(50, 600, 50)) + [600]]       # 512; 12 partitions
    ladder = [
        (600, 'line', c600, 'grid'),
        (70000, 'point', [[0, 70000], [0, 35000, 70000], [0, 4465, 70000]], 'grid'),      # 50 000, 2^16
        (70000, 'line', [[0, 70000], [0, 20000, 45000, 70000]], 'fine'),
        (66000, 'point', [[0, 66000], [0, 33000, 66000]], 'edge'),
        (68000, 'line', [[0, 68000], [0, 34000, 68000]], 'grid'),
        (140000, 'point', [[0, 140000], [0, 70000, 140000], [0, 46000, 93000, 140000], [0, 8928, 140000]], 'grid'),  # 2^17
        (132000, 'line', [[0, 132000], [0, 44000, 88000, 132000]], 'fine'),
    ]
    for nrows, kind, cutsets, flav in ladder:
        for rnd in range(1 if quick else 4):
            flavour = flav if rnd == 0 else rng.choice(['grid', 'edge', 'fine', 'window', 'tiny'])
            specs.append({'kind': kind if rnd % 2 == 0 else ('line' if kind == 'point' else 'point'),
                          'nrows': nrows, 'p': rng.choice([5, 8, 10, 15, 20]), 'flavour': flavour,
                          'cutsets': cutsets, 'npartitions': rng.choice([2, 3, 4]),
                          'missing': rng.choice([0, 3]), 'seed': rng.getrandbits(32)})
    return specs


def run_big(rep, specs):
    cases, results, metas = [], [], []
    for spec in specs:
        try:
            for case, res, meta in check_big(rep, spec):
                cases.append(case)
                results.append(res)
                metas.append(meta)
        except Exception as e:
            import traceback
            rep.violation('harness-or-library-raises', f'{type(e).__name__}: {str(e)[:300]}',
                          {'big': spec, 'trace': traceback.format_exc()[-1500:]})
    bad = C.coq_mismatches(IMPORTS, KEYS_FN, KEYS_CASE_TY, KEYS_RES_TY, cases, results, shard=2)
    seen = set()
    for i in bad:
        m = metas[i]
        if m['big']['seed'] in seen:
            continue
        seen.add(m['big']['seed'])
        model = model_keys([m['drows']], m['big']['p'])
        mk = [int(x) for x in __import__('re').findall(r'\d+', model)] if model.startswith('Some') else None
        nd = sum(1 for a, b in zip(mk or [], m['impl_keys']) if a != b)
        first = next(((r, a, b) for r, a, b in zip(m['drows'], m['impl_keys'], mk or []) if a != b), None)
        rep.violation('index-differs-from-float-model',
                      f"large frame ({m['big']['nrows']} rows of {m['distinct_rows']} distinct bounds rows, "
                      f"input cuts {m['cuts']}, p={m['big']['p']}): {nd} distinct rows are not indexed by the "
                      'Hilbert distance of their bounds row against the total bounds of the whole frame as '
                      'Model/PackFloat.v computes it on binary64 (bounds row, index, model): ' + repr(first),
                      {k: v for k, v in m.items() if k not in ('drows', 'impl_keys')})
    rep.extra['big_model_cases'] = len(cases)


# --------------------------------------------------------------------------
# specs for the engine of harness/c09.py (frames with float coordinates)
# --------------------------------------------------------------------------
PROVENANCES = ['to_parquet', 'persist', 'pack_to_parquet', 'repartition', 'to_parquet_sindex']


def float_frame_spec(rng, kind, flavour, p, n=None, active=None):
    n = n if n is not None else rng.randint(8, 14)
    els = float_elements(rng, kind, flavour, n, p, missing=rng.choice([0, 1, 2]), empty=rng.choice([0, 1]))
    k2, els2 = second_column(rng, kind, len(els))
    return {'kind_g': kind, 'els_g': els, 'kind_h': k2, 'els_h': els2,
            'active': active or 'g', 'float': True, 'flavour': flavour, 'presort': False}


def random_cuts(rng, n):
    k = rng.randint(1, 4)
    cuts = sorted(rng.randint(0, n) for _ in range(k - 1))
    return [0] + cuts + [n]


def big_p(rng):
    """p with the weight on fine grids (a perturbation of the total bounds by 1e-11 of the extent
    shows from p ~ 16 on for ordinary rows; near-tie rows show it at every p)"""
    return rng.choice([20, 20, 19, 16, 15, 15, 10, 5, 1, rng.randint(1, 20)])


def gen_float_specs(rep, tier):
    from . import geomgen as G
    rng = rep.rng
    quick = tier == 'quick'
    scale = getattr(rep, 'scale', 1)
    specs = []
    # F1. every kind x every flavour, random input partitioning, one (npartitions, p)
    for ki, kind in enumerate(G.KINDS):
        for fi, flavour in enumerate(FLAVOURS):
            for _ in range((1 if quick else 6) * scale):
                p = big_p(rng)
                sp = float_frame_spec(rng, kind, flavour, p, active=rng.choice(['g', 'g', 'g', 'h']))
                sp.update(cuts=random_cuts(rng, len(sp['els_g'])), nps=[rng.randint(1, 4)], ps=[p], repack=None)
                specs.append(sp)
    # F2. provenances: the frame reaches pack_partitions through a parquet round trip (bounds
    #     taken from the dataset's metadata), persist, repartition, an earlier packing written to
    #     parquet, a warm spatial index followed by a row filter; each is also compared with the
    #     same rows packed from a fresh one-partition frame
    #     Every provenance is run on an 'edge' frame (all interior rows are near-ties of the frame's own
    #     grid and the extremes are random doubles: a perturbation of the cached bounds in the 10th
    #     decimal, a float32 round trip, a stale bound moves some row to a neighbouring cell) and on a
    #     frame of another flavour; the kinds rotate with the seed
    plan = []
    for i, prov in enumerate(PROVENANCES):
        plan.append((prov, 'edge'))
        plan.append((prov, ['grid', 'window', 'tiny', 'zero-cross', 'small'][(i + rep.seed) % 5]))
    plan += [('to_parquet', 'edge'), ('to_parquet', 'window')]
    if not quick:
        plan = plan * 4
    for j, (prov, flavour) in enumerate(plan * scale):
        kind = G.KINDS[(j + rep.seed) % len(G.KINDS)]
        for _ in range(1):
            p = rng.choice([20, 20, 19, 16, 15])
            sp = float_frame_spec(rng, kind, flavour, p)
            n = len(sp['els_g'])
            ops = [['provenance', prov]]
            if flavour != 'edge' and rng.random() < 0.5:
                keep = sorted(rng.sample(range(n), rng.randint(max(2, n // 2), n - 1)))
                ops.append(['filter_isin', keep])
            ops.append(['pack', rng.randint(1, 4), p])
            if rng.random() < 0.3:
                ops += [['set_geometry', 'h'], ['pack', rng.randint(1, 3), big_p(rng)]]
            k = rng.randint(1, 3)
            sp.update(cuts=[0] + sorted(rng.sample(range(1, n), k - 1)) + [n], seq=ops)
            specs.append(sp)
    return specs
