"""C18, two input classes added in round 4 (both judged by exact comparison between runs of the real
code: the property says "same result", so equality of the bits / of the masks is the oracle).

 (A) big_suite: SINGLE ELEMENTS that are large in every dimension an element has - rings / lines of
     8191, 8192, 8193, 20 011, 70 001 vertices, multi-geometries of 9 000 small parts, polygons with
     thousands of holes - at coordinates that are NOT dyadic (full 53-bit mantissas, offsets 1e3,
     1e6), so that every floating-point reduction inside one element (shoelace sum, segment-length
     sum, min / max) has an order-dependent last bit.  length / area / bounds / total_bounds /
     intersects_bounds through the array, the scalar element, GeoSeries and Dask (synchronous and
     threads) must be bit for bit the same for every numba thread count: numba.set_num_threads(k)
     for every k available in this process (the caller also compares the processes started with
     NUMBA_NUM_THREADS in {1,2,4,16} with each other).

 (B) history_suite / client_history: REPEATED IDENTICAL QUERIES UNDER DIFFERENT CALL HISTORIES.  The
     same (array, operation, box) is evaluated first thing, right after a query that matched
     everything, right after one that matched nothing, and right after blocks of the sizes a result
     can have were filled with 0x01 / 0xff / 1.2345 / 0x00 and freed ("dirty heap"); every evaluation
     must return the same answer.  Boxes: ordinary, zero width, zero height, a single point, a
     vertex-aligned zero-width box, reversed, NaN, infinite; all 7 kinds, arrays of 1 .. 777 elements
     with missing and empty elements; with and without inds, scalar elements, cx in slice and scalar
     form, sindex, bounds / total_bounds / length / area, PointArray.intersects against ordinary and
     degenerate shapes, DaskGeoSeries.intersects_bounds and Dask cx on both schedulers.  The client
     threads then put the same queries, each thread in its own order, to ONE shared array.
"""
import hashlib
import json
import random


def _h(obj):
    return hashlib.sha256(json.dumps(obj, sort_keys=True, default=str).encode()).hexdigest()[:16]


def _bits(a):
    import numpy as np
    a = np.ascontiguousarray(np.asarray(a, dtype='float64'))
    return hashlib.sha256(a.tobytes()).hexdigest()[:16]


# ======================================================================
# (A) large single elements, non-dyadic coordinates
# ======================================================================
def _ring(rs, cx, cy, r, nvert, ccw=True):
    """closed ring of nvert + 1 points around (cx, cy): a wobbly circle with a random phase"""
    import numpy as np
    t = np.linspace(0.0, 2.0 * np.pi, nvert, endpoint=False) + rs.random_sample() * 0.01
    if not ccw:
        t = t[::-1]
    xy = np.stack([cx + r * np.cos(t) * (1 + 0.1 * np.sin(7 * t)),
                   cy + r * np.sin(t) * (1 + 0.1 * np.cos(5 * t))], axis=1)
    xy = np.concatenate([xy, xy[:1]])
    return xy.ravel()


def _walk(rs, x, y, nvert, step=0.37):
    import numpy as np
    if nvert == 0:
        return np.zeros(0)
    d = (rs.random_sample((nvert, 2)) - 0.5) * step
    d[0] = (x, y)
    return np.cumsum(d, axis=0).ravel()


def make_big(seed, tier='quick'):
    """quick tier: rings / lines on both sides of 8192 vertices (2^14 coordinate values) and of 20 011 vertices, one
    16 385-vertex line inside a multiline, elements of 2 500 parts, a polygon with 600 holes; the thorough tier
    adds 70 001-vertex elements, 9 000-part elements and a polygon with 4 200 holes"""
    import numpy as np
    from spatialpandas.geometry import (LineArray, MultiLineArray, MultiPointArray, MultiPolygonArray,
                                        PolygonArray, RingArray)
    rs = np.random.RandomState(seed)
    third = 1.0 / 3.0
    full = tier != 'quick'
    nparts = 9000 if full else 2500
    nholes = 4200 if full else 600

    def tri(x, y, s=0.3):
        return np.array([x, y, x + s, y + s * third, x + s * 0.1, y + s * 0.7, x, y])

    def hole(i):
        return tri(20.1 + 0.9 * (i % 70), 20.2 + 0.9 * (i // 70))[::-1].reshape(-1, 2)[:, ::-1].ravel()
    out = {}
    out['line'] = LineArray([_walk(rs, 0.1, 0.2, 5), _walk(rs, 10.1, -3.7, 8191), _walk(rs, 1e3 + 0.3, 0.7, 8192),
                             _walk(rs, -7.3, 0.9, 8193), None, _walk(rs, 1e6 + 0.1, 2e6 + 0.7, 20011), [],
                             _walk(rs, 0.7, 0.1, 4097)] + ([_walk(rs, 3.3, 4.4, 70001)] if full else []))
    out['ring'] = RingArray([_ring(rs, 0.1, 0.2, 1.3, 50), _ring(rs, 10.1, -3.7, 2.3, 8190),
                             _ring(rs, 10.1, 3.7, 2.3, 8191), _ring(rs, 1e3 + 0.3, 0.7, 5.1, 8192), None,
                             _ring(rs, 1e6 + 0.1, 2e6 + 0.7, 9.9, 20011)] +
                            ([_ring(rs, 3.3, 4.4, 1.7, 70001)] if full else []))
    out['multipoint'] = MultiPointArray([_walk(rs, 0.1, 0.2, 3), None, _walk(rs, 1e3 + 0.3, 0.7, 8192)] +
                                        ([_walk(rs, 3.3, 4.4, 70001)] if full else []))
    out['multiline'] = MultiLineArray([
        [_walk(rs, 0.1, 0.2, 9000), _walk(rs, 5.1, 0.2, 12), _walk(rs, 1e3 + 0.3, 0.7, 20011)],
        [_walk(rs, 0.37 * i, 0.11 * i, 2 + i % 3) for i in range(nparts)],
        None,
        [_walk(rs, -7.3, 0.9, 8192)],
        [_walk(rs, 0.01 * i, 0.3, 3) for i in range(1100)] + [_walk(rs, 3.3, 4.4, 16385)]])
    out['polygon'] = PolygonArray([
        [_ring(rs, 0.1, 0.2, 1.3, 50)],
        [_ring(rs, 10.1, -3.7, 2.3, 9000)],
        [_ring(rs, 1e3 + 0.3, 2e3 + 0.7, 5.1, 20011), _ring(rs, 1e3 + 0.3, 2e3 + 0.7, 1.1, 8200, ccw=False)],
        None,
        [_ring(rs, -7.3, 0.9, 0.7, 8190)], [_ring(rs, -7.3, 0.9, 0.7, 8191)], [_ring(rs, -7.3, 0.9, 0.7, 8192)],
        # a shell with many tiny holes
        [_ring(rs, 50.1, 50.2, 60.3, 4000)] + [hole(i) for i in range(nholes)]] +
        ([[_ring(rs, 1e6 + 0.1, 2e6 + 0.7, 123.4, 70001)]] if full else []))
    out['multipolygon'] = MultiPolygonArray([
        [[_ring(rs, 3.3, 4.4, 1.7, 10007)], [_ring(rs, 30.3, 4.4, 0.9, 64)]],
        [[tri(0.37 * i, 0.11 * i)] for i in range(nparts)],
        [[_ring(rs, -3.3, 4.4, 1.1, 33)]],
        None,
        [[_ring(rs, 1e3 + 0.3, 0.7, 7.7, 70001 if full else 20011), _ring(rs, 1e3 + 0.3, 0.7, 1.3, 8192, ccw=False)],
         [tri(0.1, 0.2)]],
        [[_ring(rs, 0.1 * i, 0.2, 0.04, 7)] for i in range(1500 if full else 300)] + [[_ring(rs, 1.1, 90.7, 2.2, 16400)]]])
    return out


def big_suite(seed, tier='quick'):
    """returns ({name: digest}, [names that differ between thread counts / repeats])"""
    repeats = 1 if tier == 'quick' else 2
    import dask
    import dask.dataframe as dd
    import numba
    import numpy as np
    import spatialpandas.dask  # noqa: F401
    from spatialpandas import GeoDataFrame, GeoSeries
    arrs = make_big(seed, tier)
    box = (0.35, -1.05, 12.15, 4.45)
    have = numba.config.NUMBA_NUM_THREADS
    counts = [k for k in ((1, 2, 4, 16) if tier == 'quick' else (1, 2, 3, 4, 7, 16)) if k <= have]
    before = numba.get_num_threads()

    def evaluate():
        d = {}
        for kind, a in arrs.items():
            d[f'big:length:{kind}'] = _bits(a.length)
            d[f'big:area:{kind}'] = _bits(a.area)
            d[f'big:bounds:{kind}'] = _bits(a.bounds)
            d[f'big:total_bounds:{kind}'] = _bits(np.asarray(a.total_bounds, dtype=float))
            d[f'big:intersects_bounds:{kind}'] = _h(np.asarray(a.intersects_bounds(box)).tolist())
            els = [a[i] for i in range(len(a))]
            d[f'big:scalar.length:{kind}'] = _bits([np.nan if e is None else float(e.length) for e in els])
            d[f'big:scalar.area:{kind}'] = _bits([np.nan if e is None else float(e.area) for e in els])
            s = GeoSeries(a)
            d[f'big:series.length+area:{kind}'] = _h([_bits(s.length.values), _bits(s.area.values)])
        for kind in ('line', 'polygon', 'multipolygon'):
            ddf = dd.from_pandas(GeoDataFrame({'geometry': GeoSeries(arrs[kind])}), npartitions=2)
            for nm, kw in (('sync', dict(scheduler='synchronous')), ('threads', dict(scheduler='threads', num_workers=4))):
                with dask.config.set(**kw):
                    g = ddf.geometry
                    d[f'big:dask-{nm}.area+length:{kind}'] = _h([_bits(g.area.compute().sort_index().values),
                                                                _bits(g.length.compute().sort_index().values),
                                                                _bits(g.bounds.compute().sort_index().values)])
        return d
    digests, unstable = None, []
    try:
        for k in counts:
            numba.set_num_threads(k)
            for rp in range(repeats if k > 1 else 1):
                d = evaluate()
                if digests is None:
                    digests = d
                    continue
                for nm in sorted(d):
                    if d[nm] != digests[nm]:
                        tag = f'{nm} [numba.set_num_threads({k}) vs ({counts[0]}), repeat {rp}]'
                        if not any(u.startswith(nm + ' ') for u in unstable):
                            unstable.append(tag)
    finally:
        numba.set_num_threads(before)
    return digests, unstable


# ======================================================================
# (B) the same query under different call histories
# ======================================================================
KINDS = ('point', 'multipoint', 'line', 'ring', 'multiline', 'polygon', 'multipolygon')
EVERYTHING = (-100.0, -100.0, 100.0, 100.0)
NOTHING = (500.0, 500.0, 600.0, 600.0)


def gen_elements(rs, kind, n):
    """n elements in [0, 10]^2 at coordinates with full mantissas; about 1 in 9 missing, some empty"""
    import numpy as np
    out = []
    for i in range(n):
        u = rs.random_sample()
        if i > 0 and u < 0.11:
            out.append(None)
            continue
        x, y = rs.random_sample(2) * 9.0 + 0.1

        def walk(k):
            return _walk(rs, x, y, k, step=0.8) if k else np.zeros(0)

        def ring(s=0.6):
            return np.array([x, y, x + s, y + s / 3.0, x + s * 0.1, y + s * 0.7, x, y])
        if kind == 'point':
            out.append(np.array([x, y]))
        elif kind == 'multipoint':
            out.append(walk(int(rs.randint(0, 5)) if i else 3))
        elif kind == 'line':
            out.append(walk(int(rs.choice([0, 2, 3, 4, 5])) if i else 3))
        elif kind == 'ring':
            out.append(ring())
        elif kind == 'multiline':
            out.append([walk(int(rs.choice([2, 3, 4]))) for _ in range(int(rs.randint(0, 4)) if i else 2)])
        elif kind == 'polygon':
            out.append([ring(1.2)] + ([ring(0.3)[::-1].reshape(-1, 2)[:, ::-1].ravel() + 0.3] if i % 3 == 0 else []))
        else:
            x2 = x
            polys = []
            for _ in range(int(rs.randint(1, 3))):
                polys.append([np.array([x2, y, x2 + 0.5, y + 0.17, x2 + 0.05, y + 0.4, x2, y])])
                x2 = x2 + 0.7
            out.append(polys)
    return out


def make_small(kind, elements):
    from spatialpandas.geometry import (LineArray, MultiLineArray, MultiPointArray, MultiPolygonArray,
                                        PointArray, PolygonArray, RingArray)
    cls = {'point': PointArray, 'multipoint': MultiPointArray, 'line': LineArray, 'ring': RingArray,
           'multiline': MultiLineArray, 'polygon': PolygonArray, 'multipolygon': MultiPolygonArray}[kind]
    return cls(elements)


def boxes_for(arr):
    """the query boxes: ordinary, degenerate in every way, one aligned with a vertex of the array"""
    import numpy as np
    nan, inf = float('nan'), float('inf')
    b = np.asarray(arr.bounds, dtype=float)
    ok = b[~np.isnan(b).any(axis=1)]
    vx, vy = (float(ok[0][0]), float(ok[0][1])) if len(ok) else (4.3, 5.7)
    return [('box', (2.05, 3.15, 6.35, 7.45)),
            ('zero-width', (4.3, -100.0, 4.3, 100.0)),
            ('zero-height', (-100.0, 5.7, 100.0, 5.7)),
            ('point-box', (4.3, 5.7, 4.3, 5.7)),
            ('zero-width@vertex', (vx, -100.0, vx, 100.0)),
            ('zero-height@vertex', (-100.0, vy, 100.0, vy)),
            ('reversed', (6.35, 7.45, 2.05, 3.15)),
            ('nan', (nan, 0.0, 5.0, 5.0)),
            ('infinite', (-inf, -inf, inf, inf)),
            ('everything', EVERYTHING),
            ('nothing', NOTHING)]


def poison(sizes, pattern):
    """fill blocks of the byte sizes a result could have with `pattern` and free them again"""
    import numpy as np
    keep = []
    for nb in sizes:
        for _ in range(4):
            if pattern == 'float':
                keep.append(np.full(max(1, nb // 8), 1.2345))
                if nb % 8:
                    keep.append(np.full(nb, 0x3f, dtype=np.uint8))
            else:
                keep.append(np.full(nb, pattern, dtype=np.uint8))
    del keep


def _canon(r):
    import numpy as np
    if isinstance(r, tuple):
        return [_canon(x) for x in r]
    a = np.asarray(r)
    if a.dtype.kind == 'f':
        return [float(x).hex() for x in a.ravel()]
    if a.dtype.kind == 'b':
        return [bool(x) for x in a.ravel()]
    return [int(x) for x in a.ravel()] if a.dtype.kind in 'iu' else [str(x) for x in a.ravel()]


def _guard(fn):
    try:
        return ['ok', fn()]
    except Exception as e:  # noqa: BLE001
        return ['raised', type(e).__name__]


def build_ops(kind, arr, rs, with_dask):
    """[(op name, needs a box, fn(box) -> canonical result, byte sizes a result may have)]"""
    import numpy as np
    from spatialpandas import GeoDataFrame, GeoSeries
    n = len(arr)
    inds = rs.randint(0, n, max(1, n // 2)).astype('int64')
    none = np.zeros(0, dtype='int64')
    ser = GeoSeries(arr, index=np.arange(n) * 2 + 1)
    built = GeoSeries(arr.copy(), index=np.arange(n) * 2 + 1).build_sindex()
    live = [i for i in range(n) if arr[i] is not None][:3]
    sizes = sorted({m * s for m in {n, len(inds), 1, max(1, n - int(np.asarray(arr.isna()).sum()))}
                    for s in (1, 4, 8, 32)})
    ops = []

    def cx_of(s, b):
        x0, y0, x1, y1 = b
        if x0 == x1 and y0 == y1:
            return s.cx[x0, y0]
        if x0 == x1:
            return s.cx[x0, y0:y1]
        if y0 == y1:
            return s.cx[x0:x1, y0]
        return s.cx[x0:x1, y0:y1]
    ops.append(('intersects_bounds', True, lambda b: _canon(arr.intersects_bounds(b))))
    ops.append(('intersects_bounds[inds]', True, lambda b: _canon(arr.intersects_bounds(b, inds=inds))))
    ops.append(('intersects_bounds[no inds]', True, lambda b: _canon(arr.intersects_bounds(b, inds=none))))
    ops.append(('scalar.intersects_bounds', True, lambda b: [bool(arr[i].intersects_bounds(b)) for i in live]))
    ops.append(('series.intersects_bounds', True, lambda b: _canon(ser.intersects_bounds(b).values)))
    ops.append(('cx', True, lambda b: [int(i) for i in cx_of(ser, b).index]))
    ops.append(('cx(sindex)', True, lambda b: [int(i) for i in cx_of(built, b).index]))
    ops.append(('cx[slices]', True, lambda b: [int(i) for i in ser.cx[b[0]:b[2], b[1]:b[3]].index]))
    ops.append(('sindex.intersects', True, lambda b: sorted(_canon(built.array.sindex.intersects(np.array(b))))))
    ops.append(('bounds', False, lambda b: _canon(arr.bounds)))
    ops.append(('total_bounds', False, lambda b: _canon(np.asarray(arr.total_bounds, dtype=float))))
    ops.append(('isna', False, lambda b: _canon(arr.isna())))
    if kind != 'point':
        ops.append(('length', False, lambda b: _canon(arr.length)))
        ops.append(('area', False, lambda b: _canon(arr.area)))
        ops.append(('series.length+area', False, lambda b: [_canon(ser.length.values), _canon(ser.area.values)]))
    else:
        from spatialpandas.geometry import Line, MultiLine, MultiPoint, MultiPolygon, Polygon
        nan = float('nan')
        shapes = {'polygon': Polygon([[1.1, 1.2, 8.3, 1.4, 8.1, 7.7, 1.3, 7.9, 1.1, 1.2]]),
                  'nan-polygon': Polygon([[nan] * 8]),
                  'multipolygon': MultiPolygon([[[0.1, 0.2, 4.3, 0.2, 4.3, 4.4, 0.1, 4.4, 0.1, 0.2]],
                                                [[5.5, 5.5, 9.7, 5.5, 9.7, 9.9, 5.5, 5.5]]]),
                  'nan-multipolygon': MultiPolygon([[[nan] * 8]]),
                  'line': Line([0.1, 0.1, 9.9, 9.9]), 'nan-line': Line([nan] * 4),
                  'multiline': MultiLine([[0.1, 5.0, 9.9, 5.0], []]),
                  'multipoint': MultiPoint([float(v) for i in live for v in np.asarray(arr[i].flat_values)] or [1.5, 2.5]),
                  'empty-multipoint': MultiPoint([])}
        for nm, sh in shapes.items():
            if n > 200 and nm in ('line', 'nan-line', 'multipoint', 'empty-multipoint'):
                continue        # numba opens a parallel region per point for these: slow with many threads
            ops.append((f'point.intersects:{nm}', False, lambda b, s=sh: _canon(arr.intersects(s))))
            ops.append((f'point.intersects[inds]:{nm}', False, lambda b, s=sh: _canon(arr.intersects(s, inds=inds))))
    if with_dask:
        import dask
        import dask.dataframe as dd
        import spatialpandas.dask  # noqa: F401
        ddf = dd.from_pandas(GeoDataFrame({'geometry': ser, 'k': np.arange(n)}), npartitions=min(3, n))

        def dask_ib(b, kw):
            with dask.config.set(**kw):
                lazy = [ddf.geometry.intersects_bounds(b), ddf.geometry.intersects_bounds(EVERYTHING),
                        ddf.geometry.intersects_bounds(NOTHING)]
                got = dask.compute(*lazy)
                rows = ddf.cx[b[0]:b[2], b[1]:b[3]].compute()
            return [_canon(got[0].sort_index().values), sorted(int(i) for i in rows.index)]
        ops.append(('dask-sync.intersects_bounds+cx', True, lambda b: dask_ib(b, dict(scheduler='synchronous'))))
        ops.append(('dask-threads.intersects_bounds+cx', True,
                    lambda b: dask_ib(b, dict(scheduler='threads', num_workers=4))))
    return ops, sizes


HISTORIES = ('first', 'after-everything', 'after-nothing', 'dirty-01', 'dirty-ff', 'dirty-float', 'dirty-00',
             'after-everything-again')


def history_suite(seed, tier, share=-1, nshares=4):
    """The arrays (kind x size) are dealt out to `nshares` processes: this call takes those of `share` (-1: all of
    them, -2: none).  In the quick tier every kind keeps the sizes 1, 48 and 777 spread over the shares plus two more.
    returns ([violation records], number of evaluations, [arrays taken])"""
    import numpy as np
    rs = np.random.RandomState(seed)
    sizes_n = [1, 3, 48, 200, 777] if tier == 'quick' else [1, 2, 3, 17, 48, 200, 777, 1500, 5000]
    bad, evals, taken = [], 0, []
    seen_bad = set()
    serial = 0
    for ki, kind in enumerate(KINDS):
        for ni, n in enumerate(sizes_n):
            elements = gen_elements(rs, kind, n)            # (drawn for every array: the shares see the same data)
            serial += 1
            if share == -2 or (share >= 0 and (ki + ni + seed) % nshares != share):
                continue
            taken.append(f'{kind}[{n}]')
            arr = make_small(kind, elements)
            with_dask = n == 48
            ops, sizes = build_ops(kind, arr, rs, with_dask)
            boxes = boxes_for(arr)
            for op, needs_box, fn in ops:
                slow = op.startswith('dask')
                qs = boxes if needs_box else [('-', None)]
                if slow:
                    qs = [q for q in boxes if q[0] in ('zero-width', 'zero-height@vertex')]
                for bname, b in qs:
                    results = {}
                    for hist in HISTORIES:
                        if slow and hist not in ('first', 'after-everything', 'dirty-01'):
                            continue
                        if hist.startswith('after-everything'):
                            if not needs_box:
                                continue
                            _guard(lambda: fn(EVERYTHING))
                        elif hist == 'after-nothing':
                            if not needs_box:
                                continue
                            _guard(lambda: fn(NOTHING))
                        elif hist.startswith('dirty-'):
                            pat = {'01': 0x01, 'ff': 0xff, '00': 0x00, 'float': 'float'}[hist[6:]]
                            poison(sizes, pat)
                        results[hist] = _guard(lambda: fn(b))
                        evals += 1
                    first = results['first']
                    differ = [hh for hh, r in results.items() if r != first]
                    if differ and (op, kind) not in seen_bad:
                        seen_bad.add((op, kind))
                        bad.append({'op': op, 'geometry': kind, 'n': n, 'box_name': bname,
                                    'box': None if b is None else [repr(v) for v in b],
                                    'histories_that_differ_from_first': differ,
                                    'first': str(first)[:160],
                                    'other': str(results[differ[0]])[:160]})
    return bad, evals, taken


def client_history(seed, tier, nthreads=8):
    """ONE shared array per kind; every client thread puts the same queries (ordinary, matching
    everything, matching nothing, degenerate) in its own seeded order, several times; each answer must be
    the answer a single-threaded caller got.  Returns (failures, count)"""
    import sys
    import threading

    import numpy as np
    sys.setswitchinterval(1e-5)
    rs = np.random.RandomState(seed + 77)
    failures, count = [], 0
    for kind in KINDS:
        for n in ((48,) if tier == 'quick' else (7, 48, 200, 777)):
            arr = make_small(kind, gen_elements(rs, kind, n))
            ops, _sizes = build_ops(kind, arr, rs, False)
            ops = [o for o in ops if o[0] in ('intersects_bounds', 'intersects_bounds[inds]', 'cx', 'cx(sindex)',
                                             'scalar.intersects_bounds', 'length', 'area', 'bounds')]
            queries = [(op, bn, b, fn) for op, nb, fn in ops for bn, b in (boxes_for(arr) if nb else [('-', None)])
                       if bn in ('-', 'box', 'zero-width', 'zero-height', 'zero-height@vertex', 'point-box',
                                 'everything', 'nothing', 'nan')]
            expected = [_guard(lambda q=q: q[3](q[2])) for q in queries]
            bar = threading.Barrier(nthreads)
            got = [None] * nthreads

            def client(i, queries=queries, expected=expected, bar=bar, got=got):
                order = list(range(len(queries)))
                random.Random(seed * 1000 + i).shuffle(order)
                wrong = None
                try:
                    bar.wait()
                    for _rp in range(1 if tier == 'quick' else 3):
                        for j in order:
                            q = queries[j]
                            r = _guard(lambda: q[3](q[2]))
                            if r != expected[j] and wrong is None:
                                wrong = (j, r)
                except Exception as e:  # noqa: BLE001
                    wrong = (-1, f'{type(e).__name__}: {str(e)[:100]}')
                got[i] = wrong
            ths = [threading.Thread(target=client, args=(i,)) for i in range(nthreads)]
            for t in ths:
                t.start()
            for t in ths:
                t.join()
            count += 1
            wrong = [(i, g) for i, g in enumerate(got) if g is not None]
            if wrong:
                i, (j, r) = wrong[0]
                q = queries[j] if j >= 0 else ('?', '?', None, None)
                failures.append({'object': f'{kind} array shared by {nthreads} threads putting mixed queries',
                                 'round': 0, 'n': n, 'op': q[0], 'box_name': q[1],
                                 'box': None if q[2] is None else [repr(v) for v in q[2]],
                                 'expected': str(expected[j])[:200] if j >= 0 else '',
                                 'got': [f'thread {i}: {str(r)[:200]}']})
                break
    return failures, count
