"""C20 — the active geometry column is honoured and survives frame operations.

Correspondence: sequences of the listed pandas / Dask operations are applied to real
GeoDataFrames / DaskGeoDataFrames (>= 2 geometry columns of different kinds, the active
one neither first nor named 'geometry', plus controls) and, after every step,
(type, _geometry, .geometry.name, columns) of the result — for Dask: of the meta, of
every partition and of compute() — is compared with Model/GeoFrame.v evaluated by the
Coq kernel on the same sequence.  The propagation class of every operation is a fixed
table in the model, so an operation that changes class is a disagreement.  The *uses*
(cx, build_sindex, sjoin, Hilbert packing, partition bounds) are checked on frames
whose geometry columns give different answers.  Plain columns come in every storage class
(c20_util.flavours) and Dask frames also WIDE (more than 32 partitions, really shuffled).
"""
import itertools
import os
import shutil
import tempfile

import numpy as np

from . import common as C
from . import c20_util as U
from . import geomgen as G

DEBUG_ONLY = None       # see run(): on()

ANCHOR_FILES = ['spatialpandas/geodataframe.py', 'spatialpandas/geoseries.py',
                'spatialpandas/dask.py', 'spatialpandas/io/parquet.py',
                'spatialpandas/tools/sjoin.py']
TRUSTED = ['pandas / Dask propagation of _metadata between the repo\'s hooks is a fixed table of '
           'three classes in Model/GeoFrame.v (pop_class, dop_class); every row is compared with '
           'the installed pandas / Dask on every run',
           'column contents are not modelled: which column a spatial operation reads is checked '
           'directly on frames whose geometry columns select different rows']

IMPORTS = 'Model.GeoFrame'
OBS = 'bool * option string * option string * list (string * bool)'
DOBS = f'({OBS}) * list (option ({OBS})) * option ({OBS})'
P_CASE = 'list col * list pop'
P_RES = f'option (list (option ({OBS})))'
D_CASE = 'list col * list pop * nat * list dop'
D_RES = f'option (option ({DOBS}) * list (option ({DOBS})))'
Q_CASE = 'list col * option string * nat * list dop'
# the public projections (verdict) of the result types
POBS = 'bool * option string * list (string * bool)'
PDOBS = f'({POBS}) * list (option ({POBS})) * option ({POBS})'
P_RES_PUB = f'option (list (option ({POBS})))'
D_RES_PUB = f'option (option ({PDOBS}) * list (option ({PDOBS})))'


def pub_pandas_res(r):
    return C.Some([U.pub_opt(x) for x in r.v])


def pub_dask_res(r):
    first, rest = r.v
    return C.Some((U.pub_dask(first), [U.pub_dask(x) for x in rest]))


def public_mismatches(rep, fn, case_ty, cases, ress, flavour):
    """positions where the PUBLIC observations (type, .geometry.name, columns) differ from the
    model.  The private attribute _geometry is compared too when it exists, but a difference
    there alone is only counted."""
    keep = [i for i in range(len(cases)) if "'badtype'" not in repr(ress[i])]   # reported already
    if len(keep) != len(cases):
        sub_bad = public_mismatches(rep, fn, case_ty, [cases[i] for i in keep], [ress[i] for i in keep], flavour)
        return [keep[j] for j in sub_bad]
    if not cases:
        return []
    full_ty, pub_ty, proj = {'pandas': (P_RES, P_RES_PUB, pub_pandas_res),
                             'dask': (D_RES, D_RES_PUB, pub_dask_res),
                             'obs': (f'option ({OBS})', f'option ({POBS})', U.pub_opt)}[flavour]
    if U.private_ok():
        sub = C.coq_mismatches(IMPORTS, fn, case_ty, full_ty, cases, ress)
        if not sub:
            return []
    else:
        rep.count('internal-unavailable:GeoDataFrame._geometry')
        sub = list(range(len(cases)))
    pb = C.coq_mismatches(IMPORTS, fn + '_pub', case_ty, pub_ty, [cases[i] for i in sub],
                          [proj(ress[i]) for i in sub])
    bad = [sub[j] for j in pb]
    if U.private_ok() and len(sub) > len(bad):
        rep.count('internal-differs-public-agrees:_geometry', len(sub) - len(bad))
    return bad


# --------------------------------------------------------------------------
# generation of column layouts
# --------------------------------------------------------------------------
def layouts_fixed():
    """(cols, target active column): the scope of the property and its controls"""
    return [
        # target: >= 2 geometry columns of different kinds, active neither first nor 'geometry'
        ([('a', 0, 0), ('v', None, 0), ('b', 2, 3), ('c', 5, 5)], 'b'),
        # (the plain columns of some layouts are pandas extension arrays that are not geometries:
        # str, category, nullable Int64 - see c20_util.flavours)
        ([('a', 6, 1), ('b', 1, 4), ('v', None, 0), ('name_str', None, 1)], 'b'),
        # a column literally named 'geometry' that is NOT the active one
        ([('a', 0, 0), ('geometry', 5, 2), ('v', None, 0), ('c', 2, 6)], 'c'),
        ([('geometry', 0, 0), ('v', None, 0), ('b', 4, 3), ('kind_cat', None, 2)], 'b'),
        # a PLAIN column named 'geometry'
        ([('a', 3, 0), ('geometry', None, 2), ('v', None, 0), ('b', 1, 5)], 'b'),
        # controls: active is the first / is named 'geometry' / the only one
        ([('cnt_Int64', None, 1), ('a', 0, 0), ('v', None, 0), ('b', 2, 3)], 'a'),
        ([('a', 0, 0), ('v', None, 0), ('geometry', 2, 3)], 'geometry'),
        ([('v', None, 0), ('b', 5, 3)], 'b'),
    ]


def layout_random(rng, allow_empty_name=False, scope='parquet'):
    ng = rng.choice([2, 2, 3, 3, 4])
    gnames = rng.sample(U.GEOM_NAMES, ng)
    if allow_empty_name and rng.random() < 0.5:
        gnames[rng.randrange(ng)] = ''
    kinds = rng.sample(range(7), ng)
    shifts = rng.sample(range(U.NROWS), ng)
    cols = [(n, k, s) for n, k, s in zip(gnames, kinds, shifts)]
    plains = ['v'] + rng.sample(['w', 'z'], rng.randint(0, 1))
    # plain columns of other storage classes (extension arrays that are not geometries, numpy
    # blocks other than int64) usable in `scope`
    if rng.random() < 0.6:
        plains += rng.sample(U.flavours(scope), rng.choice([1, 1, 2, 3]))
    if 'geometry' not in gnames and rng.random() < 0.15:
        plains.append('geometry')
    for p in plains:
        cols.insert(rng.randint(0, len(cols)), (p, None, rng.randint(0, 5)))
    cand = [n for n, k, _ in cols if k is not None]
    first = cand[0]
    pref = [n for n in cand if n != first and n != 'geometry']
    target = rng.choice(pref) if pref and rng.random() < 0.8 else rng.choice(cand)
    return cols, target


# --------------------------------------------------------------------------
# generation of pandas operations
# --------------------------------------------------------------------------
POP_KINDS = U.SIMPLE_POPS + ['OCx', 'OSubset', 'OSubset', 'ODrop', 'OAssign', 'ORename',
                             'OResetIndex', 'OMerge', 'OConcat', 'OConcat', 'OSetGeometry',
                             'OGeoInit', 'OConstructor']


def gen_pop(rng, kind, df, canonical=False):
    """an op dict of the given kind with parameters valid for the current real frame"""
    from spatialpandas.geometry import GeometryDtype
    n = len(df)
    cols = [str(c) for c in df.columns]
    gcols = [str(c) for c, dt in zip(df.columns, df.dtypes) if isinstance(dt, GeometryDtype)]
    act = U.act_name(df)
    op = {'op': kind}
    if kind == 'OIlocSlice':
        op.update(a=1, b=max(n - 1, 1)) if canonical else op.update(a=rng.randint(0, 2), b=rng.randint(2, 9))
    elif kind in ('OIlocList', 'OLocLabels'):
        op['idx'] = [5, 0, 2] if canonical else [rng.randrange(16) for _ in range(rng.randint(0, 5))]
    elif kind in ('OLocMask', 'OBoolMask'):
        op['mask'] = [True, False, True] if canonical else \
            [rng.random() < 0.7 for _ in range(rng.randint(1, 5))]
    elif kind in ('OHead', 'OTail'):
        op['k'] = 3 if canonical else rng.randint(0, 9)
    elif kind == 'OCx':
        t0 = 1 if canonical else rng.randint(0, U.NROWS - 1)
        t1 = 5 if canonical else rng.randint(t0, U.NROWS - 1)
        op['box'] = list(U.box_over(t0, t1))
    elif kind == 'OSubset':
        if canonical == 'drop-active':
            op['names'] = [c for c in cols if c != act]
        elif canonical == 'no-geometry':
            op['names'] = [c for c in cols if c not in gcols]
        elif canonical:
            op['names'] = [c for c in reversed(cols) if c == act or c not in gcols]
        else:
            k = rng.randint(1, max(1, len(cols)))
            names = rng.sample(cols, min(k, len(cols))) if cols else []
            if act in cols and act not in names and rng.random() < 0.6:
                names.append(act)
            if rng.random() < 0.04:
                names.append('missing')
            op['names'] = names
    elif kind == 'ODrop':
        cand = [c for c in cols if c != act] if canonical or rng.random() < 0.8 else cols
        op['names'] = cand[:1] if canonical else rng.sample(cand, min(len(cand), rng.randint(0, 2)))
    elif kind in ('OAssign', 'OMerge'):
        free = [x for x in ['n1', 'n2', 'n3', 'n4', 'n5', 'n6', 'geometry'] if x not in cols]
        op['name'] = free[0] if canonical else rng.choice(free[:3] + free[-1:])
        if kind == 'OMerge':
            op['ident'] = (canonical == 'ident') if canonical else rng.random() < 0.5
    elif kind == 'OResetIndex':
        free = [x for x in ['i1', 'i2', 'i3', 'i4', 'i5', 'i6', 'i7'] if x not in cols]
        op['name'] = free[0] if canonical or rng.random() < 0.95 else (cols[0] if cols else 'i1')
    elif kind == 'ORename':
        free = [x for x in ['r1', 'r2', 'r3', 'r4', 'r5', 'r6', 'geometry'] if x not in cols]
        plain = [c for c in cols if c not in gcols]
        if canonical == 'to-geometry':
            # a non-active geometry column takes the literal label 'geometry' (a hidden, stale
            # _geometry = 'geometry' would become visible here)
            cand = [g for g in gcols if g != act] or gcols or cols
            op.update(old=cand[0], new='geometry' if 'geometry' not in cols else free[0])
        elif canonical == 'active':
            op.update(old=act if act in cols else cols[0], new=free[0])
        elif canonical:
            op.update(old=(plain or cols)[0], new=free[0])
        else:
            pool = [c for c in cols if c != act] if rng.random() < 0.75 else cols
            op.update(old=rng.choice(pool or cols or ['v']), new=rng.choice(free))
    elif kind == 'OConcat':
        others = []
        for _ in range(1 if canonical else rng.randint(1, 2)):
            r = rng.random()
            if canonical == 'disagree' or (not canonical and r < 0.3):
                alt = [g for g in gcols if g != act]
                others.append({'kind': 'setgeom', 'g': alt[0] if canonical and alt else
                               (rng.choice(alt) if alt else (gcols[0] if gcols else 'a'))})
            elif canonical == 'plain-first' or (not canonical and r < 0.4):
                others.append({'kind': 'plain'})
            elif not canonical and r < 0.55:
                p = list(cols)
                rng.shuffle(p)
                others.append({'kind': 'perm', 'cols': p})
            else:
                others.append({'kind': 'same'})
        if canonical == 'plain-first':
            op.update(before=others, after=[])
        elif canonical:
            op.update(before=[], after=others)
        else:
            k = rng.randint(0, len(others))
            op.update(before=others[:k], after=others[k:])
    elif kind == 'OSetGeometry':
        if canonical == 'plain':
            # a column that is not a geometry (an extension array rather than a numpy column when
            # there is one): must be refused
            plain = [c for c in cols if c not in gcols]
            ext = [c for c in plain if U.is_extension_flavour(c)]
            op.update(g=(ext or plain or ['missing'])[-1], inplace=False)
        elif canonical:
            alt = [g for g in gcols if g != act]
            op.update(g=alt[-1] if alt else (gcols[0] if gcols else 'a'), inplace=(canonical == 'inplace'))
        else:
            r = rng.random()
            plain = [c for c in cols if c not in gcols]
            g = rng.choice(gcols) if gcols and r < 0.8 else (rng.choice(plain) if plain and r < 0.9 else (
                rng.choice(cols) if cols and r < 0.95 else 'missing'))
            op.update(g=g, inplace=rng.random() < 0.5)
    return op


def canonical_ops(df):
    """one instance per row of the model's table (and per interesting parameter class)"""
    import random
    rng = random.Random(0)
    out = []
    for k in U.SIMPLE_POPS + ['OCx', 'OAssign', 'OResetIndex', 'OGeoInit', 'OConstructor',
                              'ODrop']:
        out.append(gen_pop(rng, k, df, canonical=True))
    for k, modes in (('OMerge', [True, 'ident']), ('OSubset', [True, 'drop-active', 'no-geometry']), ('ORename', [True, 'active', 'to-geometry']),
                     ('OConcat', [True, 'disagree', 'plain-first']),
                     ('OSetGeometry', [True, 'inplace', 'plain'])):
        for m in modes:
            out.append(gen_pop(rng, k, df, canonical=m))
    return out


def flavour_sequences(f):
    """[((cols, target), [pandas op sequences])] around one plain column `f` of a given storage"""
    l1 = ([('a', 0, 0), (f, None, 1), ('b', 2, 3), ('v', None, 0)], 'b')
    l2 = ([(f, None, 0), ('geometry', 5, 2), ('c', 2, 6)], 'c')       # the plain column comes first
    sub = lambda *names: {'op': 'OSubset', 'names': list(names)}          # noqa: E731
    drop = lambda *names: {'op': 'ODrop', 'names': list(names)}           # noqa: E731
    s1 = [[sub(f)],
          [sub('v', f), {'op': 'OConstructor'}],
          [drop('a', 'b')],
          [drop('a', 'b'), {'op': 'OSortIndex'}, {'op': 'OIlocSlice', 'a': 1, 'b': 4}],
          [sub(f, 'b')],
          [sub(f, 'a')],                                            # drops the active column only
          [{'op': 'OSetGeometry', 'g': f, 'inplace': False}],       # refused
          [{'op': 'OIlocSlice', 'a': 1, 'b': 6}, sub(f), {'op': 'OGeoInit'}],   # GeoDataFrame(no geometry) raises
          [sub(f, 'b'), {'op': 'OPickle'}, drop('b')],
          [sub(f, 'b'), {'op': 'OConcat', 'before': [], 'after': [{'kind': 'same'}]}, drop('b')]]
    s2 = [[sub(f)],
          [drop('geometry', 'c')],
          [sub(f, 'c')],
          [{'op': 'OGeoInit'}],
          [sub(f, 'geometry')],
          [{'op': 'OSetGeometry', 'g': f, 'inplace': True}]]
    return [(l1, s1), (l2, s2)]


def flavour_dask_sequences(f):
    sub = lambda *names: {'op': 'DSubset', 'names': list(names)}          # noqa: E731
    return [[{'op': 'DMapIdentity'}, sub('v', f), {'op': 'DMapIdentity'}],
            [{'op': 'DDrop', 'names': ['a']}, {'op': 'DDrop', 'names': ['b']}],
            [{'op': 'DConcatSelf'}, sub(f, 'b'), {'op': 'DDrop', 'names': ['b']}],
            [{'op': 'DSortValues', 'auto': True}, sub(f, 'v')],
            [{'op': 'DSetGeometry', 'name': f}]]


# --------------------------------------------------------------------------
# running one pandas sequence on the real library
# --------------------------------------------------------------------------
def run_pandas_seq(cols, ops, on_step=None, nrows=None):
    """returns (observations, executed ops with the concat operands recorded, last frame)"""
    import pandas as pd
    df = pd.DataFrame(U.build_dict(cols, nrows or U.NROWS))
    res, done = [], []
    for op in ops:
        done.append(op)
        src, src_state = df, (type(df).__name__, U.act_name(df), [str(c) for c in df.columns])
        try:
            df = U.apply_pop(df, op)
        except Exception as e:
            op['_raised'] = f'{type(e).__name__}: {str(e)[:80]}'
            res.append(None)
            return res, done, None
        if df is not src and (type(src).__name__, U.act_name(src),
                              [str(c) for c in src.columns]) != src_state:
            op['_changed_source'] = True
            res.append(('badtype', f'{op["op"]} changed the frame it was applied to'))
            return res, done, None
        o = U.observe(df)
        res.append(o if U.is_bad(o) else C.Some(o))
        if on_step is not None:
            on_step(df, op)
    return res, done, df


def pandas_case(cols, done):
    return (U.coq_cols(cols), [U.pop_coq(op) for op in done])


def first_bad_step(fn, case_ty, mk_case, done, res):
    """smallest prefix on which the model and the implementation disagree (public observations)"""
    cases, ress = [], []
    for k in range(1, len(done) + 1):
        cases.append(mk_case(done[:k]))
        ress.append(pub_pandas_res(C.Some(res[:k])))
    bad = C.coq_mismatches(IMPORTS, fn + '_pub', case_ty, P_RES_PUB, cases, ress)
    return bad[0] if bad else len(done) - 1


# --------------------------------------------------------------------------
# uses: which column the spatial operations read
# --------------------------------------------------------------------------
def check_uses_pandas(rep, df, cols, history):
    """df has a valid active geometry: cx selects by it, build_sindex indexes it"""
    from spatialpandas import GeoDataFrame
    from spatialpandas.geometry import GeometryDtype
    rng = rep.rng
    name = U.active(df)
    gcols = [str(c) for c, dt in zip(df.columns, df.dtypes) if isinstance(dt, GeometryDtype)]
    t0 = rng.randint(0, U.NROWS - 2)
    t1 = rng.randint(t0, min(U.NROWS - 1, t0 + 3))
    box = U.box_over(t0, t1)
    meta = {'columns': cols, 'ops': [U.strip_private(o) for o in history], 'box': list(box),
            'active': name}
    for sindexed in (False, True):
        d2 = df.copy()
        if sindexed:
            d2 = d2.build_sindex()
        got = list(d2.cx[box[0]:box[1], box[2]:box[3]].index)
        want = list(d2.index[U.rows_in_box(d2, name, box)])
        rep.evaluations += 1
        others = [list(d2.index[U.rows_in_box(d2, g, box)]) for g in gcols if g != name]
        if any(o != want for o in others):
            rep.nontrivial(('cx', tuple(map(str, want)), name, sindexed, len(rep.nontrivial_keys) % 97))
        if sorted(map(str, got)) != sorted(map(str, want)):
            rep.violation('uses:cx', f'GeoDataFrame.cx did not select by the active column {name!r}',
                          {**meta, 'sindexed': sindexed, 'got': got, 'want': want,
                           'repro': 'build the frame with harness.c20_util.build_dict, apply ops, '
                                    'df.cx[x0:x1, y0:y1]'})
            return
    # build_sindex: returns the frame, still active on the same column, and cx afterwards is right
    # (checked above with sindexed=True).  That it builds the index of the active column AND NO
    # OTHER is visible only through the private cell GeometryArray._sindex: an optional extra.
    d3 = GeoDataFrame(df)          # copies the arrays: no spatial index yet
    r3 = d3.build_sindex()
    rep.evaluations += 1
    if not isinstance(r3, GeoDataFrame) or U.active(r3) != name or U.active(d3) != name:
        rep.violation('uses:build_sindex', f'build_sindex() lost the active column {name!r}', meta)
        return
    try:
        d4 = GeoDataFrame(df)
        before = {g: d4[g].array._sindex is not None for g in gcols}
        d4.build_sindex()
        after = {g: d4[g].array._sindex is not None for g in gcols}
    except AttributeError:
        rep.count('internal-unavailable:GeometryArray._sindex')
        return
    if after != {g: (g == name) or before[g] for g in gcols}:
        rep.count('internal-differs-public-agrees:build_sindex-cells')


def brute_pairs(left, lname, right, rname):
    """(left row position, right row position) of intersecting geometries; the shapes of
    this harness intersect iff their boxes do"""
    lb = np.asarray(left[lname].array.bounds, dtype=float)
    rb = np.asarray(right[rname].array.bounds, dtype=float)
    out = []
    for j in range(len(rb)):
        for i in range(len(lb)):
            if not (lb[i, 2] < rb[j, 0] or rb[j, 2] < lb[i, 0] or lb[i, 3] < rb[j, 1] or rb[j, 3] < lb[i, 1]):
                out.append((i, j))
    return sorted(out)


def check_sjoin(rep, left, right, meta, dask_parts=None):
    """sjoin joins on the active columns of both frames.  Point/box-like shapes only:
    intersect iff bounding boxes meet (positions are 4 apart, shapes 1 wide)."""
    import dask.dataframe as dd
    from spatialpandas import sjoin
    lname, rname = U.active(left), U.active(right)
    l2 = left.reset_index(drop=True)
    r2 = right.reset_index(drop=True)
    l2.index.name = None
    want = brute_pairs(l2, lname, r2, rname)
    if dask_parts:
        lf = dd.from_pandas(l2, npartitions=dask_parts)
        if U.active(lf._meta) != lname:
            rep.violation('uses:sjoin-dask', 'from_pandas lost the active column', meta)
            return
        got_df = sjoin(lf, r2).compute(scheduler='synchronous')
    else:
        got_df = sjoin(l2, r2)
    got = sorted(zip([int(i) for i in got_df.index], [int(i) for i in got_df['index_right']]))
    rep.evaluations += 1
    gl = [g for g in meta['left_geoms'] if g != lname]
    if any(brute_pairs(l2, g, r2, rname) != want for g in gl):
        rep.nontrivial(('sjoin', lname, rname, dask_parts, len(want)))
    if got != want:
        rep.violation('uses:sjoin-dask' if dask_parts else 'uses:sjoin',
                      f'sjoin did not join on the active columns ({lname!r}, {rname!r})',
                      {**meta, 'got': got, 'want': want, 'npartitions': dask_parts})


def check_uses_dask(rep, ddf, frames, meta):
    """ddf: every partition and the meta agree on a valid active column `name`"""
    import dask.dataframe as dd
    import pandas as pd
    name = U.active(ddf._meta)
    whole = pd.concat(frames)
    rng = rep.rng
    nrows = meta.get('nrows') or U.NROWS
    if ddf.npartitions > U.WIDE_ABOVE:
        # every query below would run the whole graph (a multi-stage shuffle) again: the partitions
        # of a wide frame are computed once (persist() of the repo keeps type and active column -
        # table row DPersist) and the queries asked of that
        ddf = ddf.persist(scheduler='synchronous')
    # partition bounds / partition sindex come from the active column (public accessors:
    # ddf.geometry.partition_bounds, ddf.partition_sindex)
    fresh = ddf.copy()
    rep.evaluations += 1
    # (the extents of the named column per partition, with the partitioning of the collection
    # itself: to_delayed() may optimise a repartition away and yield another partitioning)
    want_b = np.asarray(ddf[name].map_partitions(
        lambda s: pd.DataFrame([s.total_bounds], columns=['x0', 'y0', 'x1', 'y1'])).compute(
        scheduler='synchronous').values, dtype=float)
    got_b = np.asarray(fresh.geometry.partition_bounds.values, dtype=float)
    same = got_b.shape == want_b.shape and bool(np.all((got_b == want_b) | (np.isnan(got_b) & np.isnan(want_b))))
    tq0 = rng.randint(0, nrows - 2)
    qbox = U.box_over(tq0, min(nrows - 1, tq0 + 1))
    got_sel = sorted(int(i) for i in fresh.partition_sindex.intersects(
        np.array([qbox[0], qbox[2], qbox[1], qbox[3]])))
    want_sel = [i for i, tb in enumerate(want_b) if not np.isnan(tb).any()
                and not (tb[2] < qbox[0] or tb[3] < qbox[2] or tb[0] > qbox[1] or tb[1] > qbox[3])]
    if fresh.geometry.name != name or not same or got_sel != want_sel:
        rep.violation('uses:partition-bounds',
                      f'partition_sindex / partition_bounds not taken from the active column {name!r}',
                      {**meta, 'got': got_b.tolist(), 'want': want_b.tolist(), 'got_partitions': got_sel,
                       'want_partitions': want_sel, 'box': list(qbox)})
        return
    # once the frame-level index exists, every geometry column still reports ITS OWN extents
    # (the frame hands its cached bounds to the series it returns)
    for h in meta.get('geoms', []):
        hb = np.asarray(fresh[h].partition_bounds.values, dtype=float)
        wb = np.asarray(ddf[h].map_partitions(
            lambda s: pd.DataFrame([s.total_bounds], columns=['x0', 'y0', 'x1', 'y1'])).compute(
            scheduler='synchronous').values, dtype=float)
        rep.evaluations += 1
        if hb.shape != wb.shape or not bool(np.all((hb == wb) | (np.isnan(hb) & np.isnan(wb)))):
            rep.violation('uses:partition-bounds',
                          f'after partition_sindex, ddf[{h!r}].partition_bounds are not the extents of {h!r} '
                          f'(active column {name!r})', {**meta, 'column': h, 'got': hb.tolist(), 'want': wb.tolist()})
            return
    # optional extra: the private caches are keyed by the active column only
    try:
        keys = (sorted(fresh._partition_bounds), sorted(fresh._partition_sindex))
        if keys != ([name], [name]):
            rep.count('internal-differs-public-agrees:partition-cache-keys')
    except (AttributeError, TypeError):
        rep.count('internal-unavailable:DaskGeoDataFrame._partition_bounds')
    # Dask (2026.8) may partition `ddf[col]` differently from `ddf` itself after
    # sort_values(..).repartition(..) (projection push-down moves the partition boundaries);
    # cx then pairs bounds and partitions of different partitionings.  A Dask / Dask-cx matter
    # (reported), not a question of which column is read: such frames are not used further here.
    whole_b = np.array([np.asarray(p[name].total_bounds, dtype=float) for p in frames])
    if whole_b.shape != want_b.shape or not bool(np.all((whole_b == want_b) | (np.isnan(whole_b) & np.isnan(want_b)))):
        rep.count('dask:projection-changes-partitioning')
        return
    # cx: rows by the active column.  A small box, and on wide frames also a box over most of the
    # region: it meets (almost) every partition - more partitions than any threshold on the way -
    # and still selects different rows for every column (their rows are shifted cyclically)
    t0 = rng.randint(0, nrows - 2)
    queries = [(t0, rng.randint(t0, min(nrows - 1, t0 + 2)))]
    if ddf.npartitions > U.WIDE_ABOVE and nrows > 8:
        a0 = rng.randint(1, max(1, nrows // 8))
        queries.append((a0, nrows - 1 - rng.randint(1, max(1, nrows // 8))))
    gcols = meta['geoms']
    key = 'v' if 'v' in whole.columns else None
    for t0, t1 in queries:
        box = U.box_over(t0, t1)
        try:
            got = ddf.cx[box[0]:box[1], box[2]:box[3]].compute(scheduler='synchronous')
        except KeyError as e:
            if U.dask_internal_keyerror(e) and meta.get('npartitions', 0) > 32 and U.dask_task_shuffle_subset_bug() \
                    and any(o.get('op') in SHUFFLES for o in meta.get('dask_ops', [])):
                # see run_dask_steps: Dask's KeyError on a subset of the partitions of a wide task shuffle
                rep.count('dask:wide-task-shuffle-subset-keyerror-skipped')
                return
            raise
        want_mask = U.rows_in_box(whole, name, box)
        rep.evaluations += 1
        if any((U.rows_in_box(whole, g, box) != want_mask).any() for g in gcols if g != name):
            rep.nontrivial(('dask-cx', name, t0, t1, len(frames), len(rep.nontrivial_keys) % 97))
        got_rows = sorted(got[key].tolist()) if key else len(got)
        want_rows = sorted(whole[key][want_mask].tolist()) if key else int(want_mask.sum())
        if got_rows != want_rows:
            rep.violation('uses:dask-cx', f'DaskGeoDataFrame.cx did not select by the active column {name!r}',
                          {**meta, 'box': list(box), 'got_rows': got_rows, 'want_rows': want_rows})
            return
    # Hilbert packing key
    if key and len(whole) >= 4 and whole[key].is_unique:
        try:
            packed = ddf.pack_partitions(npartitions=2, p=6).compute(scheduler='synchronous')
        except AssertionError:
            # Dask's repartition asserts when set_index produced fewer partitions than asked for
            # (tiny frames); not a question of which column is used
            rep.count('uses:pack-skipped-dask-assertion')
            return
        s = whole[name]
        want_h = s.hilbert_distance(total_bounds=s.total_bounds, p=6)
        wantp = sorted(zip(whole[key].tolist(), [int(h) for h in want_h.tolist()]))
        gotp = sorted(zip(packed[key].tolist(), [int(h) for h in packed.index.tolist()]))
        rep.evaluations += 1
        rep.nontrivial(('pack', name, len(frames), tuple(h for _v, h in wantp)))
        if gotp != wantp or packed.index.name != 'hilbert_distance':
            again = ddf.index.name == 'hilbert_distance'
            rep.violation('uses:repack' if again else 'uses:pack',
                          f'pack_partitions did not key on the active column {name!r}'
                          + (' (frame was already packed: index named hilbert_distance)' if again else ''),
                          {**meta, 'got': gotp, 'want': wantp})


def source_state(df, box):
    """what a caller can see of a frame: type, active column, columns, index name, the rows cx selects"""
    try:
        rows = sorted(map(str, df.cx[box[0]:box[1], box[2]:box[3]].index.tolist()))
    except Exception as e:  # noqa: BLE001
        rows = f'{type(e).__name__}'
    return (type(df).__name__, U.active(df), [str(c) for c in df.columns], list(df.index.names), len(df), rows)


FOLLOW_UPS = ['set_geometry-inplace', 'assign-column', 'drop-inplace', 'rename_axis-inplace']


def check_independence(rep, cols, target):
    """The result of a NON-inplace operation is an object of its own: mutate it afterwards
    (inplace set_geometry, column assignment, drop(inplace=True), index rename) and look at the
    source again (type, active column, columns, index names, the rows cx selects)."""
    from spatialpandas import GeoDataFrame
    gnames = [n for n, k, _ in cols if k is not None]
    others = [g for g in gnames if g != target]
    if not others:
        return
    box = U.box_over(1, 3)

    def fresh():
        return GeoDataFrame(U.build_dict(cols)).set_geometry(target)
    ops = [o for o in canonical_ops(fresh())
           if not (o['op'] == 'OSetGeometry' and o.get('inplace'))]
    # set_geometry(<the column that is active already>), not inplace
    ops.append({'op': 'OSetGeometry', 'g': target, 'inplace': False})
    for op in ops:
        for fu in FOLLOW_UPS:
            src = fresh()
            if not U.pop_applicable(src, op):
                continue
            before = source_state(src, box)
            try:
                res = U.apply_pop(src, dict(op))
            except Exception:  # noqa: BLE001
                continue
            rep.evaluations += 1
            meta = {'kind': 'independence', 'columns': cols, 'target': target, 'op': U.strip_private(op),
                    'follow_up': fu, 'source_before': before}
            if res is src:
                rep.violation(f'result-is-source:{op["op"]}',
                              f'{op["op"]} (not inplace) returned the very object it was applied to', meta)
                break
            try:
                rcols = [str(c) for c in res.columns]
                if fu == 'set_geometry-inplace':
                    if not isinstance(res, GeoDataFrame):
                        continue
                    alt = [c for c in others if c in rcols]
                    if not alt:
                        continue
                    res.set_geometry(alt[0], inplace=True)
                elif fu == 'assign-column':
                    res['zz_new'] = 1
                    if rcols:
                        res[rcols[-1]] = res[rcols[-1]]
                elif fu == 'drop-inplace':
                    plain = [c for c in rcols if c not in gnames] or rcols
                    res.drop(columns=[plain[0]], inplace=True)
                else:
                    res.rename_axis('renamed_axis', inplace=True)
            except Exception as e:  # noqa: BLE001
                rep.count(f'independence:follow-up-raised:{type(e).__name__}')
                continue
            after = source_state(src, box)
            rep.nontrivial(('independence', repr(cols), op['op'], repr(U.strip_private(op))[:80], fu))
            if after != before:
                rep.violation(f'result-shares-state:{op["op"]}',
                              f'mutating the result of {op["op"]} ({fu}) changed the frame it came from',
                              {**meta, 'source_after': after})
                break


def check_provenances(rep, cols, target, tmp, tag):
    """A Dask frame whose partitions are CONCRETE, re-used objects (persist(), from_delayed over
    existing GeoDataFrames) next to those re-created per compute (from_pandas, read_parquet_dask):
    derive a child with set_geometry / cx / build_sindex, compute the child, then look at the
    parent again (meta, every partition, compute(), the rows cx selects) and at the caller's own
    pandas frames."""
    import dask
    import dask.dataframe as dd
    from spatialpandas import GeoDataFrame
    from spatialpandas.io import read_parquet_dask
    rng = rep.rng
    gnames = [n for n, k, _ in cols if k is not None]
    others = [g for g in gnames if g != target]
    if not others:
        return
    df = GeoDataFrame(U.build_dict(cols)).set_geometry(target)
    path = os.path.join(tmp, f'prov{tag}.parq')
    dd.from_pandas(df, npartitions=3).to_parquet(path)

    def make(prov):
        """a fresh parent and the caller's own pandas frames it was built from"""
        own = GeoDataFrame(U.build_dict(cols)).set_geometry(target)
        parts = [own.iloc[0:3], own.iloc[3:6], own.iloc[6:8]]
        if prov == 'from_pandas':
            return dd.from_pandas(own, npartitions=3), [own]
        if prov == 'persist':
            return dd.from_pandas(own, npartitions=3).persist(scheduler='synchronous'), [own]
        if prov == 'from_delayed':
            return dd.from_delayed([dask.delayed(p) for p in parts], meta=own.iloc[:0]), parts + [own]
        if prov == 'persist-of-from_delayed':
            return dd.from_delayed([dask.delayed(p) for p in parts], meta=own.iloc[:0]).persist(
                scheduler='synchronous'), parts + [own]
        return read_parquet_dask(path, geometry=target), []

    t0 = rng.randint(0, U.NROWS - 3)
    box = U.box_over(t0, t0 + 2)
    want_rows = sorted(df['v'][U.rows_in_box(df, target, box)].tolist())
    cases, ress, metas = [], [], []
    for prov in ('from_pandas', 'persist', 'from_delayed', 'persist-of-from_delayed', 'read_parquet_dask'):
        derivations = [('set_geometry', h) for h in others] + [('cx', None), ('build_sindex', None)]
        for how, h in derivations:
            parent, own_frames = make(prov)
            before = U.observe_dask(parent)
            if how == 'set_geometry':
                child = parent.set_geometry(h)
            elif how == 'cx':
                child = parent.cx[box[0]:box[1], box[2]:box[3]]
            else:
                child = parent.build_sindex()
            oc = U.observe_dask(child)                       # computes the child
            want_child = h if how == 'set_geometry' else target
            after = U.observe_dask(parent)
            try:
                got_rows = sorted(parent.cx[box[0]:box[1], box[2]:box[3]].compute(scheduler='synchronous')['v'].tolist())
            except Exception as e:  # noqa: BLE001
                got_rows = f'{type(e).__name__}: {str(e)[:80]}'
            originals = [U.active(p) for p in own_frames]
            rep.evaluations += 1
            rep.nontrivial(('provenance', repr(cols), prov, how, h))
            meta = {'kind': 'provenance', 'columns': cols, 'target': target, 'provenance': prov,
                    'derivation': [how, h], 'box': list(box), 'parent_before': before, 'parent_after': after,
                    'child': oc, 'parent_cx_rows': got_rows, 'want_cx_rows': want_rows,
                    'originals_geometry': originals}
            child_ok = (not U.is_bad(oc) and oc[0][2] == C.Some(want_child)
                        and all(p is not None and p.v[2] == C.Some(want_child) for p in oc[1]))
            if not child_ok:
                rep.violation(f'provenance:{how}:child', f'{prov}: the frame derived with {how} is not active on '
                                                         f'{want_child!r} everywhere', meta)
                continue
            if repr(U.pub_dask(after)) == repr(U.pub_dask(before)) and repr(after) != repr(before):
                rep.count('internal-differs-public-agrees:parent-_geometry')
            if repr(U.pub_dask(after)) != repr(U.pub_dask(before)) or got_rows != want_rows \
                    or any(o != target for o in originals):
                rep.violation(f'provenance:{how}:parent',
                              f'{prov}: deriving a frame with {how} and computing it changed the parent frame '
                              f'(meta / partitions / cx rows) or the caller\'s own pandas frames', meta)
                continue
            # the parent is (still) what the model says a frame of 3 partitions active on target is
            cases.append((U.coq_cols(cols), [U.pop_coq({'op': 'OGeoInit'}),
                                             U.pop_coq({'op': 'OSetGeometry', 'g': target, 'inplace': False})],
                          C.Nat(3), []))
            ress.append(wrap_dask(after, []))
            metas.append(meta)
    bad = public_mismatches(rep, 'run_dask', D_CASE, cases, ress, 'dask')
    for i in bad[:2]:
        rep.violation('provenance:state', 'the parent frame is not what the model says after a child was derived '
                                          'and computed', metas[i])


def check_parquet_bounds(rep, df, cols, gnames, tmp, tag):
    """a dataset of 4 partitions whose geometry columns have different per-partition extents:
    read_parquet_dask(geometry=g, bounds=box) loads exactly the partitions whose extent of g meets
    the box, hence every row whose geometry in g intersects it"""
    import dask.dataframe as dd
    from spatialpandas.io import read_parquet_dask
    rng = rep.rng
    path = os.path.join(tmp, f'bounds{tag}.parq')
    dd.from_pandas(df, npartitions=4).to_parquet(path)
    for g in gnames:
        full = read_parquet_dask(path, geometry=g)
        pframes = [full.partitions[i].compute(scheduler='synchronous') for i in range(full.npartitions)]
        whole = df
        boxes = [(0, 1), (3, 4), (6, 7)] + [tuple(sorted((rng.randint(0, U.NROWS - 1), rng.randint(0, U.NROWS - 1))))
                                             for _ in range(2)]
        for t0, t1 in boxes:
            box = U.box_over(t0, t1)                      # (x0, x1, y0, y1)
            r = read_parquet_dask(path, geometry=g, bounds=(box[0], box[2], box[1], box[3]))
            got_frame = r.compute(scheduler='synchronous')
            got = sorted(got_frame['v'].tolist())
            sel = U.partitions_meeting(pframes, g, box)
            want = sorted(v for i in sel for v in pframes[i]['v'].tolist())
            must = sorted(whole['v'][U.rows_in_box(whole, g, box)].tolist())
            rep.evaluations += 1
            if any(U.partitions_meeting(pframes, h, box) != sel for h in gnames if h != g):
                rep.nontrivial(('parquet-bounds', repr(cols), g, t0, t1))
            meta = {'kind': 'parquet-bounds', 'columns': cols, 'geometry': g, 'box': list(box),
                    'npartitions': len(pframes),
                    'repro': 'dd.from_pandas(GeoDataFrame(c20_util.build_dict(columns)), 4).to_parquet(p); '
                             'read_parquet_dask(p, geometry=g, bounds=(x0, y0, x1, y1)).compute().v',
                    'got_rows': got, 'want_rows': want, 'rows_intersecting': must,
                    'partitions_by_column': {h: U.partitions_meeting(pframes, h, box) for h in gnames}}
            if U.active(r._meta) != g or (len(got_frame) and U.active(got_frame) != g):
                rep.violation('uses:parquet-bounds', f'read_parquet_dask(geometry={g!r}, bounds=..) is not active on {g!r}',
                              meta)
                return
            if got != want or not set(must) <= set(got):
                rep.violation('uses:parquet-bounds',
                              f'read_parquet_dask(geometry={g!r}, bounds=box) did not prune the partitions by the '
                              f'extents of the active column', meta)
                return


# --------------------------------------------------------------------------
# Dask sequences
# --------------------------------------------------------------------------
DOP_KINDS = ['DSubset', 'DMask', 'DLocAll', 'DAssign', 'DDrop', 'DRename', 'DResetIndex', 'DCopy',
             'DPersist', 'DPickle', 'DPartitions', 'DMapIdentity', 'DConcatSelf', 'DSortValues',
             'DSetIndex', 'DRepartition', 'DPackPartitions', 'DCx', 'DCxPartitions', 'DBuildSindex',
             'DSetGeometry']
SHUFFLES = ('DSortValues', 'DSetIndex', 'DRepartition', 'DPackPartitions')
# partition-to-partition operations: the result has the partitions of the frame they are applied to
SAME_PARTITIONS = ('DSubset', 'DMask', 'DLocAll', 'DAssign', 'DDrop', 'DRename', 'DResetIndex', 'DCopy',
                   'DPersist', 'DPickle', 'DMapIdentity', 'DBuildSindex', 'DSetGeometry')


def gen_dop(rng, kind, ddf, frames, nshuffles, nrows=None):
    """None when the operation is not applicable in the current real state"""
    nrows = nrows or U.NROWS
    wide = ddf.npartitions > U.WIDE_ABOVE
    from spatialpandas.geometry import GeometryDtype
    from spatialpandas.dask import DaskGeoDataFrame
    meta = ddf._meta
    cols = [str(c) for c in meta.columns]
    gcols = [str(c) for c, dt in zip(meta.columns, meta.dtypes) if isinstance(dt, GeometryDtype)]
    act = U.act_name(meta)
    isgeo = isinstance(ddf, DaskGeoDataFrame)
    parts_ok = all(f is not None for f in frames)
    valid = isgeo and act in gcols
    agree = valid and parts_ok and all(U.active(f) == act for f in frames)
    has_v = 'v' in cols and 'v' not in gcols
    op = {'op': kind}
    # once a shuffle has happened the active column is not dropped / renamed any more: Dask's
    # optimizer may move a projection below the shuffle, and what a *stale* _geometry becomes
    # then depends on the optimizer (states with a valid active column are not affected)
    keep_act = nshuffles > 0
    if kind == 'DSubset':
        if not cols:
            return None
        k = rng.randint(1, len(cols))
        names = rng.sample(cols, k)
        if act in cols and act not in names and (keep_act or rng.random() < 0.7):
            names.append(act)
        op['names'] = names
    elif kind == 'DMask':
        if not has_v:
            return None
        op['k'] = rng.randint(0, 5)
    elif kind == 'DLocAll':
        # a label slice over the whole (known, sorted) index range: every partition is kept
        if not ddf.known_divisions:
            return None
        try:
            op.update(lo=int(ddf.divisions[0]), hi=int(ddf.divisions[-1]))
        except (TypeError, ValueError):
            return None
    elif kind == 'DAssign':
        op['name'] = next(x for x in ['n1', 'n2', 'n3', 'n4', 'n5', 'n6', 'n7'] if x not in cols)
    elif kind == 'DDrop':
        cand = [c for c in cols if c != act] if keep_act or rng.random() < 0.8 else cols
        if not cand:
            return None
        op['names'] = [rng.choice(cand)]
    elif kind == 'DRename':
        pool = [c for c in cols if c != act] if keep_act or rng.random() < 0.8 else cols
        if not pool:
            return None
        op.update(old=rng.choice(pool), new=next(x for x in ['r1', 'r2', 'r3', 'r4', 'r5', 'r6', 'r7'] if x not in cols))
    elif kind == 'DResetIndex':
        name = ddf.index.name or 'index'
        if name in cols:
            return None
        op['name'] = str(name)
    elif kind == 'DPartitions':
        n = ddf.npartitions
        op['sel'] = sorted(rng.sample(range(n), rng.randint(1, n)))
    elif kind in SHUFFLES:
        if not agree or nshuffles >= 2:
            return None
        if kind in ('DSortValues', 'DSetIndex') and not has_v:
            return None
        if kind == 'DSetIndex':
            op['name'] = 'v'
        if kind == 'DPackPartitions':
            # wide frames also: the default (npartitions=None -> 8)
            op['want'] = rng.choice([1, 2, 3, None]) if wide else rng.randint(1, 3)
        if kind == 'DRepartition':
            if wide and nshuffles > 0:
                # repartitioning what a shuffle of few rows into many partitions left behind runs
                # into Dask's own division asserts (counted as degenerate when met on small frames)
                return None
            op['want'] = rng.randint(1, ddf.npartitions)     # to fewer (or as many) partitions
    elif kind in ('DCx', 'DCxPartitions'):
        if not parts_ok:
            return None
        if valid and not all(hasattr(f[act], 'total_bounds') for f in frames):
            return None          # partitions that are not geo frames: reported by the state comparison
        t0 = rng.randint(0, nrows - 1)
        t1 = rng.randint(t0, nrows - 1) if rng.random() < 0.5 else min(nrows - 1, t0 + rng.randint(0, 3))
        op['box'] = list(U.box_over(t0, t1))
        op['sel'] = U.partitions_meeting(frames, act, op['box']) if valid else []
    elif kind == 'DSetGeometry':
        r = rng.random()
        op['name'] = rng.choice(gcols) if gcols and r < 0.9 else (rng.choice(cols) if cols else 'missing')
    return op


def run_dask_steps(ddf, dops_spec, rep, rng, nsteps, history, layout_meta, nrows=None, kinds=None):
    """apply `nsteps` random Dask operations; returns (observations, executed ops)"""
    res, done = [], []
    frames = []
    o = U.observe_dask(ddf, frames)
    first = o
    nsh = 0
    widest = ddf.npartitions
    for step in range(nsteps):
        if dops_spec is not None:
            if step >= len(dops_spec):
                break
            op = dict(dops_spec[step])
            if op.pop('auto', False):
                # a specified KIND whose parameters come from the live state
                g = gen_dop(rng, op['op'], ddf, frames, nsh, nrows)
                if g is None:
                    break
                g.update({k: v for k, v in op.items() if k != 'op'})
                op = g
        else:
            op = None
            for _ in range(8):
                op = gen_dop(rng, rng.choice(kinds or DOP_KINDS), ddf, frames, nsh, nrows)
                if op is not None:
                    break
            if op is None:
                break
        if op['op'] in SHUFFLES:
            nsh += 1
        done.append(op)
        op.setdefault('nout', 0)
        parent, o_parent = ddf, o
        try:
            ddf = U.apply_dop(ddf, op)
        except Exception as e:
            op['_raised'] = f'{type(e).__name__}: {str(e)[:80]}'
            res.append(None)
            break
        frames = []
        del U.PART_ERRORS[:]
        o = U.observe_dask(ddf, frames)
        if not U.is_bad(o) and op['op'] in SHUFFLES and any(p_ is None for p_ in o[1]) and U.PART_ERRORS \
                and all(t in ('AssertionError', 'IndexError') and '/dask/' in fn for t, fn in U.PART_ERRORS):
            # Dask cannot build some partitions of a repartition to MORE partitions than the shuffle
            # produced (one row / one distinct key; `assert npartitions_input > npartitions`,
            # divisions IndexError): outside the model, the operation is not counted
            done.pop()
            rep.count('dask:degenerate-repartition-skipped')
            break
        if op['op'] in SAME_PARTITIONS and ddf.npartitions != parent.npartitions:
            # Dask (2026.8) mis-reports npartitions of an operation applied on top of
            # .partitions[sel].repartition(npartitions=len(sel)) - with plain pandas frames too:
            # dd.from_pandas(pdf, 4).partitions[[0, 3]].repartition(npartitions=2).rename(columns=..)
            # .npartitions == 4, the partitions beyond the second raise IndexError inside dask.  An
            # operation of this list maps partition to partition; the count is Dask's business
            done.pop()
            rep.count('dask:npartitions-misreported-skipped')
            break
        widest = max(widest, parent.npartitions)
        if not U.is_bad(o) and nsh > 0 and widest > 32 and (o[2] is None or any(p_ is None for p_ in o[1])) \
                and U.LAST_ERRORS and all(t == 'KeyError' and '/dask/' in fn for _w, t, fn in U.LAST_ERRORS) \
                and U.dask_task_shuffle_subset_bug():
            # Dask (2026.8) raises KeyError when a subset of the partitions of a multi-stage task
            # shuffle (> 32 partitions) is computed - reproduced on plain pandas frames at this very
            # moment (dask_task_shuffle_subset_bug): a Dask matter (reported), not a question of
            # the active geometry; the operation is not counted
            done.pop()
            rep.count('dask:wide-task-shuffle-subset-keyerror-skipped')
            break
        if not U.is_bad(o) and op['op'] in SHUFFLES:
            op['nout'] = len(o[1])
        # deriving (and computing) the child must leave the frame it was derived from as it was:
        # its meta always, and for the repo's own methods also every partition and compute()
        if ddf is not parent and not U.is_bad(o_parent):
            if op['op'] in ('DSetGeometry', 'DBuildSindex', 'DCx', 'DCxPartitions', 'DPackPartitions'):
                again = U.observe_dask(parent)
            else:
                again = (U.observe(parent._meta),) + tuple(o_parent[1:])
            rep.evaluations += 1
            if repr(U.pub_dask(again)) == repr(U.pub_dask(o_parent)) and repr(again) != repr(o_parent):
                rep.count('internal-differs-public-agrees:parent-_geometry')
            if repr(U.pub_dask(again)) != repr(U.pub_dask(o_parent)):
                rep.violation('dask-parent-changed:' + op['op'],
                              f'deriving a frame with {op["op"][1:]} (and computing it) changed the frame it was '
                              f'derived from (meta / partitions / compute())',
                              {**(layout_meta or {}), 'dask_ops': [U.strip_private(x) for x in done],
                               'parent_before': o_parent, 'parent_after': again})
        res.append(o if U.is_bad(o) else C.Some(o))
        if U.is_bad(o):
            break
        if o[0][0] and o[0][2] is None:
            # the active column is gone (a GeoDataFrame meta whose .geometry raises): how Dask
            # derives further metas from such a frame depends on its optimizer; the sequence ends
            break
    return first, res, done, ddf, frames


def wrap_dask(first, res):
    return C.Some((first if U.is_bad(first) else C.Some(first), res))


# --------------------------------------------------------------------------
def run(rep):
    """_run; when an operation the run does not expect to raise raises (a constructor, a write, a
    use), the state comparisons collected so far are still reported (they usually name the
    operation), then the exception itself"""
    import traceback
    pending = {}
    try:
        _run(rep, pending)
    except C.ModelUnavailable:
        raise
    except Exception as e:  # noqa: BLE001
        tb = traceback.format_exc()
        for args in list(pending.values()):
            try:
                report_state_mismatches(rep, *args)
            except C.ModelUnavailable:
                raise
            except Exception:  # noqa: BLE001
                pass
        where = [f'{os.path.basename(f.filename)}:{f.lineno} {f.name}' for f in traceback.extract_tb(e.__traceback__)]
        rep.violation('run-raised:' + type(e).__name__,
                      f'an operation of the run raised {type(e).__name__}: {str(e)[:200]}',
                      {'kind': 'raised', 'where': where[-6:], 'traceback': tb[-2500:]})


def _run(rep, pending):
    import dask
    import dask.dataframe as dd
    import pandas as pd
    import spatialpandas.dask  # noqa: F401  registers the Dask types
    from spatialpandas import GeoDataFrame
    from spatialpandas.geometry import GeometryDtype
    from spatialpandas.io import read_parquet_dask
    tier = getattr(rep, 'tier_run', rep.tier)
    rng = rep.rng
    quick = tier == 'quick'
    rep.rule = ('frames of 8 rows with 1-4 geometry columns of different kinds occupying the same region '
                'with different row shifts (so each column selects different rows for a box) plus plain '
                'columns; the active column is usually neither the first nor named "geometry" (controls: '
                'first / named geometry / a plain column named geometry / an empty-string label); '
                '(1) every sequence of <= 2 canonical instances of every row of the operation table on '
                'the fixed layouts, (2) seeded random sequences of <= 6 listed pandas operations, '
                '(3) Dask: from_pandas with 1-4 partitions and <= 5 Dask operations, (4) datasets '
                're-read with read_parquet_dask(geometry=<each column, None, "", a plain column, a '
                'missing label>); after every step type/_geometry/.geometry.name/columns of the result, '
                'of the meta, of each partition and of compute() are compared with the model evaluated '
                'in Coq; (5) uses: cx / build_sindex / sjoin / Dask cx / partition bounds / Hilbert '
                'packing / read_parquet_dask(geometry=g, bounds=box) partition pruning compared with the answer computed from the active column alone; a case is '
                'non-trivial when another geometry column would have given a different answer (uses) '
                'or when the frame has >= 2 geometry columns and the active one is not the first '
                '(state sequences); (6) plain columns of every storage class (numpy blocks and pandas '
                'extension arrays that are not geometries: str, category, nullable, tz-aware, period, '
                'interval, sparse, arrow): per class a table of sequences dropping every geometry / keeping '
                'the active one / set_geometry(<plain>) on pandas, Dask and re-read parquet; (7) wide Dask '
                'frames (32, 33, 34..70 partitions; datasets of 11 and 33 pieces) really shuffled by '
                'sort_values / set_index / pack_partitions, every partition observed in one pass')
    dask.config.set(scheduler='synchronous')
    import time
    marks = [('start', time.time())]
    rep.extra['section_seconds'] = {}

    def mark(name):
        rep.extra['section_seconds'][name] = round(time.time() - marks[-1][1], 1)
        marks.append((name, time.time()))

    def on(section):
        """every section runs; a developer's script may set harness.c20.DEBUG_ONLY = {...} (never set
        by ./check) to look at some sections alone"""
        return DEBUG_ONLY is None or section in DEBUG_ONLY

    p_cases, p_res, p_meta = [], [], []
    pending['pandas'] = ('run_pandas', P_CASE, P_RES, p_cases, p_res, p_meta, 'pandas')

    def add_pandas(cols, ops_spec, target):
        res, done, last = run_pandas_seq(cols, ops_spec)
        p_cases.append(pandas_case(cols, done))
        bad = [r for r in res if U.is_bad(r)]
        p_res.append(C.Some(res))
        p_meta.append({'columns': cols, 'ops': [U.strip_private(o) for o in done], 'target': target,
                       'bad': bad, '_done': done, '_res': res})
        rep.evaluations += 1
        for o in done:
            rep.count('pandas:' + o['op'])
        gn = [n for n, k, _ in cols if k is not None]
        if len(gn) >= 2 and target != gn[0]:
            rep.nontrivial(('pandas', repr(cols), repr([U.strip_private(o) for o in done])))
        return last, done

    # (1) every row of the table: all sequences of <= 2 canonical operations
    fixed = layouts_fixed()
    for li, (cols, target) in enumerate(fixed if on('table') else []):
        base = [{'op': 'OGeoInit'}, {'op': 'OSetGeometry', 'g': target, 'inplace': li % 2 == 0}]
        _r, _d, df0 = run_pandas_seq(cols, [dict(o) for o in base])
        firsts = canonical_ops(df0)
        for op1 in firsts:
            add_pandas(cols, [dict(o) for o in base] + [dict(op1)], target)
        if li < (2 if quick else len(fixed)):
            for op1 in firsts:
                _r, _d, df1 = run_pandas_seq(cols, [dict(o) for o in base] + [dict(op1)])
                if df1 is None:
                    continue
                for op2 in canonical_ops(df1):
                    if U.pop_applicable(df1, op2):
                        add_pandas(cols, [dict(o) for o in base] + [dict(op1), dict(op2)], target)
    # (1b) the plain columns of every storage class (c20_util.flavours): a result without any
    # geometry column is a plain DataFrame WHATEVER holds the columns that are left (extension
    # arrays that are not geometries as well as numpy blocks), a result that keeps the active
    # column is a geo frame on it, set_geometry(<such a column>) is refused
    for f in (U.flavours('pandas') if on('plain-storage') else []):
        for (cols, target), seqs in flavour_sequences(f):
            base = [{'op': 'OGeoInit'}, {'op': 'OSetGeometry', 'g': target, 'inplace': False}]
            for seq in seqs:
                add_pandas(cols, [dict(o) for o in base] + [dict(o) for o in seq], target)
                rep.count('plain-storage:' + f)
    mark('table')
    # results of non-inplace operations are independent objects
    for cols, target in (fixed[:(3 if quick else len(fixed))] if on('independence') else []):
        check_independence(rep, cols, target)
    mark('independence')
    # GeoSeries -> frame (geoseries._constructor_expanddim_from_mgr)
    e_cases, e_res = [], []
    for cols, target in fixed:
        df0 = GeoDataFrame(U.build_dict(cols)).set_geometry(target)
        for g in [n for n, k, _ in cols if k is not None]:
            k = next(k for n, k, _ in cols if n == g)
            for how in ('to_frame', 'reset_index'):
                r = df0[g].to_frame() if how == 'to_frame' else df0[g].rename_axis('ix').reset_index()
                cs = ([('ix', C.Rec('KPlain'))] if how == 'reset_index' else []) + [(g, C.Rec('KGeom', C.Nat(k)))]
                e_cases.append(cs)
                o = U.observe(r)
                e_res.append(o if U.is_bad(o) else C.Some(o))
                rep.evaluations += 1
    bad = public_mismatches(rep, 'expanddim_obs', 'list col', e_cases, e_res, 'obs')
    for i in bad[:3]:
        rep.violation('pandas-state:expanddim', 'GeoSeries.to_frame()/reset_index() result differs from the model',
                      {'columns': e_cases[i], 'impl': e_res[i]})

    # (2) random sequences
    nseq = (700 if quick else 12000) if on('pandas-random') else 0
    uses_every = 9 if quick else 5
    for s in range(nseq):
        cols, target = layout_random(rng, allow_empty_name=(rng.random() < 0.06), scope='pandas')
        ops = [{'op': 'OGeoInit'}]
        if rng.random() < 0.9:
            ops.append({'op': 'OSetGeometry', 'g': target, 'inplace': rng.random() < 0.5})
        res, done, df = run_pandas_seq(cols, ops)
        nsteps = rng.randint(0, 6)
        for _ in range(nsteps):
            if df is None:
                break
            op = None
            for _try in range(6):
                cand = gen_pop(rng, rng.choice(POP_KINDS), df)
                if U.pop_applicable(df, cand):
                    op = cand
                    break
            if op is None:
                break
            done.append(op)
            try:
                df = U.apply_pop(df, op)
            except Exception as e:
                op['_raised'] = f'{type(e).__name__}: {str(e)[:80]}'
                res.append(None)
                df = None
                break
            o = U.observe(df)
            res.append(o if U.is_bad(o) else C.Some(o))
        p_cases.append(pandas_case(cols, done))
        p_res.append(C.Some(res))
        p_meta.append({'columns': cols, 'ops': [U.strip_private(o) for o in done], 'target': target,
                       'bad': [r for r in res if U.is_bad(r)], '_done': done, '_res': res})
        rep.evaluations += 1
        for o in done:
            rep.count('pandas:' + o['op'])
        gn = [n for n, k, _ in cols if k is not None]
        if len(gn) >= 2 and target != gn[0]:
            rep.nontrivial(('pandas', repr(cols), repr([U.strip_private(o) for o in done])))
        if s < 4:
            rep.sample({'columns': cols, 'ops': [U.strip_private(o) for o in done], 'observed': res})
        # uses on the final frame when it is a geo frame with valid geometry and all rows distinct
        if df is not None and s % uses_every == 0 and isinstance(df, GeoDataFrame) \
                and U.active(df) is not None and len(df) > 0:
            check_uses_pandas(rep, df, cols, done)

    mark('pandas-random')
    report_state_mismatches(rep, *pending.pop('pandas'))
    mark('pandas-coq')

    # sjoin on the active columns of both frames
    nsj = (12 if quick else 150) if on('sjoin') else 0
    for s in range(nsj):
        lcols, ltarget = layout_random(rng)
        rcols, rtarget = layout_random(rng)
        # the library joins points (left) with points / polygons (right): the active columns get
        # these kinds, the other columns keep theirs
        lcols = [(n, 0 if n == ltarget else (k if k != 0 else 5), sh) if k is not None else (n, k, sh)
                 for n, k, sh in lcols]
        rk = rng.choice([0, 5, 6])
        rcols = [(n, rk if n == rtarget else k, sh) if k is not None else (n, k, sh) for n, k, sh in rcols]
        left = GeoDataFrame(U.build_dict(lcols)).set_geometry(ltarget)
        right = GeoDataFrame(U.build_dict(rcols)).set_geometry(rtarget).iloc[: rng.randint(1, U.NROWS)]
        meta = {'left_columns': lcols, 'right_columns': rcols, 'left_active': ltarget,
                'right_active': rtarget, 'left_geoms': [n for n, k, _ in lcols if k is not None],
                'right_rows': len(right)}
        check_sjoin(rep, left, right, meta, dask_parts=None if s % 3 else rng.randint(1, 3))

    mark('sjoin')
    # (3) Dask sequences
    d_cases, d_res, d_meta = [], [], []
    pending['dask'] = ('run_dask', D_CASE, D_RES, d_cases, d_res, d_meta, 'dask')

    def add_dask(cols, target, want, dops_spec=None, nsteps=None, nrows=None, uses=False, kinds=None,
                 sample=False):
        """GeoDataFrame(cols of nrows rows).set_geometry(target) -> from_pandas(want partitions) ->
        the given / random Dask operations, observed after every step; one model case"""
        pops = [{'op': 'OGeoInit'}, {'op': 'OSetGeometry', 'g': target, 'inplace': False}]
        _res, pdone, df = run_pandas_seq(cols, pops, nrows=nrows)
        ddf = dd.from_pandas(df, npartitions=want)
        lm = {'kind': 'dask', 'columns': cols, 'pandas_ops': [U.strip_private(o) for o in pdone],
              'npartitions': ddf.npartitions, 'nrows': nrows or U.NROWS}
        first, res, done, last, frames = run_dask_steps(
            ddf, dops_spec, rep, rng, nsteps if nsteps is not None else len(dops_spec), pdone, lm,
            nrows=nrows, kinds=kinds)
        d_cases.append((U.coq_cols(cols), [U.pop_coq(o) for o in pdone], C.Nat(ddf.npartitions),
                        [U.dop_coq(o) for o in done]))
        d_res.append(wrap_dask(first, res))
        d_meta.append({'columns': cols, 'pandas_ops': [U.strip_private(o) for o in pdone],
                       'npartitions': ddf.npartitions, 'nrows': nrows or U.NROWS,
                       'dask_ops': [U.strip_private(o) for o in done],
                       'target': target, '_done': done, '_res': res, '_first': first})
        rep.evaluations += 1
        for o in done:
            rep.count('dask:' + o['op'])
        rep.count('dask-npartitions:' + ('1-4' if ddf.npartitions <= 4 else '5-32' if ddf.npartitions <= 32
                                         else '33+'))
        gn = [n for n, k, _ in cols if k is not None]
        if len(gn) >= 2 and target != gn[0]:
            rep.nontrivial(('dask', repr(cols), ddf.npartitions, repr([U.strip_private(o) for o in done])))
        if sample:
            rep.sample({'columns': cols, 'npartitions': ddf.npartitions,
                        'dask_ops': [U.strip_private(o) for o in done], 'observed': res})
        # uses on the final Dask frame when meta and partitions agree on a valid column
        if uses and frames and all(f is not None for f in frames) and \
                isinstance(last, spatialpandas.dask.DaskGeoDataFrame) and U.active(last._meta) is not None \
                and all(isinstance(f, GeoDataFrame) and U.active(f) == U.active(last._meta) for f in frames) \
                and sum(len(f) for f in frames) > 0:
            gl = [str(c) for c, dt in zip(last._meta.columns, last._meta.dtypes) if isinstance(dt, GeometryDtype)]
            check_uses_dask(rep, last, frames,
                            {'columns': cols, 'target': target, 'npartitions': ddf.npartitions,
                             'nrows': nrows or U.NROWS,
                             'dask_ops': [U.strip_private(o) for o in done], 'geoms': gl})
        return last

    ndask = (70 if quick else 1500) if on('dask-random') else 0
    for s in range(ndask):
        if s < len(fixed):
            cols, target = fixed[s]
        else:
            cols, target = layout_random(rng, scope='dask')
        add_dask(cols, target, rng.randint(1, 4), None, rng.randint(1, 5), uses=(s % 3 == 0), sample=(s < 3))
    mark('dask-random')
    # (3b) plain columns of every storage class Dask can carry, through Dask
    dfl = U.flavours('dask')
    full = set(dfl if not quick else rng.sample(dfl, 3))
    for f in (dfl if on('plain-storage') else []):
        cols, target = [('a', 0, 0), (f, None, 1), ('b', 2, 3), ('v', None, 0)], 'b'
        seqs = flavour_dask_sequences(f)
        for seq in (seqs if f in full else seqs[:1]):
            add_dask(cols, target, rng.randint(1, 4), [dict(o) for o in seq])
            rep.count('plain-storage-dask:' + f)
    mark('dask-plain-storage')
    # (3c) WIDE frames: partition counts on both sides of the thresholds of the Dask path (32 / 33:
    # the fan-out of the task shuffle, above which it runs in several stages and above which other
    # shuffle methods might be chosen; 10 / 11) and beyond; rows = partitions x {1, 2, 3}, the key 'v'
    # an unsorted permutation, so sort_values / set_index / pack_partitions really shuffle
    if quick:
        wide_counts = [(33, 'full'), (32, 'short'), (rng.choice([34, 40, 47, 64, 65, 70]), 'short')]
    else:
        wide_counts = [(k, 'full') for k in (10, 11, 31, 32, 33, 34, 40, 64, 65, 100)]
    shuffle_heavy = ['DSortValues', 'DSetIndex', 'DPackPartitions', 'DRepartition'] * 3 + DOP_KINDS
    for wi, (k, how) in enumerate(wide_counts if on('wide') else []):
        nrows = k * rng.choice([1, 2, 3])
        cols, target = fixed[0] if wi == 0 else layout_random(rng, scope='dask')
        gn = [n for n, kk, _ in cols if kk is not None]
        other = next(g for g in gn if g != target)
        specs = [[{'op': 'DSortValues', 'auto': True}],
                 [{'op': 'DSetIndex', 'auto': True}]]
        if how == 'full':
            specs += [[{'op': 'DPackPartitions', 'auto': True, 'want': rng.choice([2, None])}],
                      [{'op': 'DSetGeometry', 'name': other}, {'op': 'DSortValues', 'auto': True}],
                      [{'op': 'DMapIdentity'}]]
            if not quick:
                specs += [[{'op': 'DPackPartitions', 'auto': True, 'want': None}],
                          [{'op': 'DRepartition', 'auto': True}, {'op': 'DSetIndex', 'auto': True}]]
        for si, spec in enumerate(specs):
            add_dask(cols, target, k, spec, nrows=nrows,
                     uses=((si == 0 and (wi != 1 or not quick)) or spec[0]['op'] == 'DMapIdentity'))
        for _ in range((1 if wi != 1 else 0) if quick else 3):
            add_dask(cols, target, k, None, rng.randint(1, 3), nrows=nrows, kinds=shuffle_heavy)
    rep.extra['dask_task_shuffle_subset_keyerror_on_plain_pandas'] = U.dask_task_shuffle_subset_bug()
    mark('dask-wide')
    report_state_mismatches(rep, *pending.pop('dask'))
    mark('dask-coq')

    # (4) parquet: read_parquet_dask(geometry=<each column>)
    q_cases, q_res, q_meta = [], [], []
    pending['parquet'] = ('run_read_parquet_dask', Q_CASE, D_RES, q_cases, q_res, q_meta, 'parquet')
    tmp = tempfile.mkdtemp(prefix='sp_c20_')
    try:
        nds = (4 if quick else 40) if on('parquet') else 0
        # after the ordinary datasets: WIDE ones (11 / 33+ pieces, re-read and then really shuffled)
        # and one per plain-column storage parquet can carry (re-read, then every geometry dropped)
        pfl = U.flavours('parquet')
        extra = [('wide', k) for k in ([11, 33] if quick else [10, 11, 33, 40])] + \
                [('storage', f) for f in (rng.sample([x for x in pfl if U.is_extension_flavour(x)], 2) if quick else pfl)]
        for s in range(nds + (len(extra) if on('parquet') or on('wide') else 0)):
            special = extra[s - nds] if s >= nds else None
            nrows = U.NROWS
            if special and special[0] == 'wide':
                cols, target = fixed[0]
                nrows = special[1] * 2
                want_parts = special[1]
            elif special:
                cols, target = [('a', 0, 0), (special[1], None, 1), ('b', 2, 3), ('v', None, 0)], 'b'
                want_parts = rng.randint(1, 4)
            else:
                cols, target = fixed[s] if s < len(fixed) else layout_random(rng)
                want_parts = rng.randint(1, 4)
            df = GeoDataFrame(U.build_dict(cols, nrows)).set_geometry(target)
            ddf = dd.from_pandas(df, npartitions=want_parts)
            path = os.path.join(tmp, f'ds{s}.parq')
            ddf.to_parquet(path)
            gnames = [n for n, k, _ in cols if k is not None]
            if special:
                # read with the non-first column active, then the given operations
                plain = [n for n, k, _ in cols if k is None]
                spec = [{'op': 'DSortValues', 'auto': True}] if special[0] == 'wide' else \
                    [{'op': 'DSubset', 'names': plain}, {'op': 'DMapIdentity'}]
                r = read_parquet_dask(path, geometry=target)
                first, res, done, last, frames = run_dask_steps(
                    r, spec, rep, rng, len(spec), [],
                    {'kind': 'parquet', 'columns': cols, 'geometry': target, 'npartitions': r.npartitions,
                     'nrows': nrows}, nrows=nrows)
                q_cases.append((U.coq_cols(cols), C.Some(target), C.Nat(r.npartitions), [U.dop_coq(o) for o in done]))
                q_res.append(wrap_dask(first, res))
                q_meta.append({'columns': cols, 'geometry': target, 'npartitions': r.npartitions, 'nrows': nrows,
                               'dask_ops': [U.strip_private(o) for o in done], '_done': done, '_res': res,
                               '_first': first})
                rep.evaluations += 1
                rep.count('parquet:read_parquet_dask:' + special[0])
                rep.nontrivial(('parquet', special, r.npartitions, repr([U.strip_private(o) for o in done])))
                continue
            for g in gnames + [None, '', 'v', 'missing']:
                try:
                    r = read_parquet_dask(path, geometry=g)
                except Exception as e:
                    r = None
                    raised = f'{type(e).__name__}: {str(e)[:80]}'
                if r is None:
                    q_cases.append((U.coq_cols(cols), None if g is None else C.Some(g), C.Nat(ddf.npartitions), []))
                    q_res.append(C.Some((None, [])))
                    q_meta.append({'columns': cols, 'geometry': g, 'npartitions': ddf.npartitions,
                                   'dask_ops': [], 'raised': raised, '_done': [], '_res': [], '_first': None})
                    rep.evaluations += 1
                    continue
                first, res, done, last, frames = run_dask_steps(
                    r, None, rep, rng, rng.randint(0, 2), [],
                    {'kind': 'parquet', 'columns': cols, 'geometry': g, 'npartitions': r.npartitions})
                q_cases.append((U.coq_cols(cols), None if g is None else C.Some(g), C.Nat(r.npartitions),
                                [U.dop_coq(o) for o in done]))
                q_res.append(wrap_dask(first, res))
                q_meta.append({'columns': cols, 'geometry': g, 'npartitions': r.npartitions,
                               'dask_ops': [U.strip_private(o) for o in done], '_done': done, '_res': res,
                               '_first': first})
                rep.evaluations += 1
                rep.count('parquet:read_parquet_dask')
                if g in gnames and g != gnames[0]:
                    rep.nontrivial(('parquet', repr(cols), g, r.npartitions, repr([U.strip_private(o) for o in done])))
                    if frames and all(f is not None for f in frames) and U.active(last._meta) is not None \
                            and isinstance(last, spatialpandas.dask.DaskGeoDataFrame) \
                            and all(isinstance(f, GeoDataFrame) and U.active(f) == U.active(last._meta) for f in frames):
                        gl = [str(c) for c, dt in zip(last._meta.columns, last._meta.dtypes)
                              if isinstance(dt, GeometryDtype)]
                        check_uses_dask(rep, last, frames,
                                        {'columns': cols, 'geometry': g, 'npartitions': r.npartitions,
                                         'dask_ops': [U.strip_private(o) for o in done], 'geoms': gl})
            # concrete / re-used partitions: deriving and computing a child leaves the parent alone
            if len(gnames) >= 2 and s < (3 if quick else 20):
                check_provenances(rep, cols, target, tmp, s)
            # read_parquet_dask(geometry=g, bounds=box) prunes the partitions by the recorded
            # extents of the ACTIVE column g
            if len(gnames) >= 2:
                check_parquet_bounds(rep, df, cols, gnames, tmp, s)
            # pack_partitions_to_parquet keys on the active column
            if s < (2 if quick else 12):
                out = os.path.join(tmp, f'packed{s}.parq')
                back = ddf.pack_partitions_to_parquet(out, npartitions=2, p=6)
                got = back.compute(scheduler='synchronous')
                sname = df[target]
                want_h = sname.hilbert_distance(total_bounds=sname.total_bounds, p=6)
                wantp = sorted(zip(df['v'].tolist(), [int(h) for h in want_h.tolist()]))
                gotp = sorted(zip(got['v'].tolist(), [int(h) for h in got.index.tolist()]))
                rep.evaluations += 1
                rep.nontrivial(('pack-to-parquet', repr(cols), target))
                if gotp != wantp:
                    rep.violation('uses:pack-to-parquet',
                                  f'pack_partitions_to_parquet did not key on the active column {target!r}',
                                  {'columns': cols, 'target': target, 'got': gotp, 'want': wantp})
    finally:
        shutil.rmtree(tmp, ignore_errors=True)
    mark('parquet')
    report_state_mismatches(rep, *pending.pop('parquet'))

    corpus(rep)
    mark('parquet-coq+corpus')
    rep.extra['dask_compute_assertions'] = U.COMPUTE_ASSERTIONS[0]


def corpus(rep):
    """always-run witnesses of repaired defects"""
    import dask.dataframe as dd
    import pandas as pd
    from spatialpandas import GeoDataFrame
    from spatialpandas.geometry import PointArray
    n = 8
    df = GeoDataFrame({'a': PointArray([[i, i] for i in range(n)]), 'v': np.arange(n),
                       'b': PointArray([[100 + i, 100 + i] for i in range(n)])}).set_geometry('b')
    ddf = dd.from_pandas(df, npartitions=2)
    c = dd.concat([ddf, ddf])
    rows = sorted(c.cx[100:103, 100:103].compute(scheduler='synchronous').v.tolist())
    rep.evaluations += 1
    rep.nontrivial('corpus:dask-concat-cx')
    if U.active(c._meta) != 'b' or c.geometry.name != 'b' or rows != [0, 0, 1, 1, 2, 2, 3, 3]:
        rep.violation('dask-concat:meta-loses-active',
                      'dd.concat of frames agreeing on the active column: meta lost it / cx selected the '
                      'partitions by another column',
                      {'meta_geometry': U.active(c._meta), 'rows': rows, 'want_rows': [0, 0, 1, 1, 2, 2, 3, 3],
                       'repro': "df=GeoDataFrame({'a':pts(i,i),'v':range(8),'b':pts(100+i,100+i)}).set_geometry('b'); "
                                "c=dd.concat([dd.from_pandas(df,2)]*2); c.cx[100:103,100:103].compute()"})
    # packing an already packed frame by another column
    df2 = GeoDataFrame({'a': PointArray([[i, i] for i in range(n)]), 'v': np.arange(n),
                        'b': PointArray([[(i + 3) % n, (i + 3) % n] for i in range(n)])})
    p1 = dd.from_pandas(df2, npartitions=2).pack_partitions(npartitions=2, p=4)
    p2 = p1.set_geometry('b').pack_partitions(npartitions=2, p=4).compute(scheduler='synchronous')
    want_h = df2['b'].hilbert_distance(total_bounds=df2['b'].total_bounds, p=4)
    wantp = sorted(zip(df2['v'].tolist(), [int(h) for h in want_h.tolist()]))
    gotp = sorted(zip(p2['v'].tolist(), [int(h) for h in p2.index.tolist()]))
    rep.evaluations += 1
    rep.nontrivial('corpus:repack')
    if gotp != wantp or list(p2.columns) != ['a', 'v', 'b']:
        rep.violation('uses:repack', 'pack_partitions of an already packed frame (index named hilbert_distance) '
                                     'after set_geometry kept the old Hilbert key',
                      {'got': gotp, 'want': wantp, 'columns': [str(c) for c in p2.columns],
                       'repro': "p1=dd.from_pandas(df,2).pack_partitions(npartitions=2,p=4); "
                                "p1.set_geometry('b').pack_partitions(npartitions=2,p=4).compute().index"})
    # a real shuffle (unsorted key) keeps geo partitions with the active column
    dfs = GeoDataFrame({'a': PointArray([[i, i] for i in range(n)]), 'v': [3, 1, 4, 1, 5, 9, 2, 6],
                        'b': PointArray([[9 - i, i] for i in range(n)])}).set_geometry('b')
    for opname, fn in (('DSortValues', lambda d: d.sort_values('v')), ('DSetIndex', lambda d: d.set_index('v'))):
        r = fn(dd.from_pandas(dfs, npartitions=2))
        import dask
        parts = dask.compute(*r.to_delayed(), scheduler='synchronous')
        rep.evaluations += 1
        rep.nontrivial('corpus:shuffle:' + opname)
        got = [(type(p_).__name__, U.active(p_)) for p_ in parts]
        cxrows = None
        if opname == 'DSortValues':
            try:
                cxrows = sorted(r.cx[5.5:8.5, 0.5:3.5].compute(scheduler='synchronous')['v'].tolist())
            except Exception as e:  # noqa: BLE001
                cxrows = f'{type(e).__name__}: {str(e)[:80]}'
        if any(g != ('GeoDataFrame', 'b') for g in got) or U.active(r._meta) != 'b' or \
                (opname == 'DSortValues' and cxrows != [1, 1, 4]):
            rep.violation('dask-state:' + opname,
                          f'{opname[1:]} with a real shuffle: partitions are not GeoDataFrames with the active column',
                          {'partitions': got, 'meta': U.active(r._meta), 'cx_rows': cxrows,
                           'repro': "dd.from_pandas(GeoDataFrame({'a':..,'v':[3,1,4,1,5,9,2,6],'b':..}).set_geometry('b'), 2)"
                                    ".sort_values('v') -> partitions"})
    m = ddf.map_partitions(lambda d: d)
    rep.evaluations += 1
    if U.active(m._meta) != 'b':
        rep.violation('dask-map-partitions:meta-loses-active', 'map_partitions(identity) meta lost the active column',
                      {'meta_geometry': U.active(m._meta)})
    r = pd.concat([df, df])
    rep.evaluations += 1
    if not isinstance(r, GeoDataFrame) or U.active(r) != 'b' or sorted(r.cx[100:103, 100:103].v.tolist()) != rows:
        rep.violation('pandas-state:OConcat', 'pd.concat of agreeing frames lost the active column',
                      {'geometry': U.active(r)})


def report_state_mismatches(rep, fn, case_ty, res_ty, cases, ress, metas, label):
    """compare with the model; one violation per (label, first differing operation)"""
    # an object of an unexpected type is a violation by itself
    for m in metas:
        for b in m.get('bad', []) or []:
            rep.violation(f'{label}-state:badtype', f'result of unexpected type {b[1]}',
                          {k: v for k, v in m.items() if not k.startswith('_')})
    bad = public_mismatches(rep, fn, case_ty, cases, ress, 'pandas' if label == 'pandas' else 'dask')
    seen = set()
    for i in bad[:40]:          # (locating the step costs Coq runs; 40 cases name the classes)
        m = metas[i]
        done = m['_done']
        opname = 'initial'
        step = None
        if label == 'pandas' and done:
            cols = m['columns']
            step = first_bad_step(fn, case_ty, lambda d: pandas_case(cols, d), done, m['_res'])
            opname = done[step]['op']
        elif done:
            # locate the first differing Dask step by prefixes
            c = cases[i]
            pc, pr = [], []
            first = m['_first']
            ops_coq = c[3]
            for k in range(0, len(ops_coq) + 1):
                pc.append((c[0], c[1], c[2], ops_coq[:k]))
                pr.append(pub_dask_res(wrap_dask(first, m['_res'][:k])) if first is not None
                          else C.Some((None, [])))
            b2 = C.coq_mismatches(IMPORTS, fn + '_pub', case_ty, D_RES_PUB, pc, pr)
            step = (b2[0] - 1) if b2 else len(done) - 1
            opname = 'initial' if step < 0 else done[min(step, len(done) - 1)]['op']
        sig = f'{label}-state:{opname}'
        if sig in seen:
            continue
        seen.add(sig)
        if len(seen) > 12:
            break
        try:
            model = C.coq_eval(IMPORTS, f'{fn} {C.coq(cases[i])}')
        except Exception as e:  # pragma: no cover
            model = f'<{e}>'
        rep.violation(sig, f'{label}: type / .geometry / columns of the result after {opname} '
                           f'(step {step}) differs from the model',
                      {**{k: v for k, v in m.items() if not k.startswith('_')}, 'step': step,
                       'impl': ress[i], 'model': model, 'kind': label,
                       'raised': [o.get('_raised') for o in done]})


# --------------------------------------------------------------------------
def replay(rep, rp):
    """re-run a recorded sequence on the real library and compare with the model"""
    import dask
    import dask.dataframe as dd
    import spatialpandas.dask  # noqa: F401
    from spatialpandas.io import read_parquet_dask
    dask.config.set(scheduler='synchronous')
    kind = rp.get('kind')
    cols = [tuple(c) for c in rp.get('columns', [])]
    if kind == 'pandas':
        res, done, _ = run_pandas_seq(cols, [dict(o) for o in rp['ops']])
        case = pandas_case(cols, done)
        bad = public_mismatches(rep, 'run_pandas', P_CASE, [case], [C.Some(res)], 'pandas')
        print('impl :', res)
        print('model:', C.coq_eval(IMPORTS, f'run_pandas {C.coq(case)}'))
        return not bad and not any(U.is_bad(r) for r in res)
    if kind in ('dask', 'parquet'):
        tmp = tempfile.mkdtemp(prefix='sp_c20_')
        try:
            from spatialpandas import GeoDataFrame
            nrows = rp.get('nrows') or U.NROWS
            if kind == 'dask':
                _r, pdone, df = run_pandas_seq(cols, [dict(o) for o in rp['pandas_ops']], nrows=nrows)
                ddf = dd.from_pandas(df, npartitions=rp['npartitions'])
                head = (U.coq_cols(cols), [U.pop_coq(o) for o in pdone], C.Nat(ddf.npartitions))
                fn, cty = 'run_dask', D_CASE
            else:
                df = GeoDataFrame(U.build_dict(cols, nrows))
                path = os.path.join(tmp, 'ds.parq')
                dd.from_pandas(df, npartitions=rp['npartitions']).to_parquet(path)
                g = rp['geometry']
                try:
                    ddf = read_parquet_dask(path, geometry=g)
                except Exception as e:
                    print('impl raised', type(e).__name__, e)
                    case = (U.coq_cols(cols), None if g is None else C.Some(g), C.Nat(rp['npartitions']), [])
                    bad = public_mismatches(rep, 'run_read_parquet_dask', Q_CASE, [case],
                                            [C.Some((None, []))], 'dask')
                    return not bad
                head = (U.coq_cols(cols), None if g is None else C.Some(g), C.Nat(ddf.npartitions))
                fn, cty = 'run_read_parquet_dask', Q_CASE
            first, res, done, _last, _frames = run_dask_steps(ddf, [dict(o) for o in rp['dask_ops']], rep,
                                                              rep.rng, len(rp['dask_ops']), [], None, nrows=nrows)
            case = head + ([U.dop_coq(o) for o in done],)
            bad = public_mismatches(rep, fn, cty, [case], [wrap_dask(first, res)], 'dask')
            print('impl :', first, res)
            print('model:', C.coq_eval(IMPORTS, f'{fn} {C.coq(case)}'))
            for v in rep.violations:
                print('still:', v['signature'], v['what'])
            return not bad and not rep.violations
        finally:
            shutil.rmtree(tmp, ignore_errors=True)
    if kind == 'independence':
        r2 = C.Report(rep.pid, rep.tier, rep.seed)
        check_independence(r2, cols, rp['target'])
        for v in r2.violations:
            print('still:', v['signature'], v['what'])
        return not r2.violations
    if kind == 'provenance':
        tmp = tempfile.mkdtemp(prefix='sp_c20_')
        try:
            r2 = C.Report(rep.pid, rep.tier, rep.seed)
            check_provenances(r2, cols, rp['target'], tmp, 0)
            for v in r2.violations:
                print('still:', v['signature'], v['what'])
            return not r2.violations
        finally:
            shutil.rmtree(tmp, ignore_errors=True)
    if kind == 'parquet-bounds':
        from spatialpandas import GeoDataFrame
        tmp = tempfile.mkdtemp(prefix='sp_c20_')
        try:
            r2 = C.Report(rep.pid, rep.tier, rep.seed)
            df = GeoDataFrame(U.build_dict(cols))
            check_parquet_bounds(r2, df, cols, [n for n, k, _ in cols if k is not None], tmp, 0)
            for v in r2.violations:
                print('still:', v['signature'], v['what'], v['replay'].get('got_rows'), v['replay'].get('want_rows'))
            return not r2.violations
        finally:
            shutil.rmtree(tmp, ignore_errors=True)
    if kind == 'raised':
        r2 = C.Report(rep.pid, rep.tier, rep.seed)
        r2.tier_run = 'quick'
        run(r2)
        for v in r2.violations:
            print('still:', v['signature'], v['what'])
        return not r2.violations
    # uses / corpus violations: re-run the corpus and the uses checks of a fresh run
    r2 = C.Report(rep.pid, rep.tier, rep.seed)
    corpus(r2)
    for v in r2.violations:
        print('still:', v['signature'], v['what'])
    return not r2.violations
