"""C16 -- derived arrays hold the same elements and behave like fresh ones.

Stateful correspondence: random derivation histories (<= 8 steps) over all seven
kinds, starting from arrays with missing and empty elements.  After every step

  * the real buffers are exported and, inside the Coq kernel, asserted well formed
    (wf + a missing slot spans no values), decoded (Model/Derive.v decode_nested /
    decode_point) and compared with the element list the model obtains by running
    the same history on the source's element list (Model/Derive.v run_step, a
    transcription of GeometryArray.__getitem__ / take / _concat_same_type / copy);
    an exception must be of the class the model says; arr[i] probes likewise;
  * Python side (metamorphic, bitwise, NaN-aware): every derived quantity equals
    that of a fresh array built from the selected elements and the same selection
    of the source's quantity; elements, iteration, len, == likewise.

Failing histories are shrunk (steps dropped, source elements dropped).
"""
import copy
import itertools
import os
import time

import numpy as np

from . import common as C
from . import geomgen as G
from . import c16_util as U
from . import c16_mixed as M

ANCHOR_FILES = ['spatialpandas/geometry/base.py', 'spatialpandas/geometry/baselist.py',
                'spatialpandas/geometry/basefixed.py']
TRUSTED = ['pyarrow slice/take/concat_arrays, numpy arange/nonzero/basic slicing and pandas '
           'pd.array dtype inference are given their list meaning in Model/Derive.v (not '
           'modelled operationally); their results are checked on every run through the '
           'exported buffers',
           'pyarrow buffers() of the array obtained through the public __arrow_array__ protocol '
           '(harness/c16_util.py export); when the protocol or the list / fixed-size-binary layout is '
           'not there the kernel check of that history is skipped and counted, not reported',
           'derived-vs-fresh comparison of length/area/intersects/hilbert_distance is a '
           'Python-side metamorphic check (those kernels are modelled by their own properties)',
           'multi-source family (harness/c16_mixed.py): which container pandas returns for pieces of '
           'different dtypes is not predicted; a geometry scalar is read by putting it into a '
           'one-element array of its own class (a point: of its own subtype, inferred by the '
           'constructor) and reading that through the arrow protocol; numpy casts define "converted by '
           'value" when scalars are re-wrapped in an array of another subtype']

IMPORTS = 'Model.Num Model.Arrow Model.Derive'      # (the multi-source family: + Model.DeriveMulti)
CASE_TY = 'list (option elem) * repr * list obs'
RES_TY = 'list Z'
FN = 'check_case'

EXTRAS_P = 0.12          # share of the steps after which the derived-vs-fresh extras run

CODES = {1: 'error-class', 2: 'not-wf', 3: 'null-spans-values', 4: 'decode-differs',
         5: 'isna-differs', 8: 'int-probe-differs'}


# --------------------------------------------------------------------------
# one history on the real library
# --------------------------------------------------------------------------
class Outcome:
    def __init__(self):
        self.case = None          # Gallina case
        self.expected = None      # list of zeros
        self.py_fail = None       # (signature, what, step index)
        self.trace = []           # per step: 'ok' / exception class name
        self.notes = {}
        self.aei_hit = None       # arr[i] raised on an element with no coordinates at all


def _probe_ints(rng, n):
    c = {0, -1, n - 1, -n, n, -n - 1}
    c.add(rng.randint(-n - 2, n + 1))
    return sorted(c)


def run_history(kind, subtype, els, steps, rng, quant=True, probes=True, extras=None):
    """apply the history to the real array; build the Coq case; do the Python-side checks"""
    out = Outcome()
    try:
        arr = G.make_array(kind, els, subtype)
    except Exception as e:
        out.py_fail = ('construct', f'constructor raised {type(e).__name__}: {e}', -1)
        return out
    src_q = None
    orig = list(range(len(els)))
    obs = []
    rep0 = U.export(kind, arr)
    coq_ok = rep0 is not None       # else: python-side checks only (counted, not a violation)
    page_sizes = set()
    for k, st in enumerate(steps):
        if st.get('sindex'):
            page_sizes.add(int(st['sindex']))
        try:
            new = U.apply_step(kind, arr, st, out.notes)
            err = None
        except Exception as e:          # noqa: BLE001 -- every class is data here
            new, err = None, e
        if err is not None:
            term = U.exc_term(err)
            out.trace.append(type(err).__name__)
            if term is None:
                out.py_fail = (f'unexpected-exception:{type(err).__name__}',
                               f'{kind} step {st} raised {type(err).__name__}: {str(err)[:200]}', k)
                break
            try:
                U.track(orig, st)
                valid = True
            except Exception:
                valid = False
            if valid and out.py_fail is None:
                out.py_fail = (f'rejected-valid:{st["op"]}',
                               f'{kind}: a request Python list semantics accept raised '
                               f'{type(err).__name__}: {str(err)[:200]}', k)
            obs.append((U.step_term(st), term, []))
            continue
        out.trace.append('ok')
        if type(new) is not type(arr):
            out.py_fail = ('type-changed', f'{kind} step {st} returned {type(new).__name__}', k)
            break
        try:
            orig2 = U.track(orig, st)
        except Exception:
            orig2 = None
        arr = new
        rp = U.export(kind, arr)
        if rp is None:
            coq_ok = False
        pr = []
        if probes and coq_ok and (k == len(steps) - 1 or rng.random() < 0.25):
            n = len(arr)
            for i in _probe_ints(rng, n):
                try:
                    sc = arr[i]
                    py = U.scalar_to_py(kind, arr, sc)
                    if sc is not None and py is None:
                        continue                      # no arrow protocol
                    pr.append((int(i), C.Rec('Ok', U.elem_term(kind, py))))
                except Exception as e:  # noqa: BLE001
                    if orig2 is not None and -n <= i < n and orig2[i] is not None \
                            and U.is_aei(kind, els[orig2[i]]) and not isinstance(e, IndexError):
                        out.aei_hit = (f'arr[{i}]', type(e).__name__, str(e)[:120])
                        continue
                    t = U.exc_term(e)
                    pr.append((int(i), t if t is not None else C.Rec('TypeError')))
        if coq_ok:
            obs.append((U.step_term(st), C.Rec('Ok', rp), pr))
        if orig2 is None:
            if out.py_fail is None:
                out.py_fail = (f'accepted-invalid:{st["op"]}',
                               f'{kind}: a request Python list semantics reject returned an '
                               f'array of length {len(arr)}: {st}', k)
            break
        orig = orig2
        if out.notes.pop('mutated_now', False) and out.py_fail is None:
            out.py_fail = ('index-argument-mutated',
                           f'{kind}: the index array passed to {st["op"]} ({st.get("form")}) was '
                           f'modified by the call', k)
        if out.py_fail is None:
            kw = dict(wrap=quant and rng.random() < 0.12, page_sizes=page_sizes,
                      keys=[U.CX_KEYS[0]] + rng.sample(U.CX_KEYS[1:], 3),
                      query_own=(k == len(steps) - 1 or rng.random() < 0.3),
                      extra_rng=rng if quant and (extras or (extras is None and rng.random() < EXTRAS_P))
                      else None)
            try:
                f = python_side(kind, subtype, els, arr, orig, quant,
                                lambda: _src_q(kind, els, subtype), out, **kw)
            except Exception:  # noqa: BLE001
                if not M.NOJIT:
                    raise
                # NUMBA_DISABLE_JIT (line-coverage runs): the un-jitted kernels are not the code
                # under test (numpy uint32 scalar arithmetic wraps where numba's does not)
                NOJIT_SKIPPED[0] += 1
                f = None
            if f is not None:
                out.py_fail = (f[0], f'{kind} after step {k} {st}: {f[1]}', k)
    if coq_ok:
        out.case = (U.elems_term(kind, els), rep0, obs)
        out.expected = [0] * (1 + len(obs))
    return out


_SRC_CACHE = {}
NOJIT_SKIPPED = [0]


def _src_q(kind, els, subtype):
    key = (kind, subtype, repr(els))
    if key not in _SRC_CACHE:
        if len(_SRC_CACHE) > 64:
            _SRC_CACHE.clear()
        _SRC_CACHE[key] = U.quantities(kind, G.make_array(kind, els, subtype))
    return _SRC_CACHE[key]


def python_side(kind, subtype, els, arr, orig, quant, src_q, out=None, wrap=False,
                page_sizes=(), query_own=False, keys=None, extra_rng=None):
    """None when everything agrees, else (signature, what)"""
    want = [None if o is None else els[o] for o in orig]
    aei = any(U.is_aei(kind, e) for e in want)
    if len(arr) != len(want):
        return ('length-differs', f'len {len(arr)} instead of {len(want)}')
    got = U.array_to_py(kind, arr)
    for i, (a, b) in enumerate(zip(got if got is not None else [], want)):
        if not U.same_elem(a, b):
            return ('elements-differ', f'element {i} is {a!r}, expected {b!r}')
    try:
        it = U.scalars_to_py(kind, arr, list(arr))
    except Exception as e:  # noqa: BLE001
        if aei and out is not None:
            out.aei_hit = ('list(arr)', type(e).__name__, str(e)[:120])
            it = None
        else:
            return (f'iteration-raises:{type(e).__name__}', f'list(arr) raised {type(e).__name__}: {e}')
    if it is not None and (len(it) != len(want)
                           or not all(U.same_elem(a, b) for a, b in zip(it, want))):
        return ('iteration-differs', f'list(arr) gives {it!r}, expected {want!r}')
    fresh = G.make_array(kind, want, subtype)
    f = U.cx_compare(kind, arr, fresh, page_sizes=page_sizes, nkeys=keys if quant else 2,
                     wrappers=wrap, query_own=query_own)
    if f is not None:
        return f
    if not quant:
        return None
    try:
        qd = U.quantities(kind, arr)
    except Exception as e:  # noqa: BLE001
        if M.NOJIT:
            NOJIT_SKIPPED[0] += 1
            return None
        return (f'quantity-raises:{type(e).__name__}',
                f'a derived quantity raised {type(e).__name__}: {str(e)[:200]}')
    try:
        qf = U.quantities(kind, fresh)
        qs = src_q()
    except Exception as e:  # noqa: BLE001
        if M.NOJIT:
            # un-jitted kernels are not the code under test: numpy's uint32 scalar arithmetic
            # wraps where numba's int64 does not (offsets1[j + 1] - 2 with an empty first ring)
            NOJIT_SKIPPED[0] += 1
            return None
        return (f'quantity-raises-on-fresh:{type(e).__name__}',
                f'a quantity of a FRESH array of the elements {want!r} raised '
                f'{type(e).__name__}: {str(e)[:200]}')
    for name, (vd, elementwise) in qd.items():
        if not U.same_array(vd, qf[name][0]):
            return (f'quantity-differs:{name}',
                    f'{name} of the derived array {np.asarray(vd).tolist()!r} differs from that of '
                    f'a fresh array of the same elements {np.asarray(qf[name][0]).tolist()!r}')
        if elementwise:
            vs = qs[name][0]
            for j, o in enumerate(orig):
                if o is not None and not U.same_array(vd[j], vs[o]):
                    return (f'quantity-differs:{name}',
                            f'{name}[{j}] = {np.asarray(vd[j]).tolist()!r} differs from the '
                            f"source's {name}[{o}] = {np.asarray(vs[o]).tolist()!r}")
    if not any(G.has_nonfinite(e) for e in want):
        try:
            eq = arr == fresh
            if not (len(eq) == len(want) and bool(np.all(eq))):
                return ('eq-differs', f'arr == fresh gives {np.asarray(eq).tolist()!r}')
        except Exception as e:  # noqa: BLE001
            if aei and out is not None:
                out.aei_hit = ('arr == other', type(e).__name__, str(e)[:120])
            else:
                return ('eq-raises', f'arr == fresh raised {type(e).__name__}: {e}')
    if extra_rng is not None and not aei:
        return M.extras(kind, arr, fresh, want, extra_rng)
    return None


# --------------------------------------------------------------------------
# generation
# --------------------------------------------------------------------------
AEI = {'multiline': [[[]], [[], []], [[], [], []]],
       'polygon': [[[]], [[], []]],
       'multipolygon': [[[[]]], [[[]], []], [[]], [[[], []]], [[[]], [[]]], [[], [[]]]]}


def rand_source(rng, kind, subtype):
    isint = subtype.startswith('int')
    n = rng.choice([0, 1, 2, 3, 4, 5, 6, 8])
    els = G.rand_elements(rng, kind, n, lo=-6, hi=6,
                          nan_p=0.0 if isint else rng.choice([0, 0, 0, 0.1]),
                          missing_p=rng.choice([0.15, 0.3, 0.0]), empty_p=0.12)
    if n and rng.random() < 0.04:
        els = [None] * n
    # elements that are non-empty at the outer level but hold no coordinate at all
    # ([[]], [[], []], [[[]]], ...): once made arr[i] raise (repaired finding
    # getitem-raises:all-empty-inner, /repo 0dde5fb)
    if kind in AEI and n and rng.random() < 0.12:
        els[rng.randrange(n)] = copy.deepcopy(rng.choice(AEI[kind]))
    return els


def aei_history(rng, kind, subtype):
    """a history over a source certainly holding all-empty-inner elements"""
    els = rand_source(rng, kind, subtype)
    for _ in range(rng.randint(1, 2)):
        els.insert(rng.randint(0, len(els)), copy.deepcopy(rng.choice(AEI[kind])))
    orig = list(range(len(els)))
    steps = []
    for _ in range(rng.randint(1, 6)):
        st = U.rand_step(rng, len(orig))
        steps.append(st)
        try:
            orig = U.track(orig, st)
        except Exception:
            pass
    return els, steps


def rand_history(rng, kind, subtype, maxlen=8):
    """steps are generated against the length Python semantics predict"""
    els = rand_source(rng, kind, subtype)
    orig = list(range(len(els)))
    steps = []
    for _ in range(rng.randint(1, maxlen)):
        st = U.rand_step(rng, len(orig))
        steps.append(st)
        try:
            orig = U.track(orig, st)
        except Exception:
            pass                      # an invalid request leaves the array as it was
    return els, steps


def fixed_source(kind, n=4):
    base = {
        'point': [[1, 2], None, [3, -4], [0, 0], [5, 5], None],
        'multipoint': [[1, 2, 3, 4], None, [], [5, 6], [0, 0, 1, 1, 2, 2], None],
        'line': [[0, 0, 1, 1], None, [], [2, 2, 3, 5, 4, 4], [1, 0, 0, 1], None],
        'ring': [[0, 0, 1, 0, 1, 1, 0, 0], None, [], [2, 2, 4, 2, 4, 4, 2, 2], [0, 0, 0, 1, 1, 1, 0, 0],
                 None],
        'multiline': [[[0, 0, 1, 1], [2, 2, 3, 3]], None, [], [[4, 4, 5, 5]], [[], [1, 2, 3, 4]], None],
        'polygon': [[[0, 0, 2, 0, 2, 2, 0, 0]], None, [], [[0, 0, 4, 0, 4, 4, 0, 0], [1, 1, 1, 2, 2, 2, 1, 1]],
                    [[], [3, 3, 5, 3, 5, 5, 3, 3]], None],
        'multipolygon': [[[[0, 0, 2, 0, 2, 2, 0, 0]], [[3, 3, 4, 3, 4, 4, 3, 3]]], None, [],
                         [[[0, 0, 4, 0, 4, 4, 0, 0], [1, 1, 1, 2, 2, 2, 1, 1]]], [[], [[5, 5, 6, 5, 6, 6, 5, 5]]],
                         None],
    }[kind]
    return base[:n]


def enumerated(tier, rng=None):
    import random as _random
    rng = rng or _random.Random(0)
    """small scopes, exhaustively: (kind, subtype, elements, steps, quant)"""
    out = []
    bounds = [None, -5, -4, -2, -1, 0, 1, 3, 4] if tier == 'quick' else \
        [None] + list(range(-6, 7))
    stepsz = [None, 1, -1, 2, -2, 3, -3] if tier == 'quick' else [None, 1, -1, 2, -2, 3, -3, 4, -5, 0]
    kinds = ['multipolygon', 'point'] if tier == 'quick' else G.KINDS
    for kind in kinds:
        els = fixed_source(kind, 4)
        for s, e, k in itertools.product(bounds, bounds, stepsz):
            if tier == 'quick' and rng.random() >= 0.45:
                continue            # a seeded 45% sample of the grid in the quick tier
            # on a slice of a concatenation (non-zero offset in the buffers), then once more
            out.append((kind, 'float64', els,
                        [{'op': 'slice', 'args': [1, None, None], 'form': 'plain'},
                         {'op': 'slice', 'args': [s, e, k], 'form': 'plain', 'sindex': 2},
                         {'op': 'slice', 'args': [e, s, k], 'form': 'plain', 'sindex': 3}], False))
    # a built spatial index must not travel to an array with other rows: same-length
    # reorderings / repeats / fills, shorter "whole-looking" slices; copies may keep it
    for kind in G.KINDS:
        els = fixed_source(kind, 6)
        n = 6
        fam = [('slice', [None, None, -1], f) for f in ('plain', 'series_iloc', 'df_iloc')]
        fam += [('slice', [a, None, None], f) for a in (-3, -2, -6, -7, 0, 1)
                for f in ('plain', 'series_iloc', 'series_getitem')]
        fam += [('slice', [None, b, None], 'plain') for b in (-1, 6, 5)]
        fam += [('take', [[5, 3, 0, 1, 2, 4], False, 'none'], f)
                for f in ('list', 'numpy', 'series_take', 'series_sort_index', 'df_sort_values')]
        fam += [('take', [[0, 0, 1, 2, 3, 4], False, 'none'], 'numpy'),
                ('take', [[1, -1, 0, 2, -1, 5], True, 'none'], 'numpy'),
                ('take', [[1, -1, 0, 2, -1, 5], True, 'none'], 'series_reindex'),
                ('ints', [5, 4, 3, 2, 1, 0], 'numpy'), ('ints', [1, 0, 2, 3, 4, 5], 'series_iloc'),
                ('mask', [True] * 6, 'numpy'), ('mask', [True] * 6, 'series_bool'),
                ('concat', [[3, None], [None, 3]], 'direct'), ('concat', [[1, None], [None, 1]], 'pd_concat'),
                ('copy', None, 'copy'), ('copy', None, 'full_slice'), ('copy', None, 'pickle'),
                ('copy', None, 'series'), ('copy', None, 'df')]
        for ps in (2, 512):
            for op, args, form in fam:
                if tier == 'quick' and rng.random() >= 0.6:
                    continue
                out.append((kind, 'float64', els,
                            [{'op': op, 'args': args, 'form': form, 'sindex': ps},
                             {'op': 'slice', 'args': [-2, None, None], 'form': 'plain', 'sindex': ps}],
                            True))
    for kind in G.KINDS:
        els = fixed_source(kind, 6)
        pre = {'op': 'slice', 'args': [2, 5, None], 'form': 'plain'}     # length 3, offset 2
        n = 3
        rng_ix = list(range(-n - 1, n + 1))
        for allow_fill in (False, True):
            for ix in [[]] + [[i] for i in rng_ix] + [[i, j] for i in rng_ix for j in rng_ix]:
                for form in (('list', 'numpy') if len(ix) == 1 else ('numpy',)):
                    if tier == 'quick' and len(ix) == 2 and rng.random() >= 0.5:
                        continue        # index pairs: a seeded half in the quick tier
                    out.append((kind, 'float64', els,
                                [pre, {'op': 'take', 'args': [ix, allow_fill, 'none'], 'form': form}],
                                len(ix) == 2 and ix[0] == ix[1] - 1))
        for m in itertools.product([False, True], repeat=n):
            for form in ('numpy', 'list', 'boolarray'):
                out.append((kind, 'float64', els,
                            [pre, {'op': 'mask', 'args': list(m), 'form': form}], form == 'numpy'))
        for ln in (0, 1, 2, 4):
            out.append((kind, 'float64', els,
                        [pre, {'op': 'mask', 'args': [True] * ln, 'form': 'numpy'}], False))
        for m in ([True, None, False], [None, None, None], [None], [True, None]):
            out.append((kind, 'float64', els,
                        [pre, {'op': 'mask', 'args': m, 'form': 'boolarray'}], False))
        # empty arrays
        empty = {'op': 'slice', 'args': [0, 0, None], 'form': 'plain'}
        for allow_fill in (False, True):
            for ix in ([], [0], [-1], [-1, -1], [-1, 0], [-2], [1]):
                for fv in ('none', 'zero', 'nan'):
                    out.append((kind, 'float64', els,
                                [empty, {'op': 'take', 'args': [ix, allow_fill, fv], 'form': 'list'}],
                                False))
        for fv in ('none', 'nan', 'npnan', 'zero', 'NA', 'str', 'geom'):
            for allow_fill in (False, True):
                for ix in ([0, -1], [5], [-2]):
                    out.append((kind, 'float64', els,
                                [pre, {'op': 'take', 'args': [ix, allow_fill, fv], 'form': 'list'}], False))
        for k in range(-4, 5):
            out.append((kind, 'float64', els,
                        [pre, {'op': 'concat', 'args': [[k, None], [None, k]], 'form': 'direct'},
                         {'op': 'take', 'args': [[2, 0, -1], True, 'none'], 'form': 'numpy'}], True))
        for i in range(-5, 5):
            for form in ('plain', 'npint', 'ell_first', 'ell_last'):
                out.append((kind, 'float64', els, [pre, {'op': 'int', 'args': i, 'form': form}], False))
        for what in ('ellipsis', 'none', 'float'):
            for form in ('plain', 'ell_first', 'ell_last'):
                out.append((kind, 'float64', els, [pre, {'op': 'notindex', 'args': what, 'form': form}],
                            False))
    return out


# --------------------------------------------------------------------------
# shrinking
# --------------------------------------------------------------------------
def coq_codes(cases):
    """per case: the list of verdict codes the kernel computes"""
    outs = []
    for c in cases:
        txt = C.coq_eval(IMPORTS, f'{FN} {C.coq(c)}')
        outs.append([int(x) for x in __import__('re').findall(r'-?\d+', txt)])
    return outs


def describe(kind, steps, out, codes):
    """readable account of the first disagreement between the kernel-evaluated model and
    the implementation"""
    pos = next((j for j, c in enumerate(codes) if c), -1)
    first = codes[pos] if pos >= 0 else 0
    if pos <= 0:
        return f'{kind}: the source array itself: {CODES.get(first, first)}; codes {codes}'
    try:
        states = C.coq_eval(IMPORTS, f'model_states {C.coq(out.case[0])} '
                                     f'{C.coq([o[0] for o in out.case[2]])}')
    except Exception:  # noqa: BLE001
        states = '?'
    impl = out.trace[pos - 1] if pos - 1 < len(out.trace) else '?'
    return (f'{kind}: step {pos} {steps[pos - 1]}: {CODES.get(first, first)}; the implementation '
            f'{"returned an array" if impl == "ok" else "raised " + impl}; the model\'s results per '
            f'step: {states[:400]}; codes {codes}')


def fails(kind, subtype, els, steps, rng, need_coq=True):
    """(signature, what) when the history still shows a difference, else None"""
    out = run_history(kind, subtype, els, steps, rng, extras=True)
    if out.py_fail is not None:
        return out.py_fail[:2]
    if out.case is None or not need_coq:
        return None
    bad = C.coq_mismatches(IMPORTS, FN, CASE_TY, RES_TY, [out.case], [out.expected])
    if bad:
        codes = [0 if c == 3 else c for c in coq_codes([out.case])[0]]
        if not any(codes):
            return None
        first = next((c for c in codes if c), 0)
        return (f'{CODES.get(first, "model")}:{kind}', describe(kind, steps, out, codes))
    return None


def shrink(kind, subtype, els, steps, rng, sig, budget_s=60):
    """greedy: drop steps, then source elements, while the same class of failure persists"""
    t0 = time.time()
    els, steps = copy.deepcopy(els), copy.deepcopy(steps)
    cls = sig.split(':')[0]
    changed = True
    while changed and time.time() - t0 < budget_s:
        changed = False
        for i in range(len(steps)):
            cand = steps[:i] + steps[i + 1:]
            if not cand:
                continue
            f = fails(kind, subtype, els, cand, rng)
            if f and f[0].split(':')[0] == cls:
                steps, changed = cand, True
                break
        if changed:
            continue
        for i in range(len(els)):
            cand = els[:i] + els[i + 1:]
            f = fails(kind, subtype, cand, steps, rng)
            if f and f[0].split(':')[0] == cls:
                els, changed = cand, True
                break
    return els, steps


# --------------------------------------------------------------------------
# run
# --------------------------------------------------------------------------
def _single_thread():
    """the arrays here have <= 20 elements: numba's parallel kernels on 16 spinning OpenMP
    threads cost 0.3 s per call on a loaded machine; results do not depend on the thread
    count (that is C18's subject)"""
    try:
        import numba
        numba.set_num_threads(1)
    except Exception:  # noqa: BLE001
        pass


def run(rep):
    tier = getattr(rep, 'tier_run', rep.tier)
    rng = rep.rng
    _single_thread()
    rep.assumptions += [
        'numba kernels run with one thread during this check (results do not depend on the '
        'thread count; scheduling independence is C18)',
        'surface forms are mapped to the model\'s index classes by the dtype kind pandas/numpy '
        'infer (pd.array of a list of bools -> boolean, of ints -> Int64, of floats/strings -> '
        'other; an all-None list is generated only in the typed forms)',
        'GeoSeries/GeoDataFrame iloc / loc / reindex / boolean selection / pd.concat / pickle / '
        'parquet are expected to have the element semantics of the model step they are mapped to '
        '(slice, take without fill, take with fill and -1, mask, concat, copy)']
    rep.rule = ('(0) before ~35% of the steps (and every step of the slice grid and of the index '
                'family) build_sindex(page_size in {2,3,4,16,512}) is called on the array / Series / '
                'frame the step starts from; after every step cx[...] (4 of 7 keys incl. omitted and '
                'inverted ends, 2 on the slice grid; also through GeoSeries / GeoDataFrame on ~15% of the steps) and '
                'sindex.intersects (4 boxes) of the derived array are compared with those of a fresh '
                'array of the selected elements; (a) enumerated small scopes: a seeded 45% sample (thorough tier: all) of the slice start/stop/step 9x9x7 grid applied '
                'to a slice of a 4-element array and once more; on a length-3 window (offset 2) of a '
                '6-element array of each of the 7 kinds every take of <= 1 index and (quick: a seeded half of) the takes of 2 indices in [-4, 3] with and '
                'without allow_fill, every boolean mask in 3 surface forms, wrong lengths, NA masks, '
                'takes from an empty array, every fill_value class, every rotation followed by a take '
                'with fill, every integer index in [-5, 4] in 4 forms, non-index arguments; '
                '(b) seeded random histories of 1..8 steps over 7 kinds x {float64, float32, int32} '
                '(thorough: + int64, int16): slice (any start/stop/step, Ellipsis forms, GeoSeries/GeoDataFrame '
                'iloc), take (list/numpy/pandas take/reindex, allow_fill, every fill_value class), '
                'boolean masks (numpy, list, BooleanArray with NA, Series/DataFrame row selection), '
                'integer arrays (list, numpy int64/int32/uint8, Int64 with NA, tuple, iloc, loc), '
                'concat (rotate, self+self, pieces, pd.concat), copy / pickle / Series / DataFrame / '
                'parquet / iteration round trips, arr[i], ~12% invalid requests.  A history is non-trivial when '
                'at least one step returned a non-empty array; distinct = distinct (kind, subtype, '
                'elements, steps); (c) after ~12% of the steps the derived-vs-fresh extras: == with a '
                'shorter / longer array, a scalar, None, a foreign object; _from_sequence of the array, '
                'of its list, of one scalar; pd.factorize; argsort; Series.sort_values; scalar-level '
                'length / area / intersects_bounds / len of arr[i]; rings through buffer_values / '
                'buffer_inner_offsets -- value bit for bit or exception class equal to a fresh '
                'array\'s; (d) several sources (harness/c16_mixed.py): 2-3 arrays (fresh / sliced / '
                'taken / concatenated / pickled) of equal dtype, of same-width subtypes (int64/float64/'
                'uint64, int32/float32/uint32, int16/uint16, int8/uint8), of different-width subtypes, '
                'of different kinds (sharing an arrow storage type or not), cut into slices with any '
                'step and brought together by pd.concat of GeoSeries (with / without ignore_index), '
                'DataFrames, GeoDataFrames, frames with unequal columns, _concat_same_type when the '
                'dtypes are equal; then 0-3 steps on the result (iloc slice / take / mask / reindex '
                'with fill / copy / pickle / re-wrapping the scalars in a GeoSeries or array); kind '
                'and coordinates (multiples of 1/4, exact in every subtype) of every element compared '
                'with Model/DeriveMulti.v run_multi inside the kernel and in Python')
    nrand = 1100 if tier == 'quick' else 20000
    hist = []
    for kind, st, els, steps, quant in enumerated(tier, rng):
        hist.append((kind, st, els, steps, quant))
    n_enum = len(hist)
    # every (kernel, subtype) pair is JIT-compiled afresh in each process (~0.2-0.5 s each,
    # no on-disk cache): three subtypes in the quick tier, all five in the thorough one
    subtypes = ['float64'] * 6 + ['float32', 'int32'] if tier == 'quick' else \
        ['float64'] * 5 + ['float32', 'int32', 'int64', 'int16']
    for j in range(nrand):
        kind = G.KINDS[j % 7]
        st = rng.choice(subtypes)
        els, steps = rand_history(rng, kind, st)
        hist.append((kind, st, els, steps, True))

    naei = 45 if tier == 'quick' else 600
    hist.append(('polygon', 'float64', [[[]]], [{'op': 'copy', 'args': None, 'form': 'copy'}], True))
    hist.append(('multiline', 'float64', [[[], []]], [{'op': 'copy', 'args': None, 'form': 'copy'}], True))
    hist.append(('multipolygon', 'float64', [[[[]]]], [{'op': 'copy', 'args': None, 'form': 'copy'}], True))
    for j in range(naei):
        kind = ['multiline', 'polygon', 'multipolygon'][j % 3]
        st = rng.choice(subtypes)
        els, steps = aei_history(rng, kind, st)
        hist.append((kind, st, els, steps, True))
    rep.extra['histories_all_empty_inner'] = naei + 3

    cases, expected, metas = [], [], []
    pyfails = []
    mutated = 0
    aei_first = None
    t_py = time.time()
    c_py = time.process_time()
    for kind, st, els, steps, quant in hist:
        out = run_history(kind, st, els, steps, rng, quant=quant)
        rep.evaluations += 1
        rep.count(kind)
        rep.count('steps', len(steps))
        for t in out.trace:
            rep.count('step_ok' if t == 'ok' else 'step_raised:' + t)
        for s in steps:
            rep.count('op:' + s['op'])
        mutated += out.notes.get('index_array_mutated', 0)
        if any(U.is_aei(kind, e) for e in els):
            rep.count('class:all_empty_inner')
        if out.aei_hit is not None:
            rep.count('class:all_empty_inner_getitem_raised')
            if aei_first is None:
                aei_first = (kind, st, els, steps, out.aei_hit)
        if 'ok' in out.trace and any(e is not None for e in els):
            rep.nontrivial((kind, st, repr(els), repr(steps)))
        meta = {'kind': kind, 'subtype': st, 'elements': els, 'steps': steps}
        if out.py_fail is not None:
            pyfails.append((meta, out.py_fail))
        if out.case is not None:
            cases.append(out.case); expected.append(out.expected); metas.append(meta)
        rep.sample({**meta, 'trace': out.trace}, cap=5)
    rep.extra['index_array_mutated'] = mutated
    rep.extra['histories_enumerated'] = n_enum
    rep.extra['histories_random'] = nrand

    if aei_first is not None:
        kind, st, els, steps, hit = aei_first
        rep.violation('getitem-raises:all-empty-inner',
                      f'{kind}: {hit[0]} raised {hit[1]}({hit[2]!r}) on an array holding an element '
                      f'that is non-empty at the outer level but has no coordinates '
                      f'(e.g. PolygonArray([[[]]], dtype="float64")[0]); the model returns the element '
                      f'(repaired by /repo 0dde5fb: must not happen any more)',
                      {'kind': kind, 'subtype': st, 'elements': els, 'steps': steps})

    # ---- the model, inside Coq
    rep.extra['seconds_library'] = round(time.time() - t_py, 1)
    rep.extra['cpu_seconds_library'] = round(time.process_time() - c_py, 1)
    t_coq = time.time()
    bad = C.coq_mismatches(IMPORTS, FN, CASE_TY, RES_TY, cases, expected, shard=100)
    rep.extra['seconds_kernel'] = round(time.time() - t_coq, 1)
    reported = {}
    for meta, (sig, what, k) in pyfails:
        s = sig if (meta['kind'] in sig or sig == 'index-argument-mutated') \
            else f'{sig}:{meta["kind"]}'
        reported.setdefault(s, (meta, what))
    for i in bad[:40]:
        codes = coq_codes([cases[i]])[0]
        if all(c in (0, 3) for c in codes):
            # elements agree; only the layout premise of the theorems fails: not observable
            rep.count('internal:null-slot-spans-values')
            continue
        first = next((c for c in codes if c not in (0, 3)), -1)
        pos = next((j for j, c in enumerate(codes) if c not in (0, 3)), -1)
        sig = f'{CODES.get(first, "model")}:{metas[i]["kind"]}'
        what = (f'{metas[i]["kind"]}: the kernel-evaluated model disagrees at position {pos} '
                f'(0 = source array, k = after step k): {CODES.get(first, first)}; codes {codes}')
        reported.setdefault(sig, (metas[i], what))
    # ---- several sources brought together (harness/c16_mixed.py)
    t_m = time.time()
    M.run(rep, tier)
    rep.extra['seconds_multi_source'] = round(time.time() - t_m, 1)
    if NOJIT_SKIPPED[0]:
        rep.count('internal:nojit-quantity-raised', NOJIT_SKIPPED[0])
    for what_, cnt in U.UNAVAILABLE.items():
        rep.count('internal-unavailable:' + what_, cnt)
    rep.extra['histories_kernel_checked'] = len(cases)
    for sig, (meta, what) in list(reported.items())[:8]:
        els, steps = meta['elements'], meta['steps']
        try:
            els, steps = shrink(meta['kind'], meta['subtype'], els, steps, rng, sig,
                                budget_s=float(os.environ.get('C16_SHRINK_BUDGET',
                                                                 40 if tier == 'quick' else 120)))
            f = fails(meta['kind'], meta['subtype'], els, steps, rng)
            if f:
                what = f[1] if f[1].startswith(meta['kind']) else f'{meta["kind"]}: {f[1]}'
        except Exception as e:  # noqa: BLE001 -- report the unshrunk history
            what += f' (shrinking failed: {type(e).__name__})'
        rep.violation(sig, what, {'kind': meta['kind'], 'subtype': meta['subtype'],
                                  'elements': els, 'steps': steps,
                                  'unshrunk': {'elements': meta['elements'], 'steps': meta['steps']}})


# --------------------------------------------------------------------------
# replay
# --------------------------------------------------------------------------
def _un(e):
    if isinstance(e, list):
        return [_un(x) for x in e]
    if isinstance(e, str):
        return float(e)
    return e


def replay(rep, rp):
    _single_thread()
    if 'mixed' in rp:
        return M.replay(rep, rp)
    kind, st = rp['kind'], rp['subtype']
    els = _un(rp['elements'])
    steps = rp['steps']
    out = run_history(kind, st, els, steps, rep.rng, extras=True)
    print('steps :', steps)
    print('trace :', out.trace)
    ok = True
    if out.py_fail is not None:
        print('python-side:', out.py_fail)
        ok = False
    if out.aei_hit is not None:
        print('scalar access raised on an all-empty-inner element:', out.aei_hit)
        ok = False
    if out.case is not None:
        codes = coq_codes([out.case])[0]
        print('kernel verdicts (0 = agree):', codes, {c: CODES.get(c) for c in codes if c})
        codes = [0 if c == 3 else c for c in codes]
        print('model states:', C.coq_eval(
            IMPORTS, f'model_states {C.coq(out.case[0])} {C.coq([o[0] for o in out.case[2]])}'))
        if any(codes):
            ok = False
    return ok
