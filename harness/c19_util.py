"""Helpers of harness/c19.py that generalise harness/c10_util.run_pack (shared with C10, not to
be changed here): the same real call, but with a choice of
  * the filesystem object: the recording / fault-injecting RecFS, an s3fs-like variant whose
    `ls` has a `refresh` parameter and a listing cache, or a protocol string + storage_options
    (then nothing is recorded: the run is judged by the tree it leaves);
  * the retry arguments: a budget of K attempts without waiting, or the library's default
    (`_retry_args` not passed at all);
  * where the uuid4 counter starts (a repeat of the call that draws a FRESH uuid, as the real
    library does, instead of the per-call restart of c10_util.deterministic_uuid);
  * the dask scheduler: the synchronous one, or one that re-submits a task that raised (what a
    distributed scheduler does with retries=1: the situation the "work has already been done"
    shortcut of read_parquet_retry is written for).
"""
import os
import re
import uuid as _uuid

from . import c10_util as U
from . import fsrec as F


def uuid_of(start):
    """the dataset uuid a call draws under counting_uuid(start): its first uuid4"""
    return str(_uuid.UUID(int=(0x5eed << 96) | (start + 1), version=4))


class counting_uuid:
    """uuid.uuid4 from a counter that starts at `start` (c10_util.deterministic_uuid is start=0)"""

    def __init__(self, start=0):
        self.start = start

    def __enter__(self):
        self._orig = _uuid.uuid4
        cnt = [self.start]

        def uuid4():
            cnt[0] += 1
            return _uuid.UUID(int=(0x5eed << 96) | cnt[0], version=4)
        _uuid.uuid4 = uuid4
        return self

    def __exit__(self, *a):
        _uuid.uuid4 = self._orig
        return False


class RecFSRefresh(F.RecFS):
    """RecFS with the `ls` signature of s3fs / gcsfs (`refresh` parameter) and their listing
    cache: a listing is served from the cache (no call reaches the store, so nothing is
    recorded and nothing can fail) unless refresh=True or the cache was invalidated.  The
    cache is filled by a listing and, with the empty listing, by the makedirs that creates a
    directory; like the dircache of a remote filesystem it does NOT see files written by other
    clients (here: written later through `open`), which is the situation `refresh=True` /
    `invalidate_cache()` exist for."""

    def __init__(self, root, plan=None, **kw):
        super().__init__(root, plan=plan, **kw)
        self._lscache = {}
        self.refresh_seen = set()
        self.cache_hits = 0

    def ls(self, path, detail=False, refresh=False, **kw):
        key = (self._strip_protocol(path), bool(detail))
        top = not self._depth()
        if top:
            self.refresh_seen.add(bool(refresh))
            if not refresh and key in self._lscache:
                self.cache_hits += 1
                return list(self._lscache[key])
        out = super().ls(path, detail=detail, **kw)
        if top:
            self._lscache[key] = list(out)
        return out

    def makedirs(self, path, exist_ok=False):
        p = self._strip_protocol(path)
        fresh = not os.path.exists(p)
        super().makedirs(path, exist_ok=exist_ok)
        if fresh and not self._depth():
            self._lscache[(p, False)] = []

    mkdirs = makedirs

    def invalidate_cache(self, path=None):
        self._lscache.clear()
        return super().invalidate_cache(path)


def resubmitting_get(dsk, keys, **kw):
    """dask scheduler: the synchronous one, but a task that raises is submitted once more
    (every task, whatever it is) before its exception is passed on"""
    from dask._task_spec import Task, convert_legacy_graph
    from dask.local import get_sync
    graph = dict(dsk.__dask_graph__() if hasattr(dsk, '__dask_graph__') else dsk)
    graph = convert_legacy_graph(graph)
    out = {}
    for k, t in graph.items():
        if type(t) is Task:
            fn = t.func

            def again(*a, __fn=fn, **k2):
                try:
                    return __fn(*a, **k2)
                except Exception:  # noqa: BLE001 - re-submission does not look at the error
                    resubmitting_get.resubmitted += 1
                    return __fn(*a, **k2)
            t = Task(t.key, again, *t.args, **t.kwargs)
        out[k] = t
    return get_sync(out, keys, **kw)


resubmitting_get.resubmitted = 0


def run_pack(root, df, cuts, k, mode, compression='snappy', overwrite=False, plan=None, K=None,
             fs_cls=None, filesystem=None, storage_options=None, uuid_start=0, scheduler='synchronous'):
    """c10_util.run_pack generalised (see the module docstring).  `filesystem`: None = an
    instance of fs_cls (default RecFS) over root; otherwise passed to the call as it is (a
    protocol string, or an invalid value) together with storage_options."""
    import dask
    F.set_tmp_prefix(U.leaf_prefix(mode))
    o = U.Observed()
    o.cells = {}
    fs = None
    if filesystem is None:
        fs = (fs_cls or F.RecFS)(root, plan=plan)

        def on_closed(rp):
            comps = rp.split('/')
            m = re.match(r'^part(\d+)\.parquet$', comps[-1])
            if not m or len(comps) < 2:
                return
            mp = U.leaf_rx(mode).match(comps[-2])
            if not mp:
                return
            rids = U.read_rids(os.path.join(root, rp))
            if rids is not None:
                o.cells[(int(m.group(1)), int(mp.group(1)))] = rids
        fs.on_write_closed = on_closed
    ddf = U.make_ddf(df, cuts)
    kw = {}
    if K is not None:
        kw['_retry_args'] = dict(wait_fixed=0, stop_max_attempt_number=K)
    if storage_options is not None:
        kw['storage_options'] = storage_options
    tf = U.tempdir_format(root, mode)
    o.raised, o.frame = None, None
    resubmitting_get.resubmitted = 0
    with dask.config.set(scheduler=scheduler), counting_uuid(uuid_start):
        try:
            o.frame = ddf.pack_partitions_to_parquet(
                os.path.join(root, U.DS), filesystem=fs if fs is not None else filesystem, npartitions=k,
                compression=compression, tempdir_format=tf, overwrite=overwrite, **kw)
        except BaseException as e:  # noqa: BLE001 - whatever the call raises is an outcome
            if isinstance(e, (KeyboardInterrupt, SystemExit)):
                raise
            o.raised = e
    o.resubmitted = resubmitting_get.resubmitted
    if fs is not None:
        fs.plan = {}
        o.trace = [t for t in fs.trace if t[0] != 'invalidate_cache']
        o.fired = list(fs.fired)
    else:
        o.trace, o.fired = [], []
    o.fs = fs
    o.tmp_parent = None if U.TMPSPEC[mode] is None else U.TMPSPEC[mode][1]
    if mode == 'uuid' and uuid_start:
        o.tmp_parent = 'tmp/' + uuid_of(uuid_start)
    return o


# --------------------------------------------------------------------------
# reading a trace when the temp parent is not the one c10_util.TMPSPEC names (fresh uuid)
# --------------------------------------------------------------------------
def tmp_rx(parent, prefix='t'):
    return re.compile('^' + re.escape(parent + '/' if parent else '') + re.escape(prefix) + r'(\d+)$')


def assignment_of(o, nin, parent, prefix='t'):
    asg = [set() for _ in range(nin)]
    iorder = []
    rx_dir, rx_file = tmp_rx(parent, prefix), re.compile(r'^part(\d+)\.parquet$')
    for t in o.trace:
        if t[0] == 'open_w' and '/' in t[1]:
            d, b = t[1].rsplit('/', 1)
            md, mf = rx_dir.match(d), rx_file.match(b)
            if md and mf:
                N, i = int(md.group(1)), int(mf.group(1))
                asg[i].add(N)
                if i not in iorder:
                    iorder.append(i)
    return [sorted(s) for s in asg], iorder + [i for i in range(nin) if i not in iorder]


def concat_order(o, k, parent, prefix='t'):
    last_mk = max([j for j, t in enumerate(o.trace) if t[0] == 'makedirs'], default=-1)
    order = []
    rx_out = re.compile(r'^%s/part\.(\d+)\.parquet$' % U.DS)
    rx_t = tmp_rx(parent, prefix)
    for t in o.trace[last_mk + 1:]:
        m = None
        if t[0] == 'isfile':
            m = rx_out.match(t[1])
        elif t[0] == 'rm':
            m = rx_t.match(t[1])
        if m and int(m.group(1)) not in order:
            order.append(int(m.group(1)))
    return order + [N for N in range(k) if N not in order]
