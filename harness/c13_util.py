"""C13 helpers: coordinates over the WHOLE range of every coordinate subtype, and Dask frames of
every provenance.

Two classes of inputs that the small-integer enumeration of harness/c13.py does not reach:

(1) wide_arrays - "coordinates that are not small integers".  All seven kinds x all TEN coordinate
    subtypes the constructors accept (float64 float32 int8..int64 uint8..uint64), coordinates drawn
    from pools that span the subtype's range:
      integers  : the extremes of the dtype and their neighbours, 2^b +- small odd numbers for every
                  b up to the width (so beyond 2^24 = float32's integer range for the 32/64-bit
                  types, beyond 2^31 / 2^32 / 2^53), uniform over the whole range, web-mercator-like
                  magnitudes; for the 64-bit types only values a binary64 holds exactly
                  (m * 2^e, m < 2^53) - the results are float64, the property cannot ask for more;
      float32   : random finite bit patterns (24 significant bits, every binade, subnormals, the
                  largest float32), decimals rounded to float32, clusters a few float32-ulps apart;
      float64   : lon/lat-like doubles with 15-17 significant digits, decimals with many places,
                  clusters a few ulps apart at magnitudes 0.1 .. 1e15 (extent tiny relative to the
                  magnitude), integers around 2^52 / 2^53 / 1e16, magnitudes 1e16 .. 1.79e308,
                  1e-11 .. 5e-324 (subnormals), +0.0 / -0.0, mixtures; NaN / +-inf sprinkled in.
    Oracle: the SAME proven model (Model/Bounds.v la_all / fa_all) evaluated by the Coq kernel on
    the exported buffers; every value is an exact dyadic, written as the integer v * 2^k for the
    smallest k that makes every value of the case integral (exact rational arithmetic in Python,
    no float operation, no tolerance; min / max commute with the scaling).  An implementation
    result that is not integral at that scale is not one of the coordinates and is a difference by
    itself.

(2) dask_provenances - the Dask entry points on frames of every provenance.  From one pandas
    GeoDataFrame (wide coordinates as above, missing / empty elements, sometimes a whole partition
    without extent) the Dask frames
      from_pandas | persist | geometry of a column-subset frame after the caches were warmed |
      to_parquet + read_parquet_dask | pack_partitions | pack_partitions_to_parquet |
      pack_partitions_to_parquet re-read with read_parquet_dask
    with 1 .. 12 partitions (both sides of the 10 / 11 partitions of the read path) must report:
    total_bounds = the pandas array's total_bounds (itself compared with the Coq model in (1));
    total_bounds = Model/DaskModel.v box_total of partition_bounds, evaluated by the Coq kernel;
    row i of partition_bounds = total_bounds of partition i as computed; partition_sindex
    .total_bounds (series and frame) = total_bounds when every partition has an extent;
    bounds.compute() = the array's bounds rows, row for row (matched through a position column).
    All comparisons exact (== on float64, NaN = NaN).
"""
import math
import shutil
import tempfile
import warnings

import numpy as np

from . import common as C
from . import geomgen as G

ALL_SUBTYPES = ['float64', 'float32', 'int64', 'int32', 'int16', 'int8',
                'uint64', 'uint32', 'uint16', 'uint8']
NONFIN = [float('nan'), float('inf'), float('-inf')]


# --------------------------------------------------------------------------
# exact dyadic <-> Z
# --------------------------------------------------------------------------
def _dy_exp(x):
    """smallest e >= 0 with x * 2^e integral (x a finite float or an int)"""
    if isinstance(x, (int, np.integer)):
        return 0
    return float(x).as_integer_ratio()[1].bit_length() - 1


def _dy_int(x, k):
    """x * 2^k as an exact int, or None when it is not integral"""
    if isinstance(x, (int, np.integer)):
        return int(x) << k
    n, d = float(x).as_integer_ratio()
    e = d.bit_length() - 1
    if e > k:
        return None
    return n << (k - e)


class NotACoordinate(Exception):
    pass


def _z(v):
    """a Python int as a Gallina Z literal: big ones in hexadecimal (Coq 8.16 converts a decimal
    literal in quadratic time: 200 literals of 300 digits take 28 s, the same in hex 2 s)"""
    if -2**63 < v < 2**63:
        return v
    return C.Raw('(%s0x%x)%%Z' % ('-' if v < 0 else '', abs(v)))


def znum(x, k):
    """implementation number -> model num at scale 2^k (None for NaN / inf)"""
    xf = float(x)
    if not math.isfinite(xf):
        return None
    z = _dy_int(xf, k)
    if z is None:
        raise NotACoordinate(repr(xf))
    return C.Some(_z(z))


def _raw_values(arr, kind):
    """(record builder, numpy values of the exported buffers) - the structure part is
    common.export_listarr / export_fixarr's, the values are kept as numpy scalars"""
    data = arr.__arrow_array__() if hasattr(arr, '__arrow_array__') else arr.data
    bufs = data.buffers()
    off, n = data.offset, len(data)
    valid = C._bits(bufs[0], off + n)
    valid = None if valid is None else C.Some(valid)
    if kind == 'point':
        vals = np.frombuffer(bufs[1], dtype=arr.numpy_dtype) if bufs[1] is not None \
            else np.array([], dtype=arr.numpy_dtype)
        vals = vals[:2 * (off + n)]
        return (lambda zs: C.Rec('Build_fixarr', C.Nat(off), C.Nat(n), valid, zs)), vals
    if len(bufs) < 3:
        raise ValueError('null-typed array: not modelled')
    import pyarrow as pa
    nlev, t = 0, data.type
    while pa.types.is_list(t) or pa.types.is_large_list(t):
        nlev += 1
        t = t.value_type
    offs = []
    for lev in range(nlev):
        ob = np.frombuffer(bufs[1 + 2 * lev], dtype=np.uint32) if bufs[1 + 2 * lev] is not None \
            else np.array([0], dtype=np.uint32)
        offs.append([C.Nat(int(x)) for x in ob])
    need = off + n
    trimmed = []
    for o in offs:
        o = o[:need + 1] if len(o) > need + 1 else o
        trimmed.append(o)
        need = int(o[-1]) if o else 0
    vb = bufs[-1]
    vals = np.frombuffer(vb, dtype=arr.numpy_dtype) if vb is not None else np.array([], dtype=arr.numpy_dtype)
    vals = vals[:need]
    return (lambda zs: C.Rec('Build_listarr', C.Nat(off), C.Nat(n), valid, trimmed, zs)), vals


def export_exact(arr, kind):
    """(model record with every buffer value as the exact integer v * 2^k, k)"""
    build, vals = _raw_values(arr, kind)
    if np.issubdtype(vals.dtype, np.floating):
        pv = [float(v) for v in vals]            # float32 -> float64 is exact
        fin = [v for v in pv if math.isfinite(v)]
        k = max([_dy_exp(v) for v in fin], default=0)
        zs = [C.Some(_z(_dy_int(v, k))) if math.isfinite(v) else None for v in pv]
    else:
        k = 0
        zs = [C.Some(_z(int(v))) for v in vals]
    return build(zs), k


def impl_all_exact(arr, k):
    """the four public quantities in the model's result type at scale 2^k"""
    try:
        b = arr.bounds
        tb = arr.total_bounds
        tx = arr.total_bounds_x
        ty = arr.total_bounds_y
    except Exception as e:  # the property says these never raise
        return ('raised', type(e).__name__, str(e)[:200])
    try:
        return C.Some(([tuple(znum(v, k) for v in row) for row in np.asarray(b).tolist()],
                       tuple(znum(v, k) for v in tb),
                       tuple(znum(v, k) for v in tx), tuple(znum(v, k) for v in ty)))
    except NotACoordinate as e:
        return ('not-a-coordinate', str(e),
                {'bounds': np.asarray(b, dtype=float).tolist(), 'total_bounds': [float(v) for v in tb],
                 'total_bounds_x': [float(v) for v in tx], 'total_bounds_y': [float(v) for v in ty]})


# --------------------------------------------------------------------------
# value pools
# --------------------------------------------------------------------------
def _f64_representable(rng, lo, hi, bits):
    """an integer in [lo, hi] that binary64 holds exactly: m * 2^e with m < 2^53, magnitude up
    to `bits` bits"""
    for _ in range(50):
        nb = rng.randint(1, bits)
        m = rng.getrandbits(min(nb, 53)) | 1
        v = m << max(0, nb - 53)
        if rng.random() < 0.5:
            v = -v
        if lo <= v <= hi:
            return v
    return 0


def int_pool(rng, st):
    info = np.iinfo(st)
    lo, hi, bits = int(info.min), int(info.max), info.bits
    wide = bits == 64

    def ok(v):
        return lo <= v <= hi and (not wide or int(float(v)) == v)
    cls = rng.choice(['edge', 'pow2', 'uniform', 'mercator', 'mixed'])
    cand = []
    if cls in ('edge', 'mixed'):
        cand += [lo, lo + 1, lo + 2, hi, hi - 1, hi - 2, 0, 1, -1, hi // 2, hi // 2 + 1]
        if wide:   # the extremes of what a binary64 holds without rounding
            cand += [2**53, 2**53 - 1, -2**53, -(2**53 - 1), 2**53 + 2, hi - (hi % 2048), lo]
    if cls in ('pow2', 'mixed'):
        for _ in range(12):
            b = rng.randint(3, bits)
            cand.append(rng.choice([1, -1]) * ((1 << b) + rng.choice([-3, -1, 1, 3, 5])))
        # just beyond float32's / float16's integer ranges
        cand += [2**24 + 1, 2**24 + 3, -(2**24 + 1), 2**25 + 1, 2**25 - 1, 2**11 + 1, 2**31 - 1, 2**31 + 1,
                 2**32 - 1, 2**24 - 1]
    if cls in ('uniform', 'mixed'):
        for _ in range(10):
            cand.append(_f64_representable(rng, lo, hi, bits) if wide else rng.randint(lo, hi))
    if cls == 'mercator':
        for _ in range(10):
            cand.append(rng.choice([1, -1]) * rng.randint(16_000_000, 20_037_508) | 1)
            cand.append(rng.randint(-1000, 1000))
    cand = [v for v in cand if ok(v)]
    if not cand:
        cand = [lo, hi, 0]
    pool = [rng.choice(cand) for _ in range(rng.randint(3, 9))]
    return cls, pool


def _rand_f32(rng):
    while True:
        v = np.array([rng.getrandbits(32)], dtype=np.uint32).view(np.float32)[0]
        if np.isfinite(v):
            return float(v)


def f32_pool(rng):
    cls = rng.choice(['bits', 'decimal', 'ulp', 'edge', 'mixed'])
    cand = []
    if cls in ('bits', 'mixed'):
        cand += [_rand_f32(rng) for _ in range(8)]
    if cls in ('decimal', 'mixed'):
        cand += [float(np.float32(rng.uniform(-180, 180))) for _ in range(6)]
        cand += [float(np.float32(round(rng.uniform(-10, 10), 1))) for _ in range(3)]
    if cls in ('ulp', 'mixed'):
        base = np.float32(rng.choice([0.1, 1.0, 16777216.0, 1e6 + 0.1, -122.41942, 3e9, 1e-30]))
        v = base
        for _ in range(6):
            cand.append(float(v))
            for _ in range(rng.randint(1, 3)):
                v = np.nextafter(v, np.float32(rng.choice([-np.inf, np.inf])), dtype=np.float32)
    if cls in ('edge', 'mixed'):
        fi = np.finfo(np.float32)
        cand += [float(fi.max), -float(fi.max), float(fi.tiny), float(np.float32(1e-45)), -float(np.float32(1e-45)),
                 0.0, -0.0, 16777216.0, 16777215.0, -16777215.0, 1.0, float(np.float32(2**31))]
    pool = [rng.choice(cand) for _ in range(rng.randint(3, 9))]
    return cls, pool


def f64_pool(rng):
    cls = rng.choice(['lonlat', 'decimal', 'ulp', 'int53', 'huge', 'tiny', 'edge', 'mixed'])
    cand = []
    if cls in ('lonlat', 'mixed'):
        cand += [rng.uniform(-180, 180) for _ in range(5)] + [-122.0 - rng.random(), 37.0 + rng.random()]
    if cls in ('decimal', 'mixed'):
        cand += [round(rng.uniform(-1000, 1000), rng.randint(1, 14)) for _ in range(6)]
        cand += [rng.randint(-9, 9) / 10.0, 0.1 + 0.2, 1 / 3.0]
    if cls in ('ulp', 'mixed'):
        v = rng.choice([0.1, 1.0, -122.98496724190852, 1e6 + 0.1, 4503599627370496.5, 1e15 + 0.3, 6378137.000000001])
        for _ in range(6):
            cand.append(v)
            for _ in range(rng.randint(1, 3)):
                v = math.nextafter(v, rng.choice([-math.inf, math.inf]))
    if cls in ('int53', 'mixed'):
        for b in (52, 53, 54, 60):
            cand.append(float(rng.choice([1, -1]) * ((1 << b) + rng.choice([-2, -1, 0, 1, 2]))))
        cand += [1e16, 1e16 + 2, -1e16 - 2, 9007199254740993.0, 1.2345678901234567e16]
    if cls in ('huge', 'mixed'):
        cand += [rng.choice([1, -1]) * rng.uniform(1, 10) * 10.0 ** rng.randint(16, 307) for _ in range(5)]
    if cls in ('tiny', 'mixed'):
        cand += [rng.choice([1, -1]) * rng.uniform(1, 10) * 10.0 ** rng.randint(-323, -11) for _ in range(4)]
        cand += [4.9e-11, -4.9e-11, 1e-300]
    if cls in ('edge', 'mixed'):
        cand += [1.7976931348623157e308, -1.7976931348623157e308, 5e-324, -5e-324, 2.2250738585072014e-308,
                 0.0, -0.0, 1.0, -1.0]
    pool = [rng.choice(cand) for _ in range(rng.randint(3, 9))]
    return cls, pool


def value_pool(rng, st):
    if st == 'float64':
        return f64_pool(rng)
    if st == 'float32':
        return f32_pool(rng)
    return int_pool(rng, st)


def map_coords(el, pool):
    """replace every finite coordinate c (an index) of a nested element by pool[c]"""
    if el is None:
        return None
    if isinstance(el, (list, tuple)):
        return [map_coords(x, pool) for x in el]
    if isinstance(el, float) and not math.isfinite(el):
        return el
    return pool[int(el)]


def wide_elements(rng, kind, st, n, missing_p=0.15):
    """n elements of the kind whose coordinates come from one pool of the subtype"""
    cls, pool = value_pool(rng, st)
    isint = not st.startswith('float')
    els = G.rand_elements(rng, kind, n, lo=0, hi=len(pool) - 1,
                          nan_p=0.0 if isint else rng.choice([0, 0, 0.15]), missing_p=missing_p)
    return cls, [map_coords(e, pool) for e in els]


# --------------------------------------------------------------------------
# (1) wide arrays against the Coq model
# --------------------------------------------------------------------------
# deterministic cases run first on every run (model comparison AND agreement of series / Dask /
# index): (kind, subtype, elements, name)
_SQ = [0, 0, 1, 0, 1, 1, 0, 0]
CORPUS = [
    # the recorded KNOWN finding dask-raises:uint64-element>=2^63:OverflowError (KNOWN_FINDINGS.txt):
    # emitted here on every run; bounds / series / index of the same array are compared as usual
    ('line', 'uint64', [[2**63, 0, 1, 1]], 'uint64-element>=2^63'),
    ('line', 'uint64', [[2**63 - 1024, 0, 1, 1], None, [2**53 + 2, 7, 2**62, 3]], 'uint64-below-2^63'),
    # repaired 87da180: the Dask versions for unsigned subtypes of every kind (the Dask example
    # array of a kind must be constructible in every subtype)
] + [(kind, st, [el, None], 'dask-example-array:' + st)
     for st in ('uint8', 'uint16', 'uint32', 'uint64', 'int8')
     for kind, el in (('point', [1, 2]), ('multipoint', _SQ), ('line', _SQ), ('ring', _SQ), ('multiline', [_SQ]),
                      ('polygon', [_SQ]), ('multipolygon', [[_SQ]]))] + [
    # repaired 7cf01a0: an extent of width 0 at |coordinate| >= 2^53 (the +1 widening of the
    # index' Hilbert range is absorbed): the index builds and reports the array's total_bounds
    ('point', 'float64', [[2.0**53, 0.0]], 'zero-extent-at-2^53'),
    ('point', 'float64', [[-2.0**53, 2.0**53], [-2.0**53, 2.0**53]], 'zero-extent-at-2^53'),
    ('line', 'float64', [[2.0**60, 5.0, 2.0**60, 7.0], [2.0**60, 1.0, 2.0**60, 2.0]], 'zero-width-at-2^60'),
    ('multipoint', 'int64', [[2**53, 2**53, 2**53, 2**53]], 'zero-extent-at-2^53'),
    ('polygon', 'float64', [[[1e300, -1e300, 1e300, -1e300, 1e300, -1e300]]], 'zero-extent-at-1e300'),
    # the witnesses of the two seeded changes that led to this module
    ('point', 'int32', [[16777217, 3], [5, 20037507], None, [19999999, 19999999]], 'int32-beyond-2^24'),
    ('line', 'uint32', [[1, 2, 16777217, 20037507], None, [4294967295, 5, 7, 2147483649]], 'uint32-beyond-2^24'),
    ('point', 'float64', [[-122.98496724190852, 37.05984489207112], [-122.02171459483341, 37.99089120359836]],
     'lonlat-17-digits'),
]
def wide_arrays(rep, tier, agree, la_fn, fa_fn, imports, res_ty):
    rng = rep.rng
    scale = getattr(rep, 'scale', 1)
    reps_of = {'float64': 16, 'float32': 8}
    mult = scale if tier == 'quick' else 15
    batches = {'listarr': ([], [], []), 'fixarr': ([], [], [])}
    nagree = 0
    todo = [(kind, st, r, None) for kind in G.KINDS for st in ALL_SUBTYPES
            for r in range(reps_of.get(st, 5) * mult)]
    for kind, st, r, fixed in [(c[0], c[1], 0, c) for c in CORPUS] + todo:
        if fixed is not None:
            cls, els = 'corpus:' + fixed[3], fixed[2]
        else:
            n = rng.choice([1, 2, 3, 5, 8])
            cls, els = wide_elements(rng, kind, st, n)
        try:
            arr = G.make_array(kind, els, st)
        except Exception as e:
            rep.count('wide:construct_error:' + type(e).__name__)
            continue
        arr, desc = G.derive(rng, arr, 0 if fixed is not None else rng.randint(0, 2))
        if str(arr.data.type) == 'null':
            rep.count('null_typed_skipped')
            continue
        try:
            rec, k = export_exact(arr, kind)
        except ValueError:
            rep.count('null_typed_skipped')
            continue
        meta = {'kind': kind, 'subtype': st, 'elements': els, 'derivation': desc, 'wide': cls}
        res = impl_all_exact(arr, k)
        rep.evaluations += 1
        rep.count(f'wide:{st}')
        rep.count(f'wide-pool:{cls}')
        if any(c is not None and math.isfinite(c) for e in els for c in G.flat_coords(e)):
            rep.nontrivial(('wide', kind, st, repr(rec)))
        if isinstance(res, tuple) and res[0] == 'raised':
            rep.violation(f'raises:{kind}:{res[1]}',
                          f'{kind}[{st}] bounds/total_bounds raised {res[1]}: {res[2]}',
                          {**meta, 'impl': res})
            continue
        if isinstance(res, tuple):
            rep.violation(f'bounds-differ:{kind}',
                          f'{kind}[{st}] bounds/total_bounds report {res[1]}, which is not a coordinate '
                          f'of the array (coordinates drawn from the whole range of {st}: {cls})',
                          {**meta, 'impl': res[2]})
            continue
        rep.sample({**meta, 'impl_scaled_by_2^k': res, 'k': k}, cap=6)
        ty = 'fixarr' if kind == 'point' else 'listarr'
        batches[ty][0].append(rec); batches[ty][1].append(res); batches[ty][2].append(meta)
        if r == 0 or (st == 'float64' and r == 1):
            nagree += 1
            agree(rep, arr, meta)
    for ty, fn in (('listarr', la_fn), ('fixarr', fa_fn)):
        cases, ress, metas = batches[ty]
        bad = C.coq_mismatches(imports, fn, ty, res_ty, cases, ress, shard=40)
        for i in bad[:12]:
            model = C.coq_eval(imports, f'({fn}) {C.coq(cases[i])}')
            m = metas[i]
            rep.violation(f"bounds-differ:{m['kind']}",
                          f"{m['kind']}[{m['subtype']}] bounds/total_bounds differ from the proven model on "
                          f"coordinates drawn from the whole range of the subtype ({m['wide']}); numbers are "
                          'scaled by a power of two to integers',
                          {**m, 'impl_scaled': ress[i], 'model_scaled': model})
    rep.extra['wide_arrays'] = sum(len(b[0]) for b in batches.values())
    rep.extra['wide_agreement_checks'] = nagree


# --------------------------------------------------------------------------
# (2) Dask frames of every provenance
# --------------------------------------------------------------------------
PROVENANCES = ['persist', 'warm-getitem', 'to_parquet+read', 'pack_partitions',
               'pack_to_parquet', 'pack_to_parquet+read']      # from_pandas: c13.agree on every array
BOX_IMPORTS = 'Model.Num Model.Bounds Model.DaskModel'


def dask_raise_signature(kind, st, arr, e, where):
    """one situation met on the unmodified tree has its own stable signature (a recorded KNOWN
    finding, emitted on every run by a corpus case); anything else is the generic
    dask-raises:<where>:<exception>"""
    name = type(e).__name__
    if kind != 'point' and st == 'uint64' and name == 'OverflowError':
        with np.errstate(all='ignore'), warnings.catch_warnings():
            warnings.simplefilter('ignore')
            b = np.asarray(arr.bounds, dtype='float64')
            if b.size and not np.isnan(b).all() and np.nanmax(b) >= 2.0 ** 63:
                # arr[i] of a list-backed uint64 array raises for an element with a coordinate
                # >= 2^63 (the scalar is rebuilt by pa.array([data]), which infers int64); Dask
                # tokenises a series through np.asarray(arr), i.e. arr[i]
                return 'dask-raises:uint64-element>=2^63:OverflowError'
    return f'dask-raises:{where}:{name}'


def _same(a, b):
    a = np.asarray(a, dtype='float64'); b = np.asarray(b, dtype='float64')
    return a.shape == b.shape and bool(np.all((a == b) | (np.isnan(a) & np.isnan(b))))


def _fl(a):
    return [float(v) for v in np.asarray(a, dtype='float64').ravel()]


def make_frame_spec(rng, tier, first=False):
    kind = rng.choice(G.KINDS)
    st = 'float64' if first else \
        rng.choice(['float64', 'float64', 'float64', 'float64', 'float32', 'int32', 'uint32', 'int64', 'int16'])
    # both sides of the 10 / 11 partitions of the read path at least once per run
    nparts = rng.choice([11, 12]) if first else rng.choice([1, 2, 3, 3, 4, 5, 10, 11])
    n = rng.randint(max(nparts, 2), max(nparts, 2) + rng.choice([0, 3, 10, 30]))
    cls, els = wide_elements(rng, kind, st, n, missing_p=rng.choice([0, 0.1, 0.3]))
    # sometimes a run of rows without extent: at least one input partition has NaN bounds
    if rng.random() < 0.35 and n >= 2 * nparts and nparts > 1:
        per = -(-n // nparts)
        a = per * rng.randrange(nparts)
        for i in range(a, min(n, a + per)):
            els[i] = None if rng.random() < 0.7 or kind == 'point' else []
        cls += '+void-partition'
    if not any(c is not None and math.isfinite(c) for e in els for c in G.flat_coords(e)):
        els[0] = map_coords(G.rand_element(rng, kind, lo=0, hi=1, missing_p=0, empty_p=0), [1, 2])
    return {'kind': kind, 'subtype': st, 'elements': els, 'npartitions': nparts, 'wide': cls,
            'pack_npartitions': rng.choice([1, 2, 3, 11]), 'p': rng.choice([4, 10, 15])}


def build_provenances(spec, tmp, which=None):
    """{provenance: thunk -> Dask frame} for the pandas frame of the spec"""
    import dask.dataframe as dd
    from spatialpandas import GeoDataFrame, GeoSeries
    from spatialpandas.io import read_parquet_dask
    arr = G.make_array(spec['kind'], spec['elements'], spec['subtype'])
    gdf = GeoDataFrame({'geometry': GeoSeries(arr), 'pos': np.arange(len(arr), dtype='int64')})
    ddf = dd.from_pandas(gdf, npartitions=spec['npartitions'])
    k, p = spec['pack_npartitions'], spec['p']

    def warm_getitem():
        f = dd.from_pandas(gdf, npartitions=spec['npartitions'])
        f.geometry.total_bounds
        f.partition_sindex          # frame-level caches
        return f[['geometry', 'pos']]

    def persisted():
        f = dd.from_pandas(gdf, npartitions=spec['npartitions'])
        f.partition_sindex          # what persist() hands on
        return f.persist()

    def tp_read():
        ddf.to_parquet(f'{tmp}/tp.parq')
        return read_parquet_dask(f'{tmp}/tp.parq')

    def pack_pq():
        return ddf.pack_partitions_to_parquet(f'{tmp}/pk.parq', npartitions=k, p=p)

    def pack_pq_read():       # the dataset pack_pq wrote (written here when replayed alone)
        import os
        if not os.path.exists(f'{tmp}/pk.parq'):
            pack_pq()
        return read_parquet_dask(f'{tmp}/pk.parq')
    thunks = {'persist': persisted,
              'warm-getitem': warm_getitem,
              'to_parquet+read': tp_read,
              'pack_partitions': lambda: ddf.pack_partitions(npartitions=k, p=p),
              'pack_to_parquet': pack_pq,
              'pack_to_parquet+read': pack_pq_read}
    return arr, {name: t for name, t in thunks.items() if which is None or name in which}


def check_frame(rep, spec, prov, f, arr, box_cases, box_res, box_meta):
    """the Dask quantities of frame f against the pandas array arr; returns #violations added"""
    import dask
    nv0 = len(rep.violations)
    b = np.asarray(arr.bounds, dtype='float64')
    tb = np.asarray(arr.total_bounds, dtype='float64')
    meta = {k: spec[k] for k in ('kind', 'subtype', 'elements', 'npartitions', 'pack_npartitions', 'p', 'wide')}
    meta = {**meta, 'dask': True, 'provenance': prov}
    s = f.geometry
    with warnings.catch_warnings():
        warnings.simplefilter('ignore')
        dtb = np.asarray(s.total_bounds, dtype='float64')
        pb = s.partition_bounds
    pbv = np.asarray(pb.values, dtype='float64')
    if not _same(dtb, tb):
        rep.violation(f'dask-total-bounds:{prov}',
                      f'DaskGeoSeries.total_bounds of a frame obtained by {prov} differs from the total_bounds '
                      'of the geometries it holds',
                      {**meta, 'array_total_bounds': _fl(tb), 'dask_total_bounds': _fl(dtb)})
    c09 = False
    if prov == 'pack_partitions' and list(pb.columns) == ['x0', 'y0', 'x1', 'y1'] and pbv.shape[0] < f.npartitions:
        # known findings of C09 (partition-count, compute-raises:AssertionError): with equal Hilbert
        # keys Dask's set_index yields fewer real partitions than .npartitions reports.  Not a
        # statement about bounds: total_bounds and the combination are still compared.
        rep.count('pack_partitions:fewer-real-partitions (C09 known)')
        c09 = True
    elif list(pb.columns) != ['x0', 'y0', 'x1', 'y1'] or pbv.shape != (f.npartitions, 4):
        rep.violation(f'dask-partition-bounds:{prov}', 'partition_bounds has not one (x0, y0, x1, y1) row per partition',
                      {**meta, 'columns': [str(c) for c in pb.columns], 'shape': list(pbv.shape),
                       'npartitions_out': f.npartitions})
        return len(rep.violations) - nv0
    try:
        parts = [] if c09 else dask.compute(*f.to_delayed())
    except AssertionError:
        if prov != 'pack_partitions':
            raise
        rep.count('pack_partitions:compute-raises (C09 known)')
        parts, c09 = [], True
    pos, rows = [], []
    for i, part in enumerate(parts):
        g = part.geometry
        with warnings.catch_warnings():
            warnings.simplefilter('ignore')
            ptb = np.asarray(g.total_bounds, dtype='float64')
        if not _same(pbv[i], ptb):
            rep.violation(f'dask-partition-bounds:{prov}',
                          f'row {i} of partition_bounds of a frame obtained by {prov} is not the total_bounds of '
                          f'partition {i}, so elements lie outside the bounds of their partition',
                          {**meta, 'partition': i, 'partition_bounds_row': _fl(pbv[i]),
                           'partition_total_bounds': _fl(ptb)})
            break
        pos.extend(int(v) for v in part['pos'].values)
        rows.append(np.asarray(g.bounds.values, dtype='float64').reshape(-1, 4))
    else:
        rows = np.concatenate(rows) if rows else np.zeros((0, 4))
        if c09:
            pos, rows = list(range(len(arr))), b
        if sorted(pos) != list(range(len(arr))) or not _same(rows, b[pos]):
            rep.violation(f'dask-bounds-rows:{prov}',
                          f'the rows of the partitions of a frame obtained by {prov} / their bounds are not those '
                          'of the pandas frame', {**meta, 'positions': pos})
        db = rows if c09 else np.asarray(s.bounds.compute().values, dtype='float64')
        if not _same(db, rows):
            rep.violation(f'dask-bounds-rows:{prov}', 'DaskGeoSeries.bounds.compute() differs from the bounds of the '
                          'partitions', meta)
    if not np.isnan(pbv).any():
        for label, get in (('series', lambda: s.partition_sindex), ('frame', lambda: f.partition_sindex)):
            stb = np.asarray(get().total_bounds, dtype='float64')
            if not _same(stb, dtb):
                rep.violation(f'dask-partition-sindex:{prov}',
                              f'partition_sindex.total_bounds ({label}) differs from total_bounds',
                              {**meta, 'sindex_total_bounds': _fl(stb), 'dask_total_bounds': _fl(dtb)})
                break
    # the combination itself against Model/DaskModel.v box_total, in the kernel
    fin = [v for v in list(pbv.ravel()) + list(dtb) if math.isfinite(v)]
    k = max([_dy_exp(v) for v in fin], default=0)
    box_cases.append([tuple(znum(v, k) for v in row) for row in pbv.tolist()])
    try:
        box_res.append(tuple(znum(v, k) for v in dtb))
    except NotACoordinate:
        box_res.append((C.Some(0), None, None, None))   # cannot be equal: caught by the comparison
    box_meta.append({**meta, 'partition_bounds': pbv.tolist(), 'dask_total_bounds': _fl(dtb)})
    return len(rep.violations) - nv0


def dask_provenances(rep, tier, specs=None, which=None):
    rng = rep.rng
    scale = getattr(rep, 'scale', 1)
    if specs is None:
        specs = [make_frame_spec(rng, tier, first=(i == 0)) for i in range(12 * scale if tier == 'quick' else 150)]
    box_cases, box_res, box_meta = [], [], []
    nframes = 0
    for spec in specs:
        tmp = tempfile.mkdtemp(prefix='c13_dask_')
        try:
            try:
                arr, thunks = build_provenances(spec, tmp, which)
            except Exception as e:
                rep.count('dask:construct_error:' + type(e).__name__)
                continue
            for prov, thunk in thunks.items():
                try:
                    f = thunk()
                    check_frame(rep, spec, prov, f, arr, box_cases, box_res, box_meta)
                except Exception as e:
                    if prov == 'pack_partitions' and isinstance(e, AssertionError) and not str(e):
                        rep.count('pack_partitions:compute-raises (C09 known)')
                        continue
                    sig = dask_raise_signature(spec['kind'], spec['subtype'], arr, e, prov)
                    rep.violation(sig, f'building a Dask frame by {prov} or reading its bounds raised {e!r}'[:300],
                                  {**{k: v for k, v in spec.items()}, 'dask': True, 'provenance': prov,
                                   'error': repr(e)[:300]})
                    if not sig.startswith(f'dask-raises:{prov}:'):
                        break       # a property of the (kind, subtype): the same in every provenance
                    continue
                nframes += 1
                rep.evaluations += 1
                rep.count(f'dask:{prov}')
                rep.count(f"dask-npartitions:{spec['npartitions']}")
                rep.nontrivial(('dask', prov, spec['kind'], spec['subtype'], repr(spec['elements'])))
        finally:
            shutil.rmtree(tmp, ignore_errors=True)
    bad = C.coq_mismatches(BOX_IMPORTS, 'box_total', 'list bbox', 'bbox', box_cases, box_res)
    for i in bad[:6]:
        m = box_meta[i]
        rep.violation(f"dask-combination:{m['provenance']}",
                      'DaskGeoSeries.total_bounds is not the NaN-ignoring min / max of partition_bounds '
                      '(Model/DaskModel.v box_total)', m)
    rep.extra['dask_frames'] = nframes
