"""C15 — oriented() normalises ring direction without changing the shape.

Correspondence: PolygonArray.oriented() / MultiPolygonArray.oriented(), applied once and
twice, on real arrays (all 2^rings winding patterns x structures with degenerate / zero-area /
<3-vertex / empty rings, 0-3 parts, missing anywhere, sliced / taken buffers, 5 subtypes),
against Model/Orient.v evaluated by the Coq kernel on the exported buffers (missing mask,
offsets per level, whole values buffer).  Independently of the model the harness checks on
the real results: input buffers byte-identical before/after, structure, every ring the same
or exactly reversed, orientation signs by exact integer shoelace, idempotence, |area| per
ring, and that intersects_bounds / point-intersects answers do not change for polygons whose
holes are wound opposite to their shell (for a hole wound the same way as its shell they do
change: signature oriented-changes-intersects:same-wound-hole).

Coordinates that are not small integers -- tiny / huge / many-digit floats, integers at the edge
of their dtype and beyond 2^53 -- are the business of harness/c15_float.py (binary64 model
Model/FloatOrient.v, exact comparison of values, exact rational oracles), run from run() below.
"""
import itertools
import math

import numpy as np

from . import common as C
from . import geomgen as G
from . import c14_util as U
from . import c15_float as X

ANCHOR_FILES = ['spatialpandas/geometry/_algorithms/orientation.py',
                'spatialpandas/geometry/_algorithms/measures.py',
                'spatialpandas/geometry/polygon.py', 'spatialpandas/geometry/multipolygon.py',
                'spatialpandas/geometry/baselist.py']
TRUSTED = ['float64 evaluation of compute_area on integer-valued coordinates is exact (sign and '
           'zero test of the ring areas; validated by the correspondence run)',
           'numpy strided slice assignment (values[a:b:2] = xs[::-1]) as transcribed in Model/Orient.v',
           'pyarrow ListArray.from_arrays(offsets with mask) as transcribed: validity = not isna, '
           'offset 0, the offsets arrays passed',
           'pyarrow buffers() of arr.__arrow_array__() (harness/c14_util.py export_la / decode)',
           'np.float64(values[i]) of a signed-integer buffer rounds to nearest even (Model/FloatOrient.v f_of_Z = '
           'PrimFloat.of_uint63 of the magnitude); numba emits plain IEEE-754 binary64 operations in source order '
           '(validated bit for bit by this run and by C14)']

IMPORTS = 'Model.Num Model.Arrow Model.Measures Model.Orient Spec.MeasuresSpec'
# Only PUBLIC observations can raise an alarm: the DECODED elements (parts, rings, vertices,
# missing mask), class, dtype and length of oriented() / oriented().oriented(), the bytes of the
# input's buffers before / after, .area, intersects_bounds / intersects.  The buffer layout of
# the result (offsets, values buffer incl. rings outside a slice) is an optional internal extra.
# The model is compared with the code on arrays inside the property's scope (every ring of >= 3
# vertices finite and closed); arrays with NaN-vertex or unclosed rings are an internal extra.
DEC = 'list (option (list (list (list num))))'
VIEW = '(list bool * list (list nat) * list num)'
FN = ("fun '(k, a) => if wf_listarr a && even_inner a then "
      "Some (decode_elems k (oriented k a), decode_elems k (oriented k (oriented k a))) else None")
CASE_TY = 'kind * listarr'
RES_TY = f'option ({DEC} * {DEC})'
INT_FN = "fun '(k, a) => oriented_views k a"
INT_RES = f'{VIEW} * {VIEW}'


class Ctx:
    def __init__(self):
        self.main = U.Batch(IMPORTS, FN, CASE_TY, RES_TY)
        self.oos = U.Batch(IMPORTS, FN, CASE_TY, RES_TY, internal='oriented-out-of-scope-rings')
        self.layout = U.Batch(IMPORTS, INT_FN, CASE_TY, INT_RES, internal='oriented-buffer-layout')

    def flush(self, rep):
        for b in (self.main, self.oos, self.layout):
            b.flush(rep)


def area2_code(r):
    """2 * compute_area of one ring, in Python integers (NaN if a read value is NaN)"""
    n = len(r)
    if n < 6:
        return 0
    vals = [r[k + 2] * (r[k + 5] - r[k + 1]) for k in range(0, n - 4, 2)]
    vals.append(r[0] * (r[3] - r[n - 3]))
    if any(isinstance(v, float) and math.isnan(v) for v in vals):
        return U.NAN
    return sum(vals)


def _same_arr(a, b):
    a = np.asarray(a, dtype='float64')
    b = np.asarray(b, dtype='float64')
    return a.shape == b.shape and bool(np.all((a == b) | (np.isnan(a) & np.isnan(b))))


def polygons_of(kind, el):
    """the polygons (lists of rings) of a decoded element"""
    if el is None:
        return None
    return [el] if kind == 'polygon' else list(el)


def ring_ok(r):
    """inside the property's scope: finite, and closed or < 3 vertices"""
    return all(U._fin(v) for v in r) and (len(r) < 6 or r[:2] == r[-2:])


def pts(r):
    return list(zip(r[0::2], r[1::2]))


def check_oriented(rep, batch, kind, st, els, nder=0, desc=None, intersections=False):
    rng = rep.rng
    try:
        arr = G.make_array(kind, els, st) if desc is None else U.rebuild(kind, st, els, desc)
    except Exception as e:
        rep.count('construct_error:' + type(e).__name__)
        return
    if desc is None:
        arr, desc = G.derive(rng, arr, nder)
    meta = {'kind': kind, 'subtype': st, 'elements': els, 'derivation': desc}
    if desc:
        rep.count('derived')
    check_oriented_arr(rep, batch, kind, st, arr, meta, intersections)


def check_oriented_arr(rep, batch, kind, st, arr, meta, intersections=False):
    """all C15 checks on one real array (however it was obtained)"""
    if str(U.pa_of(arr).type) == 'null':
        rep.count('null_typed_skipped')
        return
    try:
        rec = U.export_la(arr)
    except ValueError:
        rep.count('null_typed_skipped')
        return
    rep.evaluations += 1
    rep.count(kind)
    if U.pa_of(arr).offset:
        rep.count('nonzero_offset')
    before = U.buffers_bytes(arr)
    dec = U.decode(arr)
    try:
        area0 = np.array(arr.area)
        o1 = arr.oriented()
        o2 = o1.oriented()
        o1b = arr.oriented()          # the input stays usable: orienting it again gives the same
        area1 = np.array(arr.area)
    except Exception as e:
        rep.violation(f'raises:{kind}-oriented:{type(e).__name__}', 'oriented() raised', meta)
        return
    if not U._nan_eq(U.decode(o1b), U.decode(o1)) or not _same_arr(area0, area1):
        rep.violation(f'oriented-input-state:{kind}',
                      'calling oriented() changed what the input object answers (second oriented() '
                      'or .area differ)', meta)
    # ---- input unchanged
    if U.buffers_bytes(arr) != before or not U._nan_eq(U.decode(arr), dec):
        rep.violation(f'oriented-mutates-input:{kind}', 'oriented() changed the buffers of its input', meta)
    if type(o1) is not type(arr) or o1.dtype != arr.dtype or len(o1) != len(arr):
        rep.violation(f'oriented-type:{kind}', 'oriented() changed class / dtype / length',
                      {**meta, 'got': [type(o1).__name__, str(o1.dtype), len(o1)]})
        return
    # ---- model = code, on the decoded elements
    K = C.Raw(U.KIND_CTOR[kind])
    if U.is_null_typed(U.pa_of(o1)) or U.is_null_typed(U.pa_of(o2)):
        rep.count('null_typed_skipped')
        return
    d1, d2 = U.decode(o1), U.decode(o2)
    all_ok = all(ring_ok(r) for d in dec if d is not None for p in polygons_of(kind, d) for r in p)
    (batch.main if all_ok else batch.oos).add(
        (K, rec), C.Some((U.coq_decoded(kind, d1), U.coq_decoded(kind, d2))),
        f'oriented-differs:{kind}', f'{kind}.oriented() (once, twice) differs from the model', meta)
    try:
        batch.layout.add((K, rec), (U.view_of(o1), U.view_of(o2)), '', '', meta)
    except Exception:
        rep.count('internal-unavailable:oriented-buffer-layout')
    # ---- properties on the real result, by exact integer arithmetic
    polys0 = [polygons_of(kind, d) for d in dec]
    polys1 = [polygons_of(kind, d) for d in d1]
    nflip = 0
    in_scope = True
    for i, (p0, p1) in enumerate(zip(polys0, polys1)):
        if (p0 is None) != (p1 is None):
            rep.violation(f'oriented-missing:{kind}', 'missing element not preserved', {**meta, 'row': i})
            return
        if p0 is None:
            continue
        if len(p0) != len(p1) or any(len(a) != len(b) for a, b in zip(p0, p1)) \
                or any(len(r) != len(s) for a, b in zip(p0, p1) for r, s in zip(a, b)):
            rep.violation(f'oriented-structure:{kind}', 'parts / rings / vertex counts not preserved',
                          {**meta, 'row': i, 'after': d1[i]})
            return
        for poly0, poly1 in zip(p0, p1):
            for j, (r, s) in enumerate(zip(poly0, poly1)):
                same = U._nan_eq(r, s)
                rev = U._nan_eq(U.flat(pts(r)[::-1]), s)
                if not (same or rev):
                    rep.violation(f'oriented-ring-changed:{kind}',
                                  'a ring is neither kept nor exactly reversed',
                                  {**meta, 'row': i, 'ring': r, 'after': s})
                    return
                if not same:
                    nflip += 1
                if not ring_ok(r):
                    in_scope = False
                    rep.count('nan_ring' if not all(U._fin(v) for v in r) else 'unclosed_ring')
                    continue
                a0, a1 = area2_code(r), area2_code(s)
                if abs(a0) != abs(a1):
                    rep.violation(f'oriented-area-magnitude:{kind}', '|ring area| changed',
                                  {**meta, 'row': i, 'ring': r, 'after': s})
                if j == 0 and a0 != 0 and not a1 > 0:
                    rep.violation(f'oriented-shell-not-ccw:{kind}',
                                  'a shell of non-zero area is not counter-clockwise after oriented()',
                                  {**meta, 'row': i, 'ring': r, 'after': s})
                if j > 0 and not a1 <= 0:
                    rep.violation(f'oriented-hole-not-cw:{kind}',
                                  'a hole is counter-clockwise after oriented()',
                                  {**meta, 'row': i, 'ring': r, 'after': s})
                if a0 == 0 and not same:
                    rep.violation(f'oriented-flips-zero-area:{kind}', 'a zero-area ring was reversed',
                                  {**meta, 'row': i, 'ring': r, 'after': s})
    if nflip:
        rep.nontrivial((kind, st, repr(rec)))
        rep.count('some_ring_flipped')
    if in_scope:
        rep.count('in_scope')
        if not U._nan_eq(d1, d2):
            rep.violation(f'oriented-not-idempotent:{kind}', 'oriented().oriented() != oriented()',
                          {**meta, 'once': d1, 'twice': d2})
        # valid polygons: total area = |shell| - sum |holes| when that is what the input says
        A1 = np.asarray(o1.area)
        for i, p1 in enumerate(polys1):
            if p1 is None:
                if not math.isnan(A1[i]):
                    rep.violation(f'oriented-missing:{kind}', 'area of a missing element is not NaN', meta)
                continue
            want = sum((abs(area2_code(poly[0])) - sum(abs(area2_code(h)) for h in poly[1:]))
                       if poly else 0 for poly in p1)
            if 2 * A1[i] != want:
                rep.violation(f'oriented-area:{kind}',
                              f'area after oriented() {A1[i]!r} != (|shell| - sum|holes|)/2 = {want}/2',
                              {**meta, 'row': i})
    else:
        rep.count('out_of_scope_rings')
    if intersections:
        check_intersections(rep, kind, arr, o1, polys0, meta)


# ---------------------------------------------------------------------------
# intersections before / after
# ---------------------------------------------------------------------------
_GRID = None


def _grid():
    global _GRID
    if _GRID is None:
        from spatialpandas.geometry import PointArray
        cs = [c / 2.0 for c in range(-2, 2 * 66)]
        xs = [c / 2.0 for c in range(-2, 2 * 66, 3)]
        ys = [c / 2.0 for c in range(-2, 2 * 14)]
        P = [(x, y) for x in xs for y in ys]
        _GRID = (PointArray(np.array(P, dtype='float64')), P)
    return _GRID


def wound_class(polys):
    """'opposite' when in every polygon the shell has non-zero area and every hole has zero
    area or the opposite sign; 'same' when some hole has the sign of its shell; else 'other'"""
    cls = 'opposite'
    for poly in polys:
        if not poly:
            continue
        if not all(ring_ok(r) for r in poly):
            return 'other'
        s = area2_code(poly[0])
        hs = [area2_code(h) for h in poly[1:]]
        if any(h != 0 and (h > 0) == (s > 0) and s != 0 for h in hs):
            return 'same'
        if s == 0 and any(h != 0 for h in hs):
            cls = 'other'
    return cls


def check_intersections(rep, kind, arr, o1, polys0, meta):
    rng = rep.rng
    P, coords = _grid()
    boxes = []
    for _ in range(40):
        x0, y0 = rng.randint(-2, 130) / 2.0, rng.randint(-2, 28) / 2.0
        w, h = rng.choice([0, 0.5, 1, 2, 5, 30]), rng.choice([0, 0.5, 1, 2, 5])
        boxes.append((x0, y0, x0 + w, y0 + h))
    for i in range(len(arr)):
        if polys0[i] is None:
            continue
        cls = wound_class(polys0[i])
        # overlapping parts of opposite windings are outside "valid" too: parts are generated disjoint
        e0, e1 = arr[i], o1[i]
        diff = None
        r0, r1 = P.intersects(e0), P.intersects(e1)
        if not np.array_equal(r0, r1):
            k = int(np.nonzero(r0 != r1)[0][0])
            diff = ('point', list(coords[k]), bool(r0[k]), bool(r1[k]))
        else:
            for b in boxes:
                b0, b1 = e0.intersects_bounds(b), e1.intersects_bounds(b)
                if bool(b0) != bool(b1):
                    diff = ('box', list(b), bool(b0), bool(b1))
                    break
        rep.count(f'intersections:{cls}')
        if diff is None:
            continue
        info = {**meta, 'row': i, 'element': U.decode(arr)[i], 'oriented': U.decode(o1)[i],
                'probe': diff[0], 'at': diff[1], 'before': diff[2], 'after': diff[3]}
        if cls == 'opposite':
            rep.violation(f'oriented-changes-intersects:{kind}',
                          f'{diff[0]} {diff[1]}: intersects {diff[2]} before, {diff[3]} after oriented() '
                          '(holes wound opposite to their shell)', info)
        elif cls == 'same':
            rep.violation('oriented-changes-intersects:same-wound-hole',
                          f'{diff[0]} {diff[1]}: intersects {diff[2]} before, {diff[3]} after oriented() '
                          'for a polygon with a hole wound the same way as its shell', info)
        else:
            rep.count('intersections_changed:degenerate-shell')
    # array-level intersects_bounds on the same boxes
    if all(p is None or wound_class(p) == 'opposite' for p in polys0):
        for b in boxes[:10]:
            if not np.array_equal(arr.intersects_bounds(b), o1.intersects_bounds(b)):
                rep.violation(f'oriented-changes-intersects:{kind}',
                              f'array intersects_bounds{b} changed by oriented()', {**meta, 'box': list(b)})
                break


# ---------------------------------------------------------------------------
# enumeration
# ---------------------------------------------------------------------------
def base_rings():
    """(windable rings in ccw form, degenerate rings)"""
    windable = [
        [(0, 0), (3, 0), (3, 4), (0, 0)],
        [(0, 0), (2, 0), (2, 2), (0, 2), (0, 0)],
        [(1, 0), (3, 1), (2, 3), (0, 2), (1, 0)],
        [(0, 0), (4, 0), (4, 1), (1, 1), (1, 3), (0, 3), (0, 0)],      # L-shape, 7 vertices
    ]
    degenerate = [
        [], [(1, 2)], [(1, 1), (2, 3)], [(0, 0), (2, 1), (0, 0)],
        [(1, 1), (2, 2), (3, 3), (1, 1)],                                # the D6 ring
        [(0, 0), (2, 2), (2, 0), (0, 2), (0, 0)],                        # bow-tie: zero area
        [(0, 0), (4, 0), (2, 0), (1, 0), (0, 0)],                        # collinear, 5 vertices
    ]
    return windable, degenerate


def polygon_space(rng, quick, nrings=(0, 1, 2, 3), extra=()):
    """every structure of ring shapes x every winding pattern of its windable rings"""
    w, d = base_rings()
    shapes = [('w', r) for r in w] + [('d', r) for r in d] + [('d', r) for r in extra]
    out = []
    for n in nrings:
        structs = list(itertools.product(shapes, repeat=n))
        if n == 3 and quick:
            structs = rng.sample(structs, 150)
        for stc in structs:
            widx = [i for i, (t, _) in enumerate(stc) if t == 'w']
            for pat in itertools.product((False, True), repeat=len(widx)):
                rings = [list(r) for _, r in stc]
                for i, rev in zip(widx, pat):
                    if rev:
                        rings[i] = rings[i][::-1]
                out.append([U.flat(r) for r in rings])
    return out


def out_of_scope_rings():
    return [[(0, 0), (2, 0), (1, 2)], [(0, 0), (3, 0), (3, 4), (5, 5)],        # unclosed
            [(0, 0), (U.NAN, 0), (3, 4), (0, 0)], [(0, 0), (3, 0), (3, 4), (U.NAN, 0)]]


def valid_polygon(shell_rev, hole_revs, dx):
    """a 12x12 square shell at x-offset dx with small square / triangular holes inside"""
    shell = [(0, 0), (12, 0), (12, 12), (0, 12), (0, 0)]
    holes = [[(2, 2), (2, 5), (5, 5), (5, 2), (2, 2)],          # cw
             [(7, 2), (7, 4), (10, 2), (7, 2)],                  # cw
             [(2, 7), (3, 10), (6, 8), (2, 7)]]                  # cw
    rings = [shell[::-1] if shell_rev else shell]
    for h, rev in zip(holes, hole_revs):
        rings.append(h[::-1] if rev else h)
    return [U.flat([(x + dx, y) for x, y in r]) for r in rings]


def gen(rep, tier):
    rng = rep.rng
    quick = tier == 'quick'
    # (0) corpus: witnesses of repaired defects
    corpus = [
        ('polygon', 'float64', [[[0, 0, 2, 0, 2, 2, 0, 2, 0, 0], [1, 1, 2, 2, 3, 3, 1, 1]]], []),   # D6
        ('polygon', 'float64', [[[0, 0, 1, 0, 1, 1, 0, 0]], []], []),          # last polygon empty
        ('multipolygon', 'float64', [[[[0, 0, 1, 0, 1, 1, 0, 0]], []]], []),   # last polygon empty
        ('polygon', 'float64', [[[0, 0, 0, 2, 2, 2, 2, 0, 0, 0]], None, [[5, 5, 6, 8, 7, 5, 5, 5]], []],
         [('slice', 1, 4)]),
        ('multipolygon', 'int32', [[[[0, 0, 0, 2, 2, 2, 0, 0]]], None, [[[5, 5, 6, 8, 7, 5, 5, 5]], []]],
         [('slice', 2, 3)]),
    ]
    for kind, st, els, desc in corpus:
        yield kind, st, els, desc, False
    # (a) polygons: every structure of 0..3 rings x every winding pattern
    for st in G.SUBTYPES:
        isf = st.startswith('float')
        extra = out_of_scope_rings() if isf else out_of_scope_rings()[:2]
        space = polygon_space(rng, quick, extra=extra if st in ('float64', 'int64') else ())
        if st not in ('float64',):
            space = rng.sample(space, len(space) // (10 if quick else 2))
        for i in range(0, len(space), 3):
            els = space[i:i + 3]
            if rng.random() < 0.5:
                els.insert(rng.randint(0, len(els)), None)
            if rng.random() < 0.2:
                els.insert(rng.randint(0, len(els)), [])
            yield 'polygon', st, els, rng.choice([0, 0, 1, 2]), False
    # (b) multipolygons: 0..3 parts of polygons with 0..2 rings
    w, d = base_rings()
    polys = polygon_space(rng, quick, nrings=(0, 1))
    two = polygon_space(rng, quick, nrings=(2,))
    polys = polys + rng.sample(two, 40)
    for st in G.SUBTYPES:
        nm = (1200 if st == 'float64' else 150) if quick else (30000 if st == 'float64' else 6000)
        for _ in range(nm // 3):
            els = []
            for _ in range(3):
                els.append([rng.choice(polys) for _ in range(rng.choice([0, 1, 1, 2, 2, 3]))])
            if rng.random() < 0.5:
                els.insert(rng.randint(0, len(els)), None)
            yield 'multipolygon', st, els, rng.choice([0, 0, 1, 2]), False
    # (c) valid shapes (holes inside the shell, parts disjoint): intersections before / after.
    #     every one of the 2^(1+holes) winding patterns (the patterns with a hole wound like its
    #     shell are the known same-wound finding) ...
    sts = ['float64', 'float64', 'float32', 'int64', 'int32', 'int16']
    for nh in (0, 1, 2, 3):
        for pat in itertools.product((False, True), repeat=1 + nh):
            p = valid_polygon(pat[0], pat[1:], 0)
            yield 'polygon', rng.choice(sts), [p, None, valid_polygon(not pat[0], pat[1:], 0)], 0, True
            q = valid_polygon(pat[0], tuple(not x for x in pat[1:]), 20)
            r = valid_polygon(pat[0], pat[1:], 40)
            yield 'multipolygon', rng.choice(sts), [[p, q], None, [p], [p, q, r]], rng.choice([0, 1]), True
    #     ... and multipolygons all of whose parts have their holes opposite to their shell, the
    #     parts wound independently (2^parts patterns x hole counts)
    for nparts in (1, 2, 3):
        for srev in itertools.product((False, True), repeat=nparts):
            for nhs in itertools.product((0, 1, 3), repeat=nparts):
                if nparts == 3 and quick and rng.random() < 0.6:
                    continue
                parts = [valid_polygon(sr, (sr,) * nh, 20 * k)
                         for k, (sr, nh) in enumerate(zip(srev, nhs))]
                yield 'multipolygon', rng.choice(sts), [[parts[0]], parts, None], rng.choice([0, 1]), True
                if nparts == 1:
                    yield 'polygon', rng.choice(sts), [parts[0], None, parts[0]], rng.choice([0, 1]), True
    # (d) random structured stream
    nrand = 60 if quick else 800
    for kind in ('polygon', 'multipolygon'):
        for st in G.SUBTYPES:
            for _ in range(nrand):
                n = rng.choice([0, 1, 2, 3, 5])
                hi = rng.choice([6, 6, 100])
                els = G.rand_elements(rng, kind, n, lo=-hi, hi=hi, nmax=6)
                els = [_close(e) for e in els]
                yield kind, st, els, rng.randint(0, 3), False


def _close(e):
    if e is None:
        return None
    if e and isinstance(e[0], list):
        return [_close(x) for x in e]
    return list(e) + list(e[:2]) if len(e) >= 2 else list(e)


# ---------------------------------------------------------------------------
# histories: arrays assembled from already-oriented and un-oriented pieces
# ---------------------------------------------------------------------------
HISTORY_VARIANTS = ['concat:oA+B', 'concat:B+oA', 'concat:oA+B+oA', 'pd.concat:oA+B', 'dask:oA+B',
                    'dask.concat:oA+B', 'concat:oA+B:slice1', 'concat:oA+B:rev', 'concat:oA+B:copy',
                    'concat:oA.copy+B', 'concat:oA[0:]+B', 'concat:oA.take+B', 'concat:ooA+B',
                    'concat:oA[1:]+B', 'oA:plain', 'oA:slice:take']


def build_history(kind, st, elsA, elsB, variant):
    import pandas as pd
    cls = G.array_class(kind)
    A, B = G.make_array(kind, elsA, st), G.make_array(kind, elsB, st)
    oA = A.oriented()
    cat = cls._concat_same_type
    if variant == 'concat:oA+B':
        return cat([oA, B])
    if variant == 'concat:B+oA':
        return cat([B, oA])
    if variant == 'concat:oA+B+oA':
        return cat([oA, B, oA])
    if variant == 'pd.concat:oA+B':
        return pd.concat([pd.Series(oA), pd.Series(B)], ignore_index=True).values
    if variant == 'dask:oA+B':
        import dask.dataframe as dd
        from spatialpandas import GeoSeries
        return dd.from_pandas(GeoSeries(cat([oA, B])), npartitions=2).compute().values
    if variant == 'dask.concat:oA+B':
        import dask.dataframe as dd
        from spatialpandas import GeoSeries
        return dd.concat([dd.from_pandas(GeoSeries(oA), npartitions=1),
                          dd.from_pandas(GeoSeries(B), npartitions=1)]).compute().values
    if variant == 'concat:oA+B:slice1':
        return cat([oA, B])[1:]
    if variant == 'concat:oA+B:rev':
        r = cat([oA, B])
        return r.take(np.arange(len(r))[::-1])
    if variant == 'concat:oA+B:copy':
        return cat([oA, B]).copy()
    if variant == 'concat:oA.copy+B':
        return cat([oA.copy(), B])
    if variant == 'concat:oA[0:]+B':
        return cat([oA[0:], B])
    if variant == 'concat:oA.take+B':
        return cat([oA.take(np.arange(len(oA))), B])
    if variant == 'concat:ooA+B':
        return cat([oA.oriented(), B])
    if variant == 'concat:oA[1:]+B':
        return cat([oA[1:], B])
    if variant == 'oA:plain':
        return oA
    if variant == 'oA:slice:take':
        return oA[1:].take(np.arange(max(len(oA) - 1, 0)))
    raise ValueError(variant)


def history_inputs():
    """(kind, A elements, B elements): A mixes windings, B is entirely un-oriented
    (clockwise shells, counter-clockwise holes)"""
    ccw = valid_polygon(False, (False, False), 0)
    cw = valid_polygon(True, (True, True), 0)            # cw shell, ccw holes
    mixed = valid_polygon(True, (False,), 0)
    tri_cw = [U.flat([(0, 0), (3, 4), (3, 0), (0, 0)])]
    out = [('polygon', [cw, None, ccw, mixed], [cw, tri_cw, None]),
           ('polygon', [ccw], [tri_cw, cw]),
           ('polygon', [None, tri_cw], [[], cw, None])]
    mp = lambda *ps: [list(p) for p in ps]
    out += [('multipolygon', [mp(cw, valid_polygon(True, (True,), 20)), None, mp(ccw)],
             [mp(tri_cw, valid_polygon(True, (True,), 20)), None, mp(cw)]),
            ('multipolygon', [mp(ccw)], [mp(cw), mp(tri_cw)]),
            ('multipolygon', [None, mp(mixed)], [[], mp(cw, tri_cw)])]
    return out


def run_histories(rep, batch):
    for kind, elsA, elsB in history_inputs():
        for st in ('float64', 'int32'):
            for variant in HISTORY_VARIANTS:
                meta = {'kind': kind, 'subtype': st, 'elements': elsB,
                        'history': {'A': elsA, 'B': elsB, 'variant': variant}}
                try:
                    arr = build_history(kind, st, elsA, elsB, variant)
                except Exception as e:
                    rep.count(f'history-unavailable:{variant.split(":")[0]}:{type(e).__name__}')
                    continue
                rep.count('history')
                check_oriented_arr(rep, batch, kind, st, arr, meta)


def run(rep):
    tier = getattr(rep, 'tier_run', rep.tier)
    rep.rule = ('polygon arrays: every tuple of 0..3 ring shapes (4 windable rings incl. a 7-vertex L, 7 '
                'degenerate: empty, 1-2 vertices, closed zero-area, collinear, bow-tie; plus unclosed and '
                'NaN rings for model = code only) x every winding pattern of the windable rings, 3 per array '
                '+ missing / empty elements, 0-2 derivation steps (slice/take/rotate/mask/reverse), 5 '
                'subtypes; multipolygon arrays: 0..3 parts drawn from the 0..2-ring polygons; valid shapes '
                '(holes inside shell, disjoint parts) with all 2^(1+holes) patterns for the intersection '
                'comparison on a half-integer point grid and 40 boxes; random closed rings; histories: '
                'already-oriented pieces concatenated with un-oriented ones (_concat_same_type, pd.concat, '
                'Dask), their slices / takes / copies, then the full checks; coordinates that are not small '
                'integers (c15_float.py): the lattice shapes in ~120 value families - float64 / float32 lattice x '
                '2^e, e = -530..500, with / without a large offset (exact areas from subnormal to 1e300), lon/lat '
                'decimals with steps 1e-3..1e-12, k/10, k/3, jitter, -0.0, around 2^24 / 2^53 / 1e16, overflow / '
                'underflow; int64 / int32 / int16 at the edge of the dtype and beyond 2^53 - compared exactly and '
                'with the binary64 model Model/FloatOrient.v; non-trivial = '
                'at least one ring reversed; distinct = distinct (kind, subtype, exported buffers)')
    batch = Ctx()
    import numba
    nthreads = numba.get_num_threads()
    numba.set_num_threads(1)
    try:
        for kind, st, els, nder, inter in gen(rep, tier):
            if isinstance(nder, list):
                check_oriented(rep, batch, kind, st, els, desc=nder, intersections=inter)
            else:
                check_oriented(rep, batch, kind, st, els, nder, intersections=inter)
        run_histories(rep, batch)
        # coordinates that are not small integers (tiny / huge / many-digit floats, integers at the
        # edge of their dtype and beyond 2^53): harness/c15_float.py, model Model/FloatOrient.v
        xctx = X.Ctx()
        lattice = polygon_space(rep.rng, True, nrings=(1, 2)) + \
            [valid_polygon(pat[0], pat[1:], 0) for nh in (1, 2, 3)
             for pat in itertools.product((False, True), repeat=1 + nh)]
        X.run_exact(rep, xctx, lattice, valid_polygon, tier)
    finally:
        numba.set_num_threads(nthreads)
    batch.flush(rep)
    xctx.flush(rep)
    rep.extra['coq_cases'] = {'in_scope': len(batch.main.cases), 'internal_out_of_scope': len(batch.oos.cases),
                              'internal_layout': len(batch.layout.cases),
                              'exact_float': len(xctx.f.cases), 'exact_int': len(xctx.z.cases)}


def replay(rep, rp):
    batch = Ctx()
    if rp.get('exact_values'):
        X.replay(rep, rp)
        return _replay_verdict(rep)
    els = U.unjson(rp['elements'])
    if rp.get('history'):
        h = rp['history']
        arr = build_history(rp['kind'], rp['subtype'], U.unjson(h['A']), U.unjson(h['B']), h['variant'])
        check_oriented_arr(rep, batch, rp['kind'], rp['subtype'], arr,
                           {k: rp[k] for k in ('kind', 'subtype', 'elements', 'history')})
    else:
        check_oriented(rep, batch, rp['kind'], rp['subtype'], els, desc=rp.get('derivation') or [],
                       intersections='probe' in rp)
    batch.flush(rep)
    return _replay_verdict(rep)


def _replay_verdict(rep):
    for v in rep.violations:
        print(v['signature'], '-', v['what'])
        for k in ('impl', 'model'):
            if k in v['replay']:
                print(f'  {k}: {v["replay"][k]}')
    known = {k['signature'] for k in C.load_known('C15')}
    return not [v for v in rep.violations if v['signature'] not in known]
