"""C10 — pack_partitions_to_parquet leaves a complete, clean, re-readable dataset.

Two correspondence streams, both evaluated by the Coq kernel:

(A) filesystem semantics: random sequences of makedirs / rm / write / read / mv / ls /
    find / exists / isfile / isdir on a scratch directory through the real
    fsspec LocalFileSystem against Model/FS.v (observation of every call + final tree);

(B) the procedure: real runs of DaskGeoDataFrame.pack_partitions_to_parquet (synchronous
    scheduler) through the recording filesystem; the observed assignment of rows to
    (input partition, output partition) cells, the prior tree and the configuration are
    fed to Model/PackFS.v `pack`; the whole scratch tree after the run (inside and
    outside the dataset, with the content of every file classified by the rows it holds)
    is compared with the model's, and the property itself is checked directly on the
    real result (layout, parts are files, read-back rows, Hilbert order, overwrite).
"""
import itertools
import os
import re
import shutil

import numpy as np

from . import c10_util as U
from . import common as C
from . import fsrec as F

ANCHOR_FILES = ['spatialpandas/dask.py', 'spatialpandas/io/parquet.py', 'spatialpandas/io/utils.py']
TRUSTED = ['fsspec LocalFileSystem / os / shutil semantics as transcribed in Model/FS.v (validated by '
           'stream A on every run)',
           'the injective parser of path components into structured names (harness/fsrec.py name_term)',
           'pyarrow/pandas parquet writing and reading of a frame (a written sub-part holds the rows it '
           'was given): file contents are identified by the rid column read back with pyarrow']

FS_IMPORTS = 'Model.FS'
FS_CASE_TY = 'fs * list fsop * fs'
FS_RES_TY = 'list fsobs * bool * bool'
PK_CASE_TY = 'fs * config * assignment * fs * list (list cell)'
PK_RES_TY = 'option (bool * bool * bool)'


# --------------------------------------------------------------------------
# (A) filesystem semantics
# --------------------------------------------------------------------------
NAMES = ['a', 'b', 'part.0.parquet', 'part.1.parquet', 'part0.parquet', 't0', '_metadata']


def rand_path(rng, maxdepth=3):
    d = rng.choice([1, 1, 2, 2, 2, 3][:2 * maxdepth])
    return '/'.join(rng.choice(NAMES[:4] if j < d - 1 else NAMES) for j in range(d))


def known_path(rng, root, maxdepth=3):
    """a path that exists, or a child of one, with high probability"""
    ex = sorted(F.tree(root))
    r = rng.random()
    if ex and r < 0.55:
        return rng.choice(ex)
    if ex and r < 0.8:
        return rng.choice(ex) + '/' + rng.choice(NAMES)
    return rand_path(rng, maxdepth)


def fs_sequence(rep, root, length):
    """run a random op sequence on the real filesystem; returns (ops terms, obs terms, description)"""
    from fsspec.implementations.local import LocalFileSystem
    rng = rep.rng
    fs = LocalFileSystem()
    ops, obs, desc = [], [], []
    nid = [0]

    def ab(p):
        return os.path.join(root, p)

    def rel(p):
        return os.path.relpath(p, root)

    for _ in range(length):
        kind = rng.choice(['makedirs', 'makedirs', 'rm', 'rm', 'write', 'write', 'write', 'read',
                           'mv', 'mv', 'mv', 'ls', 'find', 'exists', 'isfile', 'isdir'])
        p = known_path(rng, root) if kind not in ('makedirs', 'write') or rng.random() < 0.4 else rand_path(rng)
        if p.count('/') > 3:
            p = '/'.join(p.split('/')[:4])
        pt = F.path_term(p)
        try:
            if kind == 'makedirs':
                ops.append(C.Rec('OpMakedirs', pt)); desc.append(('makedirs', p))
                fs.makedirs(ab(p), exist_ok=True)
                obs.append(C.Rec('ObDone'))
            elif kind == 'rm':
                ops.append(C.Rec('OpRm', pt)); desc.append(('rm', p))
                fs.rm(ab(p), recursive=True)
                obs.append(C.Rec('ObDone'))
            elif kind == 'write':
                nid[0] += 1
                ops.append(C.Rec('OpWrite', pt, C.Rec('COpaque', nid[0]))); desc.append(('write', p, nid[0]))
                with fs.open(ab(p), 'wb') as f:
                    f.write(b'opaque:%d' % nid[0])
                obs.append(C.Rec('ObDone'))
            elif kind == 'read':
                ops.append(C.Rec('OpRead', pt)); desc.append(('read', p))
                with fs.open(ab(p), 'rb') as f:
                    data = f.read()
                obs.append(C.Rec('ObContent', C.Rec('COpaque', int(data.split(b':')[1]))))
            elif kind == 'mv':
                q = known_path(rng, root) if rng.random() < 0.6 else rand_path(rng)
                if q.count('/') > 3:
                    q = '/'.join(q.split('/')[:4])
                ops.append(C.Rec('OpMove', pt, F.path_term(q))); desc.append(('mv', p, q))
                fs.mv(ab(p), ab(q))
                obs.append(C.Rec('ObDone'))
            elif kind == 'ls':
                ops.append(C.Rec('OpLs', pt)); desc.append(('ls', p))
                out = fs.ls(ab(p))
                obs.append(C.Rec('ObList', [F.path_term(rel(x)) for x in out]))
            elif kind == 'find':
                ops.append(C.Rec('OpFind', pt)); desc.append(('find', p))
                out = fs.find(ab(p))
                obs.append(C.Rec('ObList', [F.path_term(rel(x)) for x in out]))
            else:
                ctor = {'exists': 'OpExists', 'isfile': 'OpIsfile', 'isdir': 'OpIsdir'}[kind]
                ops.append(C.Rec(ctor, pt)); desc.append((kind, p))
                obs.append(C.Rec('ObBool', bool(getattr(fs, kind)(ab(p)))))
        except Exception as e:  # noqa: BLE001
            obs.append(C.Rec('ObRaised'))
            desc[-1] = desc[-1] + ('raised ' + type(e).__name__,)
    return ops, obs, desc


def stream_fs(rep, tier):
    F.set_tmp_prefix('t')
    nseq = 350 if tier == 'quick' else 6000
    cases, results, metas = [], [], []
    root = U.scratch()
    try:
        for s in range(nseq):
            U.wipe(root)
            # a small initial tree
            for _ in range(rep.rng.randint(0, 4)):
                p = rand_path(rep.rng)
                try:
                    if rep.rng.random() < 0.5:
                        os.makedirs(os.path.join(root, p), exist_ok=True)
                    else:
                        os.makedirs(os.path.dirname(os.path.join(root, p)), exist_ok=True)
                        with open(os.path.join(root, p), 'wb') as f:
                            f.write(b'opaque:%d' % (900 + s % 50))
                except OSError:
                    pass
            f0 = F.fs_term(root, F.classify_opaque)
            ops, obs, desc = fs_sequence(rep, root, rep.rng.randint(4, 14))
            f1 = F.fs_term(root, F.classify_opaque)
            cases.append((f0, ops, f1))
            results.append((obs, True, True))
            metas.append({'initial': f0, 'ops': desc, 'final': f1})
            rep.evaluations += 1
            rep.count('fs-sequence')
            if any(len(d) > 2 and str(d[-1]).startswith('raised') for d in desc):
                rep.count('fs-sequence-with-raise')
            if any(d[0] == 'mv' and not str(d[-1]).startswith('raised') for d in desc):
                rep.nontrivial(('fs', repr(desc)))
    finally:
        shutil.rmtree(root, ignore_errors=True)
    bad = C.coq_mismatches(FS_IMPORTS, 'run_ops_check', FS_CASE_TY, FS_RES_TY, cases, results)
    for i in bad[:5]:
        model = C.coq_eval(FS_IMPORTS, f'run_ops_check {C.coq(cases[i])}')
        rep.violation('fs-semantics-differ',
                      'fsspec LocalFileSystem behaves differently from Model/FS.v on an op sequence',
                      {'stream': 'fs', **metas[i], 'real_obs': results[i][0], 'model': model})


# --------------------------------------------------------------------------
# (B) the procedure
# --------------------------------------------------------------------------
def cuts_for(n, nin, style):
    """input partition boundaries"""
    if style == 'even':
        return [round(j * n / nin) for j in range(nin + 1)]
    if style == 'front':           # everything in the first partitions, empty ones at the end
        c = list(range(min(n, nin) + 1))
        c[-1] = n
        return c + [n] * (nin + 1 - len(c))
    if style == 'holes':           # empty input partitions in between
        c = [0]
        for j in range(nin):
            c.append(c[-1] if j % 2 else min(n, c[-1] + max(1, (2 * n) // max(1, nin))))
        c[-1] = n
        return c
    raise ValueError(style)


def pack_configs(rep, tier):
    """(n, variant, nin, cutstyle, k, mode, compression, prior, overwrite)"""
    rng = rep.rng
    comps = ['snappy', 'gzip', None]
    priors = [None, 'synthetic-small', 'synthetic-large', 'real']
    out = []
    if tier == 'quick':
        # every k in 1..16 x 3 modes, frames rotating through sizes that make every emptiness
        # pattern class appear (k > n, k = n, k < n, duplicates collapsing partitions)
        frames = [(1, 'plain', 1, 'even'), (2, 'dup', 2, 'even'), (3, 'plain', 2, 'even'),
                  (5, 'miss', 3, 'holes'), (6, 'plain', 2, 'even'), (8, 'dup', 3, 'front'),
                  (9, 'miss', 4, 'even'), (13, 'plain', 5, 'holes'), (4, 'same', 2, 'even')]
        j = 0
        for k in range(1, 17):
            for mode in U.MODES:
                nrep = (3 if k <= 8 else 2) if mode in U.OLD_MODES else (2 if k <= 6 else 1)
                for rpt in range(nrep):
                    n, var, nin, cs = frames[j % len(frames)]
                    comp = comps[j % 3]
                    prior = priors[(j // 3) % 4] if rpt != 1 else None
                    ov = prior is not None or (j % 5 == 0)
                    out.append((n, var, nin, cs, k, mode, comp, prior, ov))
                    j += 1
    else:
        frames = [(n, var, nin, cs) for n in (1, 2, 3, 4, 5, 6, 8, 11, 16, 24)
                  for var in ('plain', 'dup', 'miss', 'same')
                  for nin, cs in ((1, 'even'), (2, 'even'), (3, 'holes'), (5, 'front'), (12, 'even'))
                  if nin <= max(n, 1) + 2]
        for k in range(1, 17):
            for mode in U.MODES:
                for comp in comps:
                    for prior in priors:
                        for _ in range(2):
                            n, var, nin, cs = rng.choice(frames)
                            out.append((n, var, nin, cs, k, mode, comp, prior,
                                        prior is not None or rng.random() < 0.3))
    return out


def monotone(xs):
    return all(a <= b for a, b in zip(xs[:-1], xs[1:]))


def check_property(rep, root, df, o, meta, outside_before):
    """the statement of C10 on the real result; returns the list of cell lists of the parts"""
    from spatialpandas.io import read_parquet_dask
    ds = os.path.join(root, U.DS)
    want_rows = U.row_key(df)
    names = sorted(os.listdir(ds))
    partnames = [n for n in names if re.match(r'^part\.\d+\.parquet$', n)]
    m = len(partnames)
    expect = sorted(['_common_metadata', '_metadata'] + [f'part.{j}.parquet' for j in range(m)])
    if names != expect:
        rep.violation('layout:names', f'dataset directory holds {names}, expected {expect}',
                      {**meta, 'listing': names})
    notfile = [n for n in names if not os.path.isfile(os.path.join(ds, n))]
    if notfile:
        rep.violation('layout:not-a-file', f'{notfile} in the dataset are not plain files',
                      {**meta, 'listing': names})
    # nothing new outside the dataset
    outside_after = {p: t for p, t in F.tree(root).items() if p != U.DS and not p.startswith(U.DS + '/')}
    extra = sorted(set(outside_after) - set(outside_before))
    gone = sorted(set(outside_before) - set(outside_after))
    if gone:
        rep.violation('outside:removed', f'entries outside the dataset disappeared: {gone}', {**meta})
    if extra:
        par = o.tmp_parent or ''
        anc = {'/'.join(par.split('/')[:j]) for j in range(1, par.count('/') + 2)} if par else set()
        if par and set(extra) <= anc and all(outside_after[e] == 'dir' for e in extra):
            rep.violation('tempdir-parent-left',
                          'tempdir_format with directories above the per-partition leaf '
                          f'({U.TMPSPEC[meta["mode"]][0]}): the empty parent directories {extra} created '
                          'by makedirs are left behind',
                          {**meta, 'left': [re.sub(r'^tmp/[^/]+', 'tmp/<uuid>', e) for e in extra]})
        else:
            rep.violation('outside:temp-left', f'temporary entries left outside the dataset: {extra}',
                          {**meta, 'left': extra})
    # the returned frame and an independent read both hold exactly the input rows
    for label, getter in (('returned', lambda: o.frame), ('reread', lambda: read_parquet_dask(ds))):
        try:
            fr = getter()
            got = fr.compute()
            if U.row_key(got) != want_rows:
                rep.violation(f'rows:{label}', f'{label} frame does not hold exactly the input rows',
                              {**meta, 'n_got': len(got), 'n_want': len(df)})
            idx = got.index.tolist()
            if got.index.name != 'hilbert_distance' or not monotone(idx):
                rep.violation(f'order:{label}', f'{label} frame is not ordered by hilbert_distance',
                              {**meta, 'index': idx})
            if fr.npartitions != m:
                rep.violation(f'npartitions:{label}', f'{label} frame has {fr.npartitions} partitions for '
                              f'{m} part files', {**meta})
            else:
                prev = None
                for j in range(m):
                    pj = fr.partitions[j].compute().index.tolist()
                    if not pj:
                        rep.violation(f'empty-partition:{label}', f'partition {j} of the {label} frame is empty',
                                      {**meta})
                    if not monotone(pj) or (prev is not None and pj and prev > pj[0]):
                        rep.violation(f'order-across:{label}', 'hilbert_distance decreases within or across '
                                      'partitions', {**meta, 'partition': j})
                    if pj:
                        prev = pj[-1]
            if label == 'reread':
                pb = getattr(fr, '_partition_bounds', None)
                if pb is None or set(pb) != {'geometry', 'g2'} or any(len(v) != m for v in pb.values()):
                    rep.violation('partition-bounds', 'stored partition bounds missing or of the wrong length',
                                  {**meta})
        except Exception as e:  # noqa: BLE001
            rep.violation(f'read-raises:{label}', f'reading the {label} frame raised {type(e).__name__}: '
                          f'{str(e)[:200]}', {**meta})


def one_pack(rep, root, cfg, idx):
    n, var, nin, cs, k, mode, comp, prior, ov = cfg
    U.wipe(root)
    rng = rep.rng
    meta = {'stream': 'pack', 'n': n, 'variant': var, 'nin': nin, 'cutstyle': cs, 'k': k, 'mode': mode,
            'compression': comp, 'prior': prior, 'overwrite': ov, 'index': idx}
    df = U.make_frame(n, var, rng)
    cuts = cuts_for(n, nin, cs)
    meta['cuts'] = cuts
    # something outside the dataset that must survive
    os.makedirs(os.path.join(root, 'keep'))
    with open(os.path.join(root, 'keep', 'other.bin'), 'wb') as f:
        f.write(b'opaque:5')
    F.set_tmp_prefix(U.leaf_prefix(mode))
    # siblings of the dataset whose names start with the dataset's name: outside it
    os.makedirs(os.path.join(root, U.DS + '2'))
    with open(os.path.join(root, U.DS + '2', 'inner.bin'), 'wb') as f:
        f.write(b'opaque:6')
    with open(os.path.join(root, U.DS + '.keep'), 'wb') as f:
        f.write(b'opaque:8')
    if mode == 'uuid' and idx % 2:
        os.makedirs(os.path.join(root, 'tmp'))
    if mode == 'subdir' and idx % 2:
        os.makedirs(os.path.join(root, U.DS + '-tmp'))
    if prior == 'synthetic-small':
        U.synthetic_prior(root, rng, 1, junk=False)
    elif prior == 'synthetic-large':
        U.synthetic_prior(root, rng, 19)
    elif prior == 'real':
        pdf = U.make_frame(n + 4, 'plain', rng)
        po = U.run_pack(root, pdf, [0, (n + 4) // 2, n + 4], max(1, (k + 3) % 7), 'inside', comp, K=2)
        if po.raised is not None:
            rep.violation('raises', f'preparing the prior dataset raised {po.raised!r}', meta)
            return None
    f0 = F.fs_term(root, U.prior_classifier)
    outside_before = {p: t for p, t in F.tree(root).items() if p != U.DS and not p.startswith(U.DS + '/')}
    # the default retry arguments wait up to two minutes between 24 attempts: on a broken
    # tree one failing call would last half an hour, so the runs use 2 attempts and no waiting
    o = U.run_pack(root, df, cuts, k, mode, comp, overwrite=ov, K=2)
    rep.evaluations += 1
    rep.count(f'mode:{mode}')
    rep.count(f'prior:{prior}')
    if o.raised is not None:
        rep.violation(f'raises:{type(o.raised).__name__}',
                      f'pack_partitions_to_parquet raised {type(o.raised).__name__}: {str(o.raised)[:300]}', meta)
        return None
    asg, iorder = U.assignment_of(o, nin, mode)
    corder = U.concat_order(o, k, mode)
    nonempty = sorted({N for outs in asg for N in outs})
    rep.count('has-empty-output' if len(nonempty) < k else 'no-empty-output')
    if 0 < len(nonempty) < k:
        rep.count('empty-before-nonempty' if any(N not in nonempty for N in range(max(nonempty))) else
                  'empty-only-at-end')
    rep.nontrivial((mode, k, tuple(tuple(a) for a in asg), prior))
    meta['assignment'] = asg
    # cells recorded from the sub-part writes must partition the rows
    allr = sorted(r for rids in o.cells.values() for r in rids)
    if allr != list(range(n)):
        rep.violation('subparts:rows', 'the sub-part files do not hold each input row exactly once',
                      {**meta, 'subpart_rids': {str(c): r for c, r in o.cells.items()}})
        return None
    for (i, N), rids in o.cells.items():
        if any(not (cuts[i] <= r < cuts[i + 1]) for r in rids):
            rep.violation('subparts:input', 'a sub-part holds rows of another input partition', meta)
    check_property(rep, root, df, o, meta, outside_before)
    cl = U.Classifier(root, df, o.cells)
    f1 = F.fs_term(root, cl)
    parts = cl.dataset_parts(os.path.join(root, U.DS))
    real_parts = [F.cells_term(pc[0]) if pc is not None else [(C.Nat(999), C.Nat(999))] for _, pc in parts]
    case = (f0, U.config_term(k, mode, o.tmp_parent, ov, iorder, corder), U.asg_term(asg), f1, real_parts)
    rep.sample({k2: meta[k2] for k2 in ('n', 'nin', 'k', 'mode', 'prior', 'assignment')}, cap=5)
    return case, meta


def stream_pack(rep, tier):
    import dask
    cases, results, metas = [], [], []
    root = U.scratch()
    try:
        with dask.config.set(scheduler='synchronous'):
            for idx, cfg in enumerate(pack_configs(rep, tier)):
                r = one_pack(rep, root, cfg, idx)
                if r is not None:
                    cases.append(r[0]); results.append(C.Some((True, True, True))); metas.append(r[1])
    finally:
        shutil.rmtree(root, ignore_errors=True)
    bad = C.coq_mismatches(U.PK_IMPORTS, 'pack_check', PK_CASE_TY, PK_RES_TY, cases, results, shard=40)
    for i in bad[:5]:
        f0, cfg, asg, f1, parts = cases[i]
        model = C.coq_eval(U.PK_IMPORTS, f'pack {C.coq(f0)} {C.coq(cfg)} {C.coq(asg)}')
        rep.violation('pack-model-differs:' + metas[i]['mode'],
                      'the tree left by pack_partitions_to_parquet differs from Model/PackFS.v',
                      {**metas[i], 'real_final': f1, 'real_parts': parts, 'model': model[:6000]})
    rep.extra['pack_runs'] = len(cases)


def run(rep):
    tier = getattr(rep, 'tier_run', rep.tier)
    rep.rule = ('(A) random op sequences (4-14 ops over a pool of 7 names, depth <= 4, biased to existing '
                'paths) on the real LocalFileSystem vs Model/FS.v; (B) real pack_partitions_to_parquet runs: '
                'npartitions 1..16 x {inside, external tmp/{uuid}/t{partition}, external t{partition}, external '
                'siblings of the dataset named after it: ds.tmp-{partition}, ds.tmp-{uuid}-{partition}, '
                'ds-tmp/{partition}} x frames of 1..13 '
                '(thorough: ..24) rows with duplicate / missing geometries and two geometry columns x input '
                'partitionings with empty input partitions x compression {snappy, gzip, None} x prior dataset '
                '{none, synthetic smaller, synthetic larger with debris, real}; non-trivial = distinct '
                '(mode, k, assignment matrix, prior)')
    stream_fs(rep, tier)
    stream_pack(rep, tier)


def replay(rep, rp):
    import dask
    if rp.get('stream') == 'fs':
        return replay_fs(rep, rp)
    root = U.scratch()
    try:
        cfg = (rp['n'], rp['variant'], rp['nin'], rp['cutstyle'], rp['k'], rp['mode'], rp['compression'],
               rp['prior'], rp['overwrite'])
        with dask.config.set(scheduler='synchronous'):
            r = one_pack(rep, root, cfg, rp.get('index', 0))
        if r is None:
            for v in rep.violations:
                print(v['signature'], '-', v['what'])
            return False
        bad = C.coq_mismatches(U.PK_IMPORTS, 'pack_check', PK_CASE_TY, PK_RES_TY, [r[0]],
                               [C.Some((True, True, True))])
        for v in rep.violations:
            print(v['signature'], '-', v['what'])
        if bad:
            print('model differs')
        return not bad and not rep.violations
    finally:
        shutil.rmtree(root, ignore_errors=True)


def _comp(j):
    (ctor, args), = j.items()
    return {'NPart': lambda a: f'part.{a[0]}.parquet', 'NSub': lambda a: f'part{a[0]}.parquet',
            'NTmp': lambda a: f't{a[0]}', 'NMeta': lambda a: '_metadata', 'NCommon': lambda a: '_common_metadata',
            'NStr': lambda a: a[0]}[ctor](args)


def replay_fs(rep, rp):
    """re-run a recorded op sequence of stream A on a fresh scratch directory"""
    from fsspec.implementations.local import LocalFileSystem
    fs = LocalFileSystem()
    root = U.scratch()
    try:
        for pth, node in rp['initial']:
            ap = os.path.join(root, *[_comp(c) for c in pth])
            if 'Dir' in node:
                os.makedirs(ap, exist_ok=True)
            else:
                os.makedirs(os.path.dirname(ap), exist_ok=True)
                (ctor, args), = node['File'][0].items()
                with open(ap, 'wb') as f:
                    f.write(b'opaque:%d' % args[0] if ctor == 'COpaque' else b'')
        f0 = F.fs_term(root, F.classify_opaque)
        ops, obs = [], []
        for d in rp['ops']:
            kind, p = d[0], d[1]
            pt = F.path_term(p)
            ab = os.path.join(root, p)
            try:
                if kind == 'makedirs':
                    ops.append(C.Rec('OpMakedirs', pt)); fs.makedirs(ab, exist_ok=True); obs.append(C.Rec('ObDone'))
                elif kind == 'rm':
                    ops.append(C.Rec('OpRm', pt)); fs.rm(ab, recursive=True); obs.append(C.Rec('ObDone'))
                elif kind == 'write':
                    ops.append(C.Rec('OpWrite', pt, C.Rec('COpaque', d[2])))
                    with fs.open(ab, 'wb') as f:
                        f.write(b'opaque:%d' % d[2])
                    obs.append(C.Rec('ObDone'))
                elif kind == 'read':
                    ops.append(C.Rec('OpRead', pt))
                    with fs.open(ab, 'rb') as f:
                        data = f.read()
                    obs.append(C.Rec('ObContent', C.Rec('COpaque', int(data.split(b':')[1]))))
                elif kind == 'mv':
                    ops.append(C.Rec('OpMove', pt, F.path_term(d[2]))); fs.mv(ab, os.path.join(root, d[2]))
                    obs.append(C.Rec('ObDone'))
                elif kind in ('ls', 'find'):
                    ops.append(C.Rec('OpLs' if kind == 'ls' else 'OpFind', pt))
                    out = getattr(fs, kind)(ab)
                    obs.append(C.Rec('ObList', [F.path_term(os.path.relpath(x, root)) for x in out]))
                else:
                    ops.append(C.Rec({'exists': 'OpExists', 'isfile': 'OpIsfile', 'isdir': 'OpIsdir'}[kind], pt))
                    obs.append(C.Rec('ObBool', bool(getattr(fs, kind)(ab))))
            except Exception:  # noqa: BLE001
                obs.append(C.Rec('ObRaised'))
        f1 = F.fs_term(root, F.classify_opaque)
        bad = C.coq_mismatches(FS_IMPORTS, 'run_ops_check', FS_CASE_TY, FS_RES_TY, [(f0, ops, f1)], [(obs, True, True)])
        print('real :', C.jsonable(obs))
        print('model:', C.coq_eval(FS_IMPORTS, f'run_ops_check {C.coq((f0, ops, f1))}'))
        return not bad
    finally:
        shutil.rmtree(root, ignore_errors=True)
