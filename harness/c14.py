"""C14 — length, area and boundary are the exact measures of each element.

Correspondence: .length / .area of real arrays of every kind (array form), of their
elements (scalar form `arr[i]`, and scalars built directly from nested lists),
.boundary of polygon / multipolygon arrays and scalars, against Model/Measures.v
evaluated by the Coq kernel on the exported buffers.

* area: 2*area must be an integer and equal the model's doubled area exactly.
* length: the model yields the arguments of the summed sqrt's, in order.  The harness
  computes the same list independently from the decoded element (squared lengths of
  the segments with both ends finite), the kernel checks model list = that list; if
  every term is a perfect square the implementation's float must be the exact integer
  sum (checked in the kernel), otherwise |impl - fsum(sqrt t)| <= 1e-12 * fsum.
* metamorphic: translation invariance, GeoSeries.area/.length, length(boundary) = length.
"""
import itertools
import math

import numpy as np

from . import common as C
from . import geomgen as G
from . import c14_util as U

ANCHOR_FILES = ['spatialpandas/geometry/_algorithms/measures.py',
                'spatialpandas/geometry/baselist.py', 'spatialpandas/geometry/polygon.py',
                'spatialpandas/geometry/multipolygon.py', 'spatialpandas/geometry/line.py',
                'spatialpandas/geometry/multiline.py', 'spatialpandas/geometry/multipoint.py',
                'spatialpandas/geometry/point.py', 'spatialpandas/geometry/ring.py']
TRUSTED = ['float64 evaluation of compute_area on integer-valued coordinates is exact '
           '(validated: 2*area integral and equal to the model on every case)',
           'float summation / sqrt rounding of compute_line_length is outside the model: '
           'validated to 1e-12 relative against math.fsum of math.sqrt of the model\'s terms',
           'pyarrow buffers() export (harness/common.py export_listarr, harness/c14_util.py)']

IMPORTS = 'Model.Num Model.Arrow Model.Measures Spec.MeasuresSpec Proofs.MeasuresMapProofs'
# wf_listarr and even_inner are the guards of the theorems: asserted on every real array
ARR_FN = "fun '(k, a) => if wf_listarr a && even_inner a then Some (arr_measures k a) else None"
ARR_TY = 'kind * listarr'
ARR_RES = 'option (list (option lenres) * list num)'
SC_FN = ("fun '(k, s) => if sc_wf s && all_even (sc_inner_offsets s) then Some (sc_measures k s) "
         "else None")
SC_RES = 'option (lenres * num)'
PT_FN = 'fun a => if wf_fixarr a then Some (pt_measures a) else None'
BD_FN = ("fun '(k, a, b) => eqbc (la_view (match k with KPolygon => polygon_boundary a "
         "| _ => multipolygon_boundary a end)) (la_view b)")
BD_TY = 'kind * listarr * listarr'
SB_FN = ("fun '(k, s, b) => eqbc (sc_view (match k with KPolygon => sc_polygon_boundary s "
         "| _ => sc_multipolygon_boundary s end)) (sc_view b)")


class Ctx:
    def __init__(self):
        self.arr = U.Batch(IMPORTS, ARR_FN, ARR_TY, ARR_RES)
        self.sc = U.Batch(IMPORTS, SC_FN, ARR_TY, SC_RES)
        self.pt = U.Batch(IMPORTS, PT_FN, 'fixarr', ARR_RES)
        self.bd = U.Batch(IMPORTS, BD_FN, BD_TY, 'bool')
        self.sb = U.Batch(IMPORTS, SB_FN, BD_TY, 'bool')
        self.seen_scalars = set()

    def flush(self, rep):
        n = 0
        for b in (self.arr, self.sc, self.pt, self.bd, self.sb):
            n += b.flush(rep)
        return n


def _same(a, b):
    a = np.asarray(a, dtype='float64')
    b = np.asarray(b, dtype='float64')
    return a.shape == b.shape and bool(np.all((a == b) | (np.isnan(a) & np.isnan(b))))


def length_result(rep, f, rings, kind, st, meta, form):
    """the model-typed result for an implementation length `f` of an element whose
    decoded rings are `rings` (None = missing).  Reports tolerance failures itself."""
    f = float(f)
    if math.isnan(f):
        return None
    terms = [t for r in (rings or []) for t in U.sq_terms(r)]
    if kind in ('multipoint', 'point'):
        terms = []
    if all(U.is_square(t) for t in terms):
        if not (math.isfinite(f) and f == int(f)):
            rep.violation(f'length-differs:{kind}',
                          f'{kind} {form} length {f!r} is not the exact sum of integer segment '
                          f'lengths {sum(math.isqrt(t) for t in terms)}',
                          {**meta, 'impl_length': f, 'terms': terms})
            return C.Some((terms, C.Some(sum(math.isqrt(t) for t in terms))))
        return C.Some((terms, C.Some(int(f))))
    want = math.fsum(math.sqrt(t) for t in terms)
    if not abs(f - want) <= 1e-12 * want:
        rep.violation(f'length-differs:{kind}',
                      f'{kind} {form} length {f!r} (subtype {st}) differs from the sum of segment '
                      f'lengths {want!r} by more than 1e-12 relative',
                      {**meta, 'impl_length': f, 'exact': want, 'terms': terms})
    return C.Some((terms, None))


def area_result(rep, a, kind, meta, form):
    a = float(a)
    if not math.isfinite(a):
        return None
    d = 2.0 * a
    if d != int(d):
        rep.violation(f'area-differs:{kind}', f'{kind} {form} area {a!r}: 2*area is not an integer '
                      f'on integer coordinates', {**meta, 'impl_area': a})
        return C.Some(0)
    return C.Some(int(d))


def check_array(rep, ctx, kind, st, els, nder=0, desc=None, extras=True):
    """all C14 checks on one array; Coq cases are queued in ctx"""
    rng = rep.rng
    try:
        arr = G.make_array(kind, els, st) if desc is None else U.rebuild(kind, st, els, desc)
    except Exception as e:
        rep.count('construct_error:' + type(e).__name__)
        return
    if desc is None:
        arr, desc = G.derive(rng, arr, nder)
    meta = {'kind': kind, 'subtype': st, 'elements': els, 'derivation': desc}
    if str(arr.data.type) == 'null':
        rep.count('null_typed_skipped')
        return
    rep.evaluations += 1
    rep.count(kind)
    if desc:
        rep.count('derived')
    # ---- point arrays: zeros
    if kind == 'point':
        try:
            L, A = np.asarray(arr.length), np.asarray(arr.area)
        except Exception as e:
            rep.violation(f'raises:{kind}:{type(e).__name__}', f'{kind} length/area raised: {e}', meta)
            return
        res = C.Some(([length_result(rep, v, None, kind, st, meta, 'array') for v in L],
                      [area_result(rep, v, kind, meta, 'array') for v in A]))
        ctx.pt.add(C.export_fixarr(arr), res, f'measures-differ:{kind}',
                   f'{kind} array length/area differ from the model', meta)
        for i in range(len(arr)):
            e = arr[i]
            if e is not None and not (e.length == 0.0 and e.area == 0.0):
                rep.violation('measures-differ:point-scalar', 'Point.length/area not 0', meta)
        return
    try:
        rec = C.export_listarr(arr)
    except ValueError:
        rep.count('null_typed_skipped')
        return
    dec = U.decode(arr)
    if any(d is None for d in dec):
        rep.count('has_missing')
    if arr.data.offset:
        rep.count('nonzero_offset')
    if any(G.has_nonfinite(d) for d in dec):
        rep.count('has_nonfinite')
    K = C.Raw(U.KIND_CTOR[kind])
    # ---- array form
    try:
        L, A = np.asarray(arr.length), np.asarray(arr.area)
    except Exception as e:
        rep.violation(f'raises:{kind}:{type(e).__name__}', f'{kind} length/area raised: {e}', meta)
        return
    if len(L) != len(arr) or len(A) != len(arr) or L.dtype != np.float64 or A.dtype != np.float64:
        rep.violation(f'measures-shape:{kind}', 'length/area not float64 arrays of len(self)', meta)
        return
    rings = [U.rings_of(kind, d) for d in dec]
    res = C.Some(([length_result(rep, L[i], rings[i], kind, st, meta, 'array') for i in range(len(arr))],
                  [area_result(rep, A[i], kind, meta, 'array') for i in range(len(arr))]))
    ctx.arr.add((K, rec), res, f'measures-differ:{kind}',
                f'{kind} array length/area differ from the model', meta)
    if any(r and any(len(x) >= 4 for x in r) for r in rings if r is not None):
        rep.nontrivial((kind, st, repr(rec)))
    # independent oracle for areas of closed finite rings (Python integers)
    if kind in ('polygon', 'multipolygon'):
        for i, rs in enumerate(rings):
            if rs is not None and all(U.closed_finite(r) for r in rs):
                want = sum(U.shoelace2(r) for r in rs)
                if not (math.isfinite(A[i]) and 2 * A[i] == want):
                    rep.violation(f'area-not-shoelace:{kind}',
                                  f'{kind} area {A[i]!r} != shoelace {want}/2 of closed rings',
                                  {**meta, 'row': i})
    # ---- scalar form
    for i in range(len(arr)):
        try:
            e = arr[i]
        except Exception as ex:
            rep.violation(f'raises:{kind}-getitem:{type(ex).__name__}', str(ex)[:200], meta)
            continue
        if (e is None) != (dec[i] is None):
            rep.violation(f'isna-differs:{kind}', 'arr[i] is None disagrees with the validity bitmap',
                          {**meta, 'row': i})
            continue
        if e is None:
            continue
        check_scalar(rep, ctx, kind, e, dec[i], {**meta, 'row': i}, arr_len=L[i], arr_area=A[i])
        if G.LEVELS[kind] > 1 and any(len(r) == 0 for r in rings[i]):
            rep.count('scalar_with_empty_ring')
    if not extras:
        return
    # ---- boundary
    if kind in ('polygon', 'multipolygon'):
        check_boundary(rep, ctx, kind, arr, rec, dec, L, meta)
    # ---- translation invariance (fresh array of the translated decoded elements)
    dx, dy = rng.randint(-7, 7), rng.randint(-7, 7)
    try:
        arr2 = G.make_array(kind, [U.translate(d, dx, dy) for d in dec], st)
        if str(arr2.data.type) != 'null':
            # the area of an unclosed ring is not translation invariant (area_unclosed_refuted):
            # compare areas only for the rows whose rings are all closed
            closed = np.array([rs is None or all(U.closed_finite(r) or len(r) < 6 for r in rs)
                               for rs in rings], dtype=bool)
            A2 = np.where(closed, np.asarray(arr2.area), A)
            if not (_same(arr2.length, L) and _same(A2, A)):
                rep.violation(f'translate-changes:{kind}',
                              f'{kind} length/area change under translation by ({dx},{dy})',
                              {**meta, 'shift': [dx, dy], 'before': [list(L), list(A)],
                               'after': [list(arr2.length), list(arr2.area)]})
            rep.count('translated')
    except Exception as ex:
        rep.count('translate_error:' + type(ex).__name__)
    # ---- GeoSeries
    if rep.evaluations % 5 == 0:
        from spatialpandas import GeoSeries
        s = GeoSeries(arr, index=list(range(7, 7 + len(arr))))
        sa, sl = s.area, s.length
        if not (_same(sa.values, A) and _same(sl.values, L) and list(sa.index) == list(s.index)
                and list(sl.index) == list(s.index)):
            rep.violation(f'agree:series:{kind}', 'GeoSeries.area/length differ from the array\'s', meta)
        rep.count('series_agree')


def check_scalar(rep, ctx, kind, e, d, meta, arr_len=None, arr_area=None):
    K = C.Raw(U.KIND_CTOR[kind])
    try:
        l, a = e.length, e.area
    except Exception as ex:
        rep.violation(f'raises:{kind}-scalar:{type(ex).__name__}', str(ex)[:200], meta)
        return
    rs = U.rings_of(kind, d)
    lres = length_result(rep, l, rs, kind, 'float64', meta, 'scalar')
    ares = area_result(rep, a, kind, meta, 'scalar')
    if arr_len is not None:
        # scalar and array forms agree exactly (same kernel, same float64 operations)
        if not (_same(a, arr_area) and _same(l, arr_len)):
            rep.violation(f'scalar-array-differ:{kind}',
                          f'{kind}: arr[i].length/area ({l!r}, {a!r}) != arr.length/area[i] '
                          f'({arr_len!r}, {arr_area!r})', meta)
    rep.count('scalar')
    # the scalar is rebuilt from Python values: identical (kind, element) pairs give identical
    # scalars whatever array they came from; evaluate the model once per distinct one
    key = (kind, meta['subtype'].startswith('float'), repr(d))
    if key in ctx.seen_scalars:
        return
    ctx.seen_scalars.add(key)
    ctx.sc.add((K, U.export_scalar(e)), C.Some((lres.v if lres is not None else ([], None), ares)),
               f'measures-differ:{kind}-scalar', f'{kind} scalar length/area differ from the model',
               meta)
    if kind in ('polygon', 'multipolygon'):
        from spatialpandas.geometry import MultiLine
        try:
            eb = e.boundary
        except Exception as ex:
            rep.violation(f'raises:{kind}-scalar-boundary:{type(ex).__name__}',
                          f'{type(e).__name__}.boundary raised {type(ex).__name__}',
                          {**meta, 'repro': f'{type(e).__name__}({d!r}).boundary'})
            return
        if not isinstance(eb, MultiLine):
            rep.violation(f'boundary-type:{kind}-scalar', 'scalar boundary is not a MultiLine', meta)
            return
        got = eb.data.as_py()
        if not _nan_equal(got, rs) or not _same(eb.length, l):
            rep.violation(f'boundary-rings:{kind}-scalar', 'scalar boundary does not hold exactly '
                          'the element\'s rings, or its length differs',
                          {**meta, 'boundary': got, 'boundary_length': float(eb.length)})
        ctx.sb.add((K, U.export_scalar(e), U.export_scalar(eb)), True,
                   f'boundary-differs:{kind}-scalar',
                   f'{kind} scalar boundary buffers differ from the model', meta)
        rep.count('scalar_boundary')


def check_boundary(rep, ctx, kind, arr, rec, dec, L, meta):
    from spatialpandas.geometry import MultiLine, MultiLineArray
    K = C.Raw(U.KIND_CTOR[kind])
    try:
        b = arr.boundary
    except Exception as ex:
        rep.violation(f'raises:{kind}-boundary:{type(ex).__name__}', str(ex)[:200], meta)
        return
    if not isinstance(b, MultiLineArray) or len(b) != len(arr):
        rep.violation(f'boundary-type:{kind}', 'boundary is not a MultiLineArray of the same length', meta)
        return
    try:
        brec = C.export_listarr(b)
    except ValueError:
        rep.count('null_typed_skipped')
        return
    ctx.bd.add((K, rec, brec), True, f'boundary-differs:{kind}',
               f'{kind} array boundary buffers differ from the model', meta)
    bdec = U.decode(b)
    want = [U.rings_of(kind, d) for d in dec]
    if bdec != want and not _nan_equal(bdec, want):
        rep.violation(f'boundary-rings:{kind}', 'boundary does not hold exactly the rings '
                      '(missing must stay missing)', {**meta, 'boundary': bdec})
    if not _same(b.length, L):
        rep.violation(f'boundary-length:{kind}', 'length(boundary) != length',
                      {**meta, 'boundary_length': list(b.length), 'length': list(L)})
    rep.count('boundary')


def _nan_equal(a, b):
    if isinstance(a, list) and isinstance(b, list):
        return len(a) == len(b) and all(_nan_equal(x, y) for x, y in zip(a, b))
    if a is None or b is None or isinstance(a, list) or isinstance(b, list):
        return a is None and b is None
    fa, fb = float(a), float(b)
    return fa == fb or (math.isnan(fa) and math.isnan(fb))


# ---------------------------------------------------------------------------
# enumeration
# ---------------------------------------------------------------------------
def element_space(rng, kind, tier, with_nan):
    quick = tier == 'quick'
    if kind == 'point':
        return [[1, 2], [0, 0], [-3, 4]] + ([[U.NAN, 1], [U.NAN, U.NAN]] if with_nan else [])
    if kind == 'multipoint':
        return [[], [1, 2], [1, 2, 3, 4], [0, 0, 3, 4, 3, 0]] + ([[U.NAN, 1, 2, 3]] if with_nan else [])
    if kind in ('line', 'ring'):
        return U.line_library(with_nan)
    if kind == 'multiline':
        lib = [[], [1, 2], [0, 0, 3, 4], [0, 0, 1, 2, 3, 3], [0, 0, 0, 5, 12, 0, 12, 5]]
        if with_nan:
            lib += [[0, 0, U.NAN, 1, 3, 4], [U.NAN, U.NAN], [0, 0, 3, 4, 3, U.NAN, 0, 0]]
        out = [list(t) for n in range(0, 4) for t in itertools.product(lib, repeat=n)]
        out += [[[]] * k + [l] for k in (4, 6, 9) for l in lib[1:]]     # many empty parts first
        return out
    rl = U.ring_library(with_nan)
    if kind == 'polygon':
        out = [list(t) for n in range(0, 3) for t in itertools.product(rl, repeat=n)]
        three = [list(t) for t in itertools.product(rl, repeat=3)]
        out += rng.sample(three, 250) if quick else three
        out += [[[]] * k + [r] for k in (4, 8, 11) for r in rl[1:]]     # many empty rings first
        return out
    if kind == 'multipolygon':
        srl = [rl[0], rl[1], rl[5], rl[8], rl[9], rl[11], rl[12]] + (rl[19:21] if with_nan else [])
        polys = [list(t) for n in range(0, 3) for t in itertools.product(srl, repeat=n)]
        out = [[]] + [[p] for p in polys]
        two = [[p, q] for p in polys for q in polys]
        out += rng.sample(two, 250) if quick else two
        n3 = 250 if quick else 8000
        out += [[rng.choice(polys) for _ in range(3)] for _ in range(n3)]
        return out
    raise ValueError(kind)


# always-run corpus: witnesses of the repaired defects and hand-picked corner cases
CORPUS = [
    ('line', 'float32', [[0, 0, 1, 1, 3, 2]], []),                    # float32 rounding (repaired)
    ('polygon', 'float32', [[[0, 0, 1, 3, 3, 1, 0, 0]]], []),
    ('multipolygon', 'float64', [[[[0, 0, 1, 0, 1, 1, 0, 0]]]], []),  # scalar boundary raised (repaired)
    ('multipolygon', 'float64', [[[[0, 0, 2, 0, 2, 2, 0, 0]]], None, [[[5, 5, 7, 5, 6, 8, 5, 5]]]],
     [('slice', 1, 3)]),                                              # boundary keeps missing (D7)
    ('point', 'float64', [None, [1, 2]], []), ('multipoint', 'float64', [None, [1, 2]], []),
    ('line', 'float64', [None, [1, 2, 3, 4]], []), ('ring', 'float64', [None, [1, 2, 3, 4, 1, 2]], []),
    ('multiline', 'float64', [None, [[1, 2, 3, 4]]], []),             # missing -> NaN (repaired)
    ('polygon', 'float64', [[[0, 0, 1, 0, 1, 1, 0, 0]], []], []),
    ('multipolygon', 'float64', [[[[0, 0, 1, 0, 1, 1, 0, 0]], []]], []),
    ('multipolygon', 'float64', [[], [[]], [[[]]], None], []),
    ('polygon', 'int16', [[[0, 0, 30000, 0, 30000, 30000, 0, 0]]], []),   # no int16 wrap-around
    # more rings than coordinate values before the last ring (scalar buffer_inner_offsets)
    ('multiline', 'float64', [[[], [], [], [], [0, 0, 3, 4]]], []),
    ('polygon', 'float64', [[[], [], [], [], [], [], [], [], [0, 0, 3, 0, 3, 4, 0, 0]]], []),
    ('multipolygon', 'float64', [[[[], [], [], [], [], [], [], [], [0, 0, 3, 0, 3, 4, 0, 0]]]], []),
]


def gen_arrays(rep, tier):
    rng = rep.rng
    quick = tier == 'quick'
    for kind, st, els, desc in CORPUS:
        yield kind, st, els, desc
    for kind in G.KINDS:
        for st in G.SUBTYPES:
            isf = st.startswith('float')
            space = element_space(rng, kind, tier, isf)
            chunks = [space[i:i + 3] for i in range(0, len(space), 3)]
            if st != 'float64':
                chunks = rng.sample(chunks, min(len(chunks), max(3, len(chunks) // (12 if quick else 3))))
            for ch in chunks:
                els = list(ch)
                if rng.random() < 0.5:
                    els.insert(rng.randint(0, len(els)), None)
                yield kind, st, els, rng.choice([0, 0, 1, 2])
    # random structured stream, wider coordinate bands inside each subtype's exact range
    band = {'float64': 1 << 20, 'float32': 1 << 10, 'int64': 1 << 20, 'int32': 1 << 14, 'int16': 100}
    nrand = 25 if quick else 300
    for kind in G.KINDS:
        for st in G.SUBTYPES:
            for _ in range(nrand):
                hi = rng.choice([6, 6, band[st]])
                n = rng.choice([0, 1, 2, 3, 5, 8])
                els = G.rand_elements(rng, kind, n, lo=-hi, hi=hi,
                                      nan_p=0.0 if not st.startswith('float') else rng.choice([0, 0.2]))
                if kind in ('polygon', 'multipolygon') and rng.random() < 0.7:
                    els = [_close(e) for e in els]
                yield kind, st, els, rng.randint(0, 3)


def _close(e):
    """close every ring of a random polygon / multipolygon element"""
    if e is None:
        return None
    if e and isinstance(e[0], list):
        return [_close(x) for x in e]
    return list(e) + list(e[:2]) if len(e) >= 2 else list(e)


def direct_scalars(rep, ctx):
    """scalars built directly from nested lists (not through an array)"""
    for kind in ('multipoint', 'line', 'ring', 'multiline', 'polygon', 'multipolygon'):
        space = element_space(rep.rng, kind, 'quick', True)
        for el in space[:: max(1, len(space) // 150)]:
            try:
                e = G.scalar_class(kind)(el)
            except Exception:
                rep.count('scalar_construct_error')
                continue
            rep.evaluations += 1
            check_scalar(rep, ctx, kind, e, el,
                         {'kind': kind, 'subtype': 'float64', 'elements': [el], 'derivation': [],
                          'direct_scalar': True})


def run(rep):
    tier = getattr(rep, 'tier_run', rep.tier)
    rep.rule = ('arrays of all 7 kinds x 5 subtypes: element shapes enumerated (ring counts 0..3 over a '
                'library of rings with 0..5 vertices: empty, <3 vertices, closed-degenerate, collinear, '
                'both windings, unclosed, bow-tie, NaN vertices; parts 0..3; lines with every NaN pattern '
                'over <=4 vertices), 3 shapes per array plus a missing element, 0-2 derivation steps '
                '(slice/take/rotate-concat/mask/reverse), then a seeded random structured stream with '
                'coordinates up to each subtype\'s exact band; a case is non-trivial when some ring has '
                '>= 2 vertices; distinct = distinct (kind, subtype, exported buffers)')
    ctx = Ctx()
    # The map kernels are parallel=True; on a loaded machine one parallel launch costs ~0.1 s.
    # The bulk runs on one numba thread; every 25th array is recomputed on all threads and must
    # give bit-identical results (rows are independent).
    import numba
    nthreads = numba.get_num_threads()
    numba.set_num_threads(1)
    try:
        for n, (kind, st, els, nder) in enumerate(gen_arrays(rep, tier)):
            if n % 25 == 0:
                numba.set_num_threads(nthreads)
            if isinstance(nder, list):
                check_array(rep, ctx, kind, st, els, desc=nder)
            else:
                check_array(rep, ctx, kind, st, els, nder)
            if n % 25 == 0:
                rep.count('all_threads')
                numba.set_num_threads(1)
    finally:
        numba.set_num_threads(nthreads)
    direct_scalars(rep, ctx)
    ctx.flush(rep)
    rep.extra['coq_cases'] = {'array': len(ctx.arr.cases), 'scalar': len(ctx.sc.cases),
                              'point': len(ctx.pt.cases), 'boundary': len(ctx.bd.cases),
                              'scalar_boundary': len(ctx.sb.cases)}


def replay(rep, rp):
    ctx = Ctx()
    els = U.unjson(rp['elements'])
    if rp.get('direct_scalar'):
        e = G.scalar_class(rp['kind'])(els[0])
        check_scalar(rep, ctx, rp['kind'], e, els[0], {k: rp[k] for k in ('kind', 'subtype')})
    else:
        check_array(rep, ctx, rp['kind'], rp['subtype'], els, desc=rp.get('derivation') or [])
    ctx.flush(rep)
    for v in rep.violations:
        print(v['signature'], '-', v['what'])
        for k in ('impl', 'model'):
            if k in v['replay']:
                print(f'  {k}: {v["replay"][k]}')
    return not rep.violations
