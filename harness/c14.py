"""C14 — length, area and boundary are the exact measures of each element.

Correspondence: .length / .area of real arrays of every kind (array form), of their
elements (scalar form `arr[i]`, and scalars built directly from nested lists),
.boundary of polygon / multipolygon arrays and scalars, against Model/Measures.v
evaluated by the Coq kernel on the exported buffers.

* area: 2*area must be an integer and equal the model's doubled area exactly.
* length: the model yields the arguments of the summed sqrt's, in order.  The harness
  computes the same list independently from the decoded element (squared lengths of
  the segments with both ends finite), the kernel checks model list = that list; if
  every term is a perfect square the implementation's float must be the exact integer
  sum (checked in the kernel), otherwise |impl - fsum(sqrt t)| <= 1e-12 * fsum.
* metamorphic: translation invariance, GeoSeries.area/.length, length(boundary) = length.
"""
import itertools
import math

import numpy as np

from . import common as C
from . import geomgen as G
from . import c14_util as U

ANCHOR_FILES = ['spatialpandas/geometry/_algorithms/measures.py',
                'spatialpandas/geometry/baselist.py', 'spatialpandas/geometry/polygon.py',
                'spatialpandas/geometry/multipolygon.py', 'spatialpandas/geometry/line.py',
                'spatialpandas/geometry/multiline.py', 'spatialpandas/geometry/multipoint.py',
                'spatialpandas/geometry/point.py', 'spatialpandas/geometry/ring.py']
TRUSTED = ['numba\'s compiled float64 arithmetic is IEEE-754 binary64 in source order (d*d for **2, sqrtsd, no '
           'FMA, strict left-to-right accumulation): validated bit-for-bit, no tolerance, against the '
           'primitive-float model coq/Model/FloatMeasures.v on every run (harness/c14_float.py); exactness '
           'of the float area on integer coordinates is a theorem (f_area_exact_int)',
           'Coq.Floats.FloatAxioms / Uint63 specifications of the kernel\'s primitive floats and integers '
           '(standard-library axioms used by the f_* theorems), Flocq 4.1.0',
           'pyarrow buffers() of arr.__arrow_array__() (harness/c14_util.py export_la / decode)']

IMPORTS = 'Model.Num Model.Arrow Model.Measures Spec.MeasuresSpec Proofs.MeasuresMapProofs'
# Only PUBLIC observations can raise an alarm: .length / .area / .boundary of arrays and of
# arr[i] / directly built scalars, len / dtype / class, and the buffers of
# arr.__arrow_array__() of the INPUT arrays (fed to the model) and of result arrays (DECODED:
# elements and missing mask, never the buffer layout).  Buffer layouts of results and the
# private `.listarray` of scalars are optional internal extras (counted, never reported).
# wf_listarr and even_inner are the guards of the theorems: asserted on every real array.
# Areas are compared only on rows inside the property's scope (every ring finite and closed);
# elsewhere (unclosed / NaN-vertex rings) both sides are masked.
ARR_FN = ("fun '(k, a, mask) => if wf_listarr a && even_inner a "
          "then Some (arr_length k a, mask_num mask (arr_area k a)) else None")
ARR_TY = 'kind * listarr * list bool'
ARR_RES = 'option (list (option lenres) * list num)'
ARR_INT_FN = "fun '(k, a) => arr_area k a"
SC_FN = ("fun '(k, s, inscope) => if sc_wf s && all_even (sc_inner_offsets s) "
         "then Some (sc_length k s, if inscope : bool then sc_area k s else None) else None")
SC_TY = 'kind * listarr * bool'
SC_RES = 'option (lenres * num)'
SC_INT_FN = "fun '(k, s) => sc_measures k s"
PT_FN = 'fun a => if wf_fixarr a then Some (pt_measures a) else None'
DEC = 'list (option (list (list (list num))))'
BD_FN = ("fun '(k, a) => if wf_listarr a && even_inner a then Some (decode_elems KMultiLine "
         "(match k with KPolygon => polygon_boundary a | _ => multipolygon_boundary a end)) else None")
BD_INT_FN = ("fun '(k, a, b) => eqbc (la_view (match k with KPolygon => polygon_boundary a "
             "| _ => multipolygon_boundary a end)) (la_view b)")
SB_FN = ("fun '(k, s) => sc_rings (match k with KPolygon => sc_polygon_boundary s "
         "| _ => sc_multipolygon_boundary s end)")
SB_INT_FN = ("fun '(k, s, b) => eqbc (sc_view (match k with KPolygon => sc_polygon_boundary s "
             "| _ => sc_multipolygon_boundary s end)) (sc_view b)")


class Ctx:
    def __init__(self):
        self.arr = U.Batch(IMPORTS, ARR_FN, ARR_TY, ARR_RES)
        self.sc = U.Batch(IMPORTS, SC_FN, SC_TY, SC_RES)
        self.pt = U.Batch(IMPORTS, PT_FN, 'fixarr', ARR_RES)
        self.bd = U.Batch(IMPORTS, BD_FN, 'kind * listarr', f'option ({DEC})')
        self.sb = U.Batch(IMPORTS, SB_FN, 'kind * listarr', 'list (list num)')
        # optional internal extras
        self.arr_int = U.Batch(IMPORTS, ARR_INT_FN, 'kind * listarr', 'list num',
                               internal='area-out-of-scope-rows')
        self.sc_int = U.Batch(IMPORTS, SC_INT_FN, 'kind * listarr', 'lenres * num',
                              internal='scalar-listarray')
        self.bd_int = U.Batch(IMPORTS, BD_INT_FN, 'kind * listarr * listarr', 'bool',
                              internal='boundary-buffer-layout')
        self.sb_int = U.Batch(IMPORTS, SB_INT_FN, 'kind * listarr * listarr', 'bool',
                              internal='scalar-boundary-buffer-layout')
        self.seen_scalars = set()

    def flush(self, rep):
        n = 0
        for b in (self.arr, self.sc, self.pt, self.bd, self.sb,
                  self.arr_int, self.sc_int, self.bd_int, self.sb_int):
            n += b.flush(rep)
        return n


def _same(a, b):
    a = np.asarray(a, dtype='float64')
    b = np.asarray(b, dtype='float64')
    return a.shape == b.shape and bool(np.all((a == b) | (np.isnan(a) & np.isnan(b))))


def _near(a, b):
    """lengths: equal, both NaN, or within the property's 1e-12 relative (two correct float
    evaluations may sum in different orders)"""
    a = np.asarray(a, dtype='float64')
    b = np.asarray(b, dtype='float64')
    if a.shape != b.shape:
        return False
    with np.errstate(invalid='ignore'):
        ok = (a == b) | (np.isnan(a) & np.isnan(b)) | \
             (np.abs(a - b) <= 2e-12 * np.maximum(np.abs(a), np.abs(b)))
    return bool(np.all(ok))


def area_in_scope(rs):
    """rows on which the property speaks about areas: every ring finite and closed"""
    return rs is None or all(U.closed_finite(r) for r in rs)


def length_result(rep, f, rings, kind, st, meta, form):
    """the model-typed result for an implementation length `f` of an element whose
    decoded rings are `rings` (None = missing).  Reports tolerance failures itself."""
    f = float(f)
    if math.isnan(f):
        return None
    terms = [t for r in (rings or []) for t in U.sq_terms(r)]
    if kind in ('multipoint', 'point'):
        terms = []
    if all(U.is_square(t) for t in terms):
        if not (math.isfinite(f) and f == int(f)):
            rep.violation(f'length-differs:{kind}',
                          f'{kind} {form} length {f!r} is not the exact sum of integer segment '
                          f'lengths {sum(math.isqrt(t) for t in terms)}',
                          {**meta, 'impl_length': f, 'terms': terms})
            return C.Some((terms, C.Some(sum(math.isqrt(t) for t in terms))))
        return C.Some((terms, C.Some(int(f))))
    want = math.fsum(math.sqrt(t) for t in terms)
    if not abs(f - want) <= 1e-12 * want:
        rep.violation(f'length-differs:{kind}',
                      f'{kind} {form} length {f!r} (subtype {st}) differs from the sum of segment '
                      f'lengths {want!r} by more than 1e-12 relative',
                      {**meta, 'impl_length': f, 'exact': want, 'terms': terms})
    return C.Some((terms, None))


def area_result(rep, a, kind, meta, form, strict=True):
    a = float(a)
    if not math.isfinite(a):
        return None
    d = 2.0 * a
    if d != int(d):
        if strict:
            rep.violation(f'area-differs:{kind}', f'{kind} {form} area {a!r}: 2*area is not an '
                          f'integer on integer coordinates', {**meta, 'impl_area': a})
        return C.Some(0)
    return C.Some(int(d))


def check_array(rep, ctx, kind, st, els, nder=0, desc=None, extras=True):
    """all C14 checks on one array; Coq cases are queued in ctx"""
    rng = rep.rng
    try:
        arr = G.make_array(kind, els, st) if desc is None else U.rebuild(kind, st, els, desc)
    except Exception as e:
        rep.count('construct_error:' + type(e).__name__)
        return
    if desc is None:
        arr, desc = G.derive(rng, arr, nder)
    meta = {'kind': kind, 'subtype': st, 'elements': els, 'derivation': desc}
    pa_arr = U.pa_of(arr)
    if str(pa_arr.type) == 'null':
        rep.count('null_typed_skipped')
        return
    rep.evaluations += 1
    rep.count(kind)
    if desc:
        rep.count('derived')
    # ---- point arrays: zeros, NaN for missing
    if kind == 'point':
        try:
            L, A = np.asarray(arr.length), np.asarray(arr.area)
            isna = [bool(x) for x in arr.isna()]
        except Exception as e:
            rep.violation(f'raises:{kind}:{type(e).__name__}', f'{kind} length/area raised', meta)
            return
        res = C.Some(([length_result(rep, v, None, kind, st, meta, 'array') for v in L],
                      [area_result(rep, v, kind, meta, 'array') for v in A]))
        rec = C.Rec('Build_fixarr', C.Nat(0), C.Nat(len(arr)), C.Some([not x for x in isna]),
                    [C.Some(0)] * (2 * len(arr)))
        ctx.pt.add(rec, res, f'measures-differ:{kind}',
                   f'{kind} array length/area differ from the model', meta)
        for i in range(len(arr)):
            e = arr[i]
            if (e is None) != isna[i]:
                rep.violation('isna-differs:point', 'arr[i] is None disagrees with isna()', meta)
            if e is not None and not (e.length == 0.0 and e.area == 0.0):
                rep.violation('measures-differ:point-scalar', 'Point.length/area not 0', meta)
        return
    try:
        rec = U.export_la(arr)
    except ValueError:
        rep.count('null_typed_skipped')
        return
    dec = U.decode(arr)
    if any(d is None for d in dec):
        rep.count('has_missing')
    if pa_arr.offset:
        rep.count('nonzero_offset')
    if any(G.has_nonfinite(d) for d in dec):
        rep.count('has_nonfinite')
    K = C.Raw(U.KIND_CTOR[kind])
    # ---- array form
    try:
        L, A = np.asarray(arr.length), np.asarray(arr.area)
    except Exception as e:
        rep.violation(f'raises:{kind}:{type(e).__name__}', f'{kind} length/area raised', meta)
        return
    if len(L) != len(arr) or len(A) != len(arr) or L.dtype != np.float64 or A.dtype != np.float64:
        rep.violation(f'measures-shape:{kind}', 'length/area not float64 arrays of len(self)', meta)
        return
    rings = [U.rings_of(kind, d) for d in dec]
    scope = [area_in_scope(rs) for rs in rings]
    lres = [length_result(rep, L[i], rings[i], kind, st, meta, 'array') for i in range(len(arr))]
    ares = [area_result(rep, A[i], kind, meta, 'array', strict=scope[i]) for i in range(len(arr))]
    ctx.arr.add((K, rec, scope), C.Some((lres, [a if m else None for a, m in zip(ares, scope)])),
                f'measures-differ:{kind}', f'{kind} array length/area differ from the model', meta)
    if not all(scope):
        rep.count('rows_outside_area_scope', scope.count(False))
        ctx.arr_int.add((K, rec), ares, '', '', meta)
    if any(r and any(len(x) >= 4 for x in r) for r in rings if r is not None):
        rep.nontrivial((kind, st, repr(rec)))
    # independent oracle for areas of closed finite rings (Python integers)
    if kind in ('polygon', 'multipolygon'):
        for i, rs in enumerate(rings):
            if rs is not None and scope[i]:
                want = sum(U.shoelace2(r) for r in rs)
                if not (math.isfinite(A[i]) and 2 * A[i] == want):
                    rep.violation(f'area-not-shoelace:{kind}',
                                  f'{kind} area {A[i]!r} != shoelace {want}/2 of closed rings',
                                  {**meta, 'row': i})
    # ---- scalar form
    for i in range(len(arr)):
        try:
            e = arr[i]
        except Exception as ex:
            rep.violation(f'raises:{kind}-getitem:{type(ex).__name__}', 'arr[i] raised', meta)
            continue
        if (e is None) != (dec[i] is None):
            rep.violation(f'isna-differs:{kind}', 'arr[i] is None disagrees with the validity bitmap',
                          {**meta, 'row': i})
            continue
        if e is None:
            continue
        check_scalar(rep, ctx, kind, e, dec[i], {**meta, 'row': i}, arr_len=L[i], arr_area=A[i])
        if G.LEVELS[kind] > 1 and any(len(r) == 0 for r in rings[i]):
            rep.count('scalar_with_empty_ring')
    if not extras:
        return
    # ---- boundary
    if kind in ('polygon', 'multipolygon'):
        check_boundary(rep, ctx, kind, arr, rec, dec, L, meta)
    # ---- translation invariance (fresh array of the translated decoded elements)
    dx, dy = rng.randint(-7, 7), rng.randint(-7, 7)
    try:
        arr2 = G.make_array(kind, [U.translate(d, dx, dy) for d in dec], st)
    except Exception as ex:
        rep.count('translate_error:' + type(ex).__name__)
        arr2 = None
    if arr2 is not None and str(U.pa_of(arr2).type) != 'null':
        # the area of an unclosed ring is not translation invariant (area_unclosed_refuted):
        # compare areas only on the rows inside the scope
        A2 = np.where(np.array(scope, dtype=bool), np.asarray(arr2.area), A)
        if not (_near(arr2.length, L) and _same(A2, A)):
            rep.violation(f'translate-changes:{kind}',
                          f'{kind} length/area change under translation by ({dx},{dy})',
                          {**meta, 'shift': [dx, dy], 'before': [list(L), list(A)],
                           'after': [list(arr2.length), list(arr2.area)]})
        rep.count('translated')
    # ---- GeoSeries
    if rep.evaluations % 5 == 0:
        from spatialpandas import GeoSeries
        s = GeoSeries(arr, index=list(range(7, 7 + len(arr))))
        sa, sl = s.area, s.length
        if not (_same(sa.values, A) and _near(sl.values, L) and list(sa.index) == list(s.index)
                and list(sl.index) == list(s.index)):
            rep.violation(f'agree:series:{kind}', 'GeoSeries.area/length differ from the array\'s', meta)
        rep.count('series_agree')


def check_scalar(rep, ctx, kind, e, d, meta, arr_len=None, arr_area=None):
    K = C.Raw(U.KIND_CTOR[kind])
    try:
        l, a = e.length, e.area
    except Exception as ex:
        rep.violation(f'raises:{kind}-scalar:{type(ex).__name__}', 'scalar length/area raised', meta)
        return
    rs = U.rings_of(kind, d)
    inscope = area_in_scope(rs)
    lres = length_result(rep, l, rs, kind, 'float64', meta, 'scalar')
    ares = area_result(rep, a, kind, meta, 'scalar', strict=inscope)
    if arr_len is not None:
        # scalar and array forms agree (areas: on the rows inside the scope)
        if not (_near(l, arr_len) and (_same(a, arr_area) or not inscope)):
            rep.violation(f'scalar-array-differ:{kind}',
                          f'{kind}: arr[i].length/area ({l!r}, {a!r}) != arr.length/area[i] '
                          f'({arr_len!r}, {arr_area!r})', meta)
    rep.count('scalar')
    # a scalar holds the element's own nested lists: identical (kind, element) pairs give
    # identical scalars whatever array they came from; evaluate the model once per distinct one
    key = (kind, meta['subtype'].startswith('float'), repr(d))
    if key in ctx.seen_scalars:
        return
    ctx.seen_scalars.add(key)
    fresh = U.fresh_scalar(kind, d)
    ctx.sc.add((K, fresh, inscope),
               C.Some((lres.v if lres is not None else ([], None), ares if inscope else None)),
               f'measures-differ:{kind}-scalar', f'{kind} scalar length/area differ from the model',
               meta)
    # optional: the model's transcription of the private buffer arithmetic on the scalar's own buffers
    srec = None
    try:
        if len(ctx.seen_scalars) % 3 == 0:      # a third of the distinct scalars
            srec = U.export_scalar_internal(e)
        if srec is not None:
            ctx.sc_int.add((K, srec), (lres.v if lres is not None else ([], None), ares), '', '', meta)
    except Exception:
        rep.count('internal-unavailable:scalar-listarray')
    if kind in ('polygon', 'multipolygon'):
        from spatialpandas.geometry import MultiLine, MultiLineArray
        try:
            eb = e.boundary
        except Exception as ex:
            rep.violation(f'raises:{kind}-scalar-boundary:{type(ex).__name__}',
                          f'{type(e).__name__}.boundary raised {type(ex).__name__}',
                          {**meta, 'repro': f'{type(e).__name__}({d!r}).boundary'})
            return
        if not isinstance(eb, MultiLine):
            rep.violation(f'boundary-type:{kind}-scalar', 'scalar boundary is not a MultiLine', meta)
            return
        public = True
        try:
            got = U.decode(MultiLineArray([eb]))[0]     # public: the scalar put in an array
        except Exception:
            # the array constructors reject some scalars with only empty lines; fall back to the
            # scalar's pyarrow value (not part of the public surface: counted, not reported)
            public = False
            rep.count('scalar-boundary-not-wrappable')
            try:
                got = eb.data.as_py()
            except Exception:
                got = None
                rep.count('internal-unavailable:scalar-data')
        if not _near(eb.length, l):
            rep.violation(f'boundary-length:{kind}-scalar', 'length(scalar boundary) != scalar length',
                          {**meta, 'boundary_length': float(eb.length), 'length': float(l)})
        elif got is None and not public:
            pass
        elif got is None or not _nan_equal(got, rs):
            if public:
                rep.violation(f'boundary-rings:{kind}-scalar', 'scalar boundary does not hold exactly '
                              'the element\'s rings', {**meta, 'boundary': got})
            else:
                rep.count('internal-differs-public-agrees:scalar-boundary-content')
        else:
            ctx.sb.add((K, fresh), [[U._num_of(v) for v in r] for r in got],
                       f'boundary-differs:{kind}-scalar',
                       f'{kind} scalar boundary rings differ from the model', meta)
        try:
            if srec is not None:
                ctx.sb_int.add((K, srec, U.export_scalar_internal(eb)), True, '', '', meta)
        except Exception:
            rep.count('internal-unavailable:scalar-listarray')
        rep.count('scalar_boundary')


def check_boundary(rep, ctx, kind, arr, rec, dec, L, meta):
    from spatialpandas.geometry import MultiLineArray
    K = C.Raw(U.KIND_CTOR[kind])
    try:
        b = arr.boundary
    except Exception as ex:
        rep.violation(f'raises:{kind}-boundary:{type(ex).__name__}', 'boundary raised', meta)
        return
    if not isinstance(b, MultiLineArray) or len(b) != len(arr):
        rep.violation(f'boundary-type:{kind}', 'boundary is not a MultiLineArray of the same length', meta)
        return
    if str(U.pa_of(b).type) == 'null' or U.is_null_typed(U.pa_of(b)):
        rep.count('null_typed_skipped')
        return
    bdec = U.decode(b)
    want = [U.rings_of(kind, d) for d in dec]
    if not _nan_equal(bdec, want):
        rep.violation(f'boundary-rings:{kind}', 'boundary does not hold exactly the rings '
                      '(missing must stay missing)', {**meta, 'boundary': bdec})
    elif str(b.dtype) != str(arr.dtype).replace(kind, 'multiline'):
        rep.violation(f'boundary-dtype:{kind}', f'boundary dtype {b.dtype} for {arr.dtype}', meta)
    else:
        # the model's boundary decodes to the same elements (whatever buffers the library built)
        ctx.bd.add((K, rec), C.Some(U.coq_decoded('multiline', bdec)), f'boundary-differs:{kind}',
                   f'{kind} array boundary elements differ from the model', meta)
    if not _near(b.length, L):
        rep.violation(f'boundary-length:{kind}', 'length(boundary) != length',
                      {**meta, 'boundary_length': list(b.length), 'length': list(L)})
    rep.count('boundary')
    try:
        ctx.bd_int.add((K, rec, U.export_la(b)), True, '', '', meta)
    except Exception:
        rep.count('internal-unavailable:boundary-buffer-layout')


def _nan_equal(a, b):
    return U._nan_eq(a, b)


# ---------------------------------------------------------------------------
# enumeration
# ---------------------------------------------------------------------------
def element_space(rng, kind, tier, with_nan):
    quick = tier == 'quick'
    if kind == 'point':
        return [[1, 2], [0, 0], [-3, 4]] + ([[U.NAN, 1], [U.NAN, U.NAN]] if with_nan else [])
    if kind == 'multipoint':
        return [[], [1, 2], [1, 2, 3, 4], [0, 0, 3, 4, 3, 0]] + ([[U.NAN, 1, 2, 3]] if with_nan else [])
    if kind in ('line', 'ring'):
        return U.line_library(with_nan)
    if kind == 'multiline':
        lib = [[], [1, 2], [0, 0, 3, 4], [0, 0, 1, 2, 3, 3], [0, 0, 0, 5, 12, 0, 12, 5]]
        if with_nan:
            lib += [[0, 0, U.NAN, 1, 3, 4], [U.NAN, U.NAN], [0, 0, 3, 4, 3, U.NAN, 0, 0]]
        out = [list(t) for n in range(0, 4) for t in itertools.product(lib, repeat=n)]
        out += [[[]] * k + [l] for k in (4, 6, 9) for l in lib[1:]]     # many empty parts first
        return out
    rl = U.ring_library(with_nan)
    if kind == 'polygon':
        out = [list(t) for n in range(0, 3) for t in itertools.product(rl, repeat=n)]
        three = [list(t) for t in itertools.product(rl, repeat=3)]
        out += rng.sample(three, 250) if quick else three
        out += [[[]] * k + [r] for k in (4, 8, 11) for r in rl[1:]]     # many empty rings first
        return out
    if kind == 'multipolygon':
        srl = [rl[0], rl[1], rl[5], rl[8], rl[9], rl[11], rl[12]] + (rl[19:21] if with_nan else [])
        polys = [list(t) for n in range(0, 3) for t in itertools.product(srl, repeat=n)]
        out = [[]] + [[p] for p in polys]
        two = [[p, q] for p in polys for q in polys]
        out += rng.sample(two, 250) if quick else two
        n3 = 250 if quick else 8000
        out += [[rng.choice(polys) for _ in range(3)] for _ in range(n3)]
        return out
    raise ValueError(kind)


# always-run corpus: witnesses of the repaired defects and hand-picked corner cases
CORPUS = [
    ('line', 'float32', [[0, 0, 1, 1, 3, 2]], []),                    # float32 rounding (repaired)
    ('polygon', 'float32', [[[0, 0, 1, 3, 3, 1, 0, 0]]], []),
    ('multipolygon', 'float64', [[[[0, 0, 1, 0, 1, 1, 0, 0]]]], []),  # scalar boundary raised (repaired)
    ('multipolygon', 'float64', [[[[0, 0, 2, 0, 2, 2, 0, 0]]], None, [[[5, 5, 7, 5, 6, 8, 5, 5]]]],
     [('slice', 1, 3)]),                                              # boundary keeps missing (D7)
    ('point', 'float64', [None, [1, 2]], []), ('multipoint', 'float64', [None, [1, 2]], []),
    ('line', 'float64', [None, [1, 2, 3, 4]], []), ('ring', 'float64', [None, [1, 2, 3, 4, 1, 2]], []),
    ('multiline', 'float64', [None, [[1, 2, 3, 4]]], []),             # missing -> NaN (repaired)
    ('polygon', 'float64', [[[0, 0, 1, 0, 1, 1, 0, 0]], []], []),
    ('multipolygon', 'float64', [[[[0, 0, 1, 0, 1, 1, 0, 0]], []]], []),
    ('multipolygon', 'float64', [[], [[]], [[[]]], None], []),
    ('polygon', 'int16', [[[0, 0, 30000, 0, 30000, 30000, 0, 0]]], []),   # no int16 wrap-around
    # more rings than coordinate values before the last ring (scalar buffer_inner_offsets)
    ('multiline', 'float64', [[[], [], [], [], [0, 0, 3, 4]]], []),
    ('polygon', 'float64', [[[], [], [], [], [], [], [], [], [0, 0, 3, 0, 3, 4, 0, 0]]], []),
    ('multipolygon', 'float64', [[[[], [], [], [], [], [], [], [], [0, 0, 3, 0, 3, 4, 0, 0]]]], []),
]


def gen_arrays(rep, tier):
    rng = rep.rng
    quick = tier == 'quick'
    for kind, st, els, desc in CORPUS:
        yield kind, st, els, desc
    for kind in G.KINDS:
        for st in G.SUBTYPES:
            isf = st.startswith('float')
            space = element_space(rng, kind, tier, isf)
            chunks = [space[i:i + 3] for i in range(0, len(space), 3)]
            if st != 'float64':
                chunks = rng.sample(chunks, min(len(chunks), max(3, len(chunks) // (12 if quick else 3))))
            for ch in chunks:
                els = list(ch)
                if rng.random() < 0.5:
                    els.insert(rng.randint(0, len(els)), None)
                yield kind, st, els, rng.choice([0, 0, 1, 2])
    # random structured stream, wider coordinate bands inside each subtype's exact range
    band = {'float64': 1 << 20, 'float32': 1 << 10, 'int64': 1 << 20, 'int32': 1 << 14, 'int16': 100}
    nrand = 25 if quick else 300
    for kind in G.KINDS:
        for st in G.SUBTYPES:
            for _ in range(nrand):
                hi = rng.choice([6, 6, band[st]])
                n = rng.choice([0, 1, 2, 3, 5, 8])
                els = G.rand_elements(rng, kind, n, lo=-hi, hi=hi,
                                      nan_p=0.0 if not st.startswith('float') else rng.choice([0, 0.2]))
                if kind in ('polygon', 'multipolygon') and rng.random() < 0.7:
                    els = [_close(e) for e in els]
                yield kind, st, els, rng.randint(0, 3)


def _close(e):
    """close every ring of a random polygon / multipolygon element"""
    if e is None:
        return None
    if e and isinstance(e[0], list):
        return [_close(x) for x in e]
    return list(e) + list(e[:2]) if len(e) >= 2 else list(e)


# ---------------------------------------------------------------------------
# histories: operations that must not affect the array they are called on
# ---------------------------------------------------------------------------
def snapshot(kind, a):
    """everything C14 observes on one array object"""
    snap = {'length': np.array(a.length, dtype='float64'), 'area': np.array(a.area, dtype='float64'),
            'isna': np.array(a.isna(), dtype=bool), 'bytes': U.buffers_bytes(a), 'len': len(a)}
    sc, pts = [], []
    for i in range(len(a)):
        e = a[i]
        sc.append(None if e is None else (float(e.length), float(e.area)))
        if kind == 'point':
            pts.append(None if e is None else [float(e.x), float(e.y)])
    snap['decode'] = pts if kind == 'point' else U.decode(a)
    snap['scalars'] = sc
    if kind in ('polygon', 'multipolygon'):
        b = a.boundary
        snap['boundary'] = None if U.is_null_typed(U.pa_of(b)) else U.decode(b)
        snap['boundary_isna'] = np.array(b.isna(), dtype=bool)
        snap['boundary_length'] = np.array(b.length, dtype='float64')
    return snap


def snap_diff(s0, s1):
    """names of the observations that differ between two snapshots"""
    out = []
    for k in s0:
        v0, v1 = s0[k], s1[k]
        if k in ('length', 'area', 'boundary_length'):
            same = _same(v0, v1)
        elif k in ('isna', 'boundary_isna'):
            same = v0.shape == v1.shape and bool((v0 == v1).all())
        elif k == 'scalars':
            same = len(v0) == len(v1) and all(
                (x is None and y is None) or (x is not None and y is not None and _same(x, y))
                for x, y in zip(v0, v1))
        elif k in ('decode', 'boundary'):
            same = U._nan_eq(v0, v1) if (v0 is not None and v1 is not None) else v0 is v1
        else:
            same = v0 == v1
        if not same:
            out.append(k)
    return out


def _filled(v, isna, how):
    """what ffill / bfill gives for per-row values v"""
    out = np.array(v, dtype='float64').copy()
    idx = range(len(v)) if how == 'ffill' else range(len(v) - 1, -1, -1)
    last = None
    for i in idx:
        if isna[i]:
            out[i] = np.nan if last is None else v[last]
        else:
            last = i
    return out


def history_ops(kind, a, s0):
    """(name, thunk) pairs; each thunk performs an operation that must leave `a` as it is and
    returns None or (result array, expected length, expected area) for a light check"""
    import pickle
    import pandas as pd
    from spatialpandas import GeoSeries
    L, A, na = s0['length'], s0['area'], s0['isna']
    n = len(a)
    first = next((a[i] for i in range(n) if not na[i]), None)
    fi = next((i for i in range(n) if not na[i]), None)

    def fill_value():
        if first is None:
            return None
        r = a.fillna(value=first)
        return r, np.where(na, L[fi], L), np.where(na, A[fi], A)

    def isna_mutate():
        m = a.isna()
        m[:] = False
        m2 = a.isna()
        m2[:] = True

    def measure_mutate():
        x = a.length
        x[:] = 0.0
        y = a.area
        y[:] = -1.0

    def take_all():
        return a.take(np.arange(n)), L, A

    def boundary():
        if kind in ('polygon', 'multipolygon'):
            b = a.boundary
            b.length
            b.isna()[:] = False

    def oriented():
        if kind in ('polygon', 'multipolygon'):
            o = a.oriented()
            o.area

    def series_fill(how):
        def f():
            r = getattr(pd.Series(a), how)().values
            return r, _filled(L, na, how), _filled(A, na, how)
        return f

    def concat():
        r = type(a)._concat_same_type([a, a])
        return r, np.concatenate([L, L]), np.concatenate([A, A])

    ops = [
        ('fillna_ffill', lambda: (a.fillna(method='ffill'), _filled(L, na, 'ffill'), _filled(A, na, 'ffill'))),
        ('fillna_bfill', lambda: (a.fillna(method='bfill'), _filled(L, na, 'bfill'), _filled(A, na, 'bfill'))),
        ('fillna_ffill_limit', lambda: (a.fillna(method='ffill', limit=1), None, None)),
        ('fillna_value', fill_value),
        ('isna_mutate', isna_mutate),
        ('measure_mutate', measure_mutate),
        ('copy', lambda: (a.copy(), L, A)),
        ('take', take_all),
        ('slice', lambda: (a[0:], L, A)),
        ('boundary', boundary),
        ('oriented', oriented),
        ('pickle', lambda: (pickle.loads(pickle.dumps(a)), L, A)),
        ('series_ffill', series_fill('ffill')),
        ('series_bfill', series_fill('bfill')),
        ('geoseries_measures', lambda: (GeoSeries(a).values, L, A)),
        ('concat', concat),
        ('dropna', lambda: (pd.Series(a).dropna().values, L[~na], A[~na])),
    ]
    return ops


def check_history(rep, kind, st, els, desc):
    try:
        a = U.rebuild(kind, st, els, desc)
    except Exception as e:
        rep.count('construct_error:' + type(e).__name__)
        return
    if str(U.pa_of(a).type) == 'null':
        rep.count('null_typed_skipped')
        return
    meta = {'kind': kind, 'subtype': st, 'elements': els, 'derivation': desc, 'history': True}
    rep.evaluations += 1
    rep.count('history')
    try:
        s0 = snapshot(kind, a)
    except Exception as e:
        rep.violation(f'raises:{kind}-history:{type(e).__name__}', 'measuring the array raised', meta)
        return
    # a fresh array of the same elements answers the same
    try:
        fresh = G.make_array(kind, s0['decode'], st) if kind != 'point' else None
        if fresh is not None and str(U.pa_of(fresh).type) != 'null':
            if not (_near(fresh.length, s0['length']) and _same(fresh.area, s0['area'])
                    and (np.array(fresh.isna()) == s0['isna']).all()):
                rep.violation(f'differs-from-fresh:{kind}',
                              'a derived array measures differently from a fresh array of its elements',
                              meta)
    except Exception as e:
        rep.count('fresh_error:' + type(e).__name__)
    done = []
    for name, op in history_ops(kind, a, s0):
        res = None
        try:
            res = op()
        except Exception as e:      # an operation the library / pandas version does not offer
            rep.count(f'history-op-unavailable:{name}:{type(e).__name__}')
        done.append(name)
        try:
            s1 = snapshot(kind, a)
        except Exception as e:
            rep.violation(f'source-broken-by:{name}:{kind}',
                          f'after {name} measuring the SAME array object raises {type(e).__name__}',
                          {**meta, 'operations': done})
            return
        diff = snap_diff(s0, s1)
        if diff:
            rep.violation(f'source-changed-by:{name}:{kind}',
                          f'{kind}: after {name} the SAME array object answers differently for {diff}',
                          {**meta, 'operations': done, 'changed': diff,
                           'before': [list(s0['length']), list(s0['area']), list(s0['isna'])],
                           'after': [list(s1['length']), list(s1['area']), list(s1['isna'])]})
            return
        if res is not None:
            r, wl, wa = res
            try:
                ok = (wl is None or _near(r.length, wl)) and (wa is None or _same(r.area, wa))
            except Exception as e:
                rep.count(f'history-op-unavailable:{name}-result:{type(e).__name__}')
                ok = True
            if not ok:
                rep.violation(f'history-result:{name}:{kind}',
                              f'{kind}: the result of {name} does not measure as expected',
                              {**meta, 'operations': done, 'result': [list(r.length), list(r.area)],
                               'expected': [None if wl is None else list(wl),
                                            None if wa is None else list(wa)]})
        rep.count('history_op')


def history_inputs():
    X = {'point': [[1, 2], [3, 4]], 'multipoint': [[1, 2, 3, 4], [0, 0]],
         'line': [[0, 0, 3, 4], [0, 0, 1, 1, 3, 2]], 'ring': [[0, 0, 3, 0, 3, 4, 0, 0], [0, 0, 1, 1, 0, 0]],
         'multiline': [[[0, 0, 3, 4], [1, 1, 1, 3]], [[0, 0, 1, 1]]],
         'polygon': [[[0, 0, 0, 12, 12, 12, 12, 0, 0, 0], [2, 2, 5, 2, 5, 5, 2, 5, 2, 2]], [[0, 0, 3, 0, 3, 4, 0, 0]]],
         'multipolygon': [[[[0, 0, 3, 0, 3, 4, 0, 0]], [[5, 5, 5, 7, 7, 7, 5, 5]]], [[[0, 0, 2, 0, 2, 2, 0, 2, 0, 0]]]]}
    for kind in G.KINDS:
        x, y = X[kind]
        for pat in ([x, None, y, None], [None, x], [x, None], [None, None, y, x], [x, y]):
            for st in ('float64', 'int32'):
                yield kind, st, list(pat), []
                if len(pat) > 2:
                    yield kind, st, [y] + list(pat), [('slice', 1, len(pat) + 1)]


def direct_scalars(rep, ctx):
    """scalars built directly from nested lists (not through an array)"""
    for kind in ('multipoint', 'line', 'ring', 'multiline', 'polygon', 'multipolygon'):
        space = element_space(rep.rng, kind, 'quick', True)
        for el in space[:: max(1, len(space) // 150)]:
            try:
                e = G.scalar_class(kind)(el)
            except Exception:
                rep.count('scalar_construct_error')
                continue
            rep.evaluations += 1
            check_scalar(rep, ctx, kind, e, el,
                         {'kind': kind, 'subtype': 'float64', 'elements': [el], 'derivation': [],
                          'direct_scalar': True})


def run(rep):
    tier = getattr(rep, 'tier_run', rep.tier)
    rep.rule = ('arrays of all 7 kinds x 5 subtypes: element shapes enumerated (ring counts 0..3 over a '
                'library of rings with 0..5 vertices: empty, <3 vertices, closed-degenerate, collinear, '
                'both windings, unclosed, bow-tie, NaN vertices; parts 0..3; lines with every NaN pattern '
                'over <=4 vertices), 3 shapes per array plus a missing element, 0-2 derivation steps '
                '(slice/take/rotate-concat/mask/reverse), then a seeded random structured stream with '
                'coordinates up to each subtype\'s exact band; histories: measure, apply an operation that '
                'must not affect its source (fillna by method / value, isna() and measure arrays mutated, copy, '
                'take, slice, boundary, oriented, pickle, Series ffill/bfill/dropna, concat), re-measure the '
                'SAME object (length, area, isna, decoded elements, scalars, boundary, buffer bytes); '
                'a case is non-trivial when some ring has '
                '>= 2 vertices; distinct = distinct (kind, subtype, exported buffers)')
    ctx = Ctx()
    # The map kernels are parallel=True; on a loaded machine one parallel launch costs ~0.1 s.
    # The bulk runs on one numba thread; every 25th array is recomputed on all threads and must
    # give bit-identical results (rows are independent).
    import numba
    nthreads = numba.get_num_threads()
    numba.set_num_threads(1)
    try:
        for n, (kind, st, els, nder) in enumerate(gen_arrays(rep, tier)):
            if n % 25 == 0:
                numba.set_num_threads(nthreads)
            if isinstance(nder, list):
                check_array(rep, ctx, kind, st, els, desc=nder)
            else:
                check_array(rep, ctx, kind, st, els, nder)
            if n % 25 == 0:
                rep.count('all_threads')
                numba.set_num_threads(1)
        for kind, st, els, desc in history_inputs():
            check_history(rep, kind, st, els, desc)
    finally:
        numba.set_num_threads(nthreads)
    direct_scalars(rep, ctx)
    ctx.flush(rep)
    rep.extra['coq_cases'] = {'array': len(ctx.arr.cases), 'scalar': len(ctx.sc.cases),
                              'point': len(ctx.pt.cases), 'boundary': len(ctx.bd.cases),
                              'scalar_boundary': len(ctx.sb.cases),
                              'internal_extras': len(ctx.arr_int.cases) + len(ctx.sc_int.cases)
                              + len(ctx.bd_int.cases) + len(ctx.sb_int.cases)}
    # float part: bit-exact binary64 model (Model/FloatMeasures.v), no tolerance
    try:
        from . import c14_float
        c14_float.run_float_measures(rep)
    except C.ModelUnavailable:
        raise
    except Exception as e:
        rep.violation(f'harness-error:float-measures:{type(e).__name__}',
                      f'the float-measure correspondence check could not run: {e}', {})


def replay(rep, rp):
    if rp.get('float_measures'):
        from . import c14_float
        return c14_float.replay(rep, rp)
    ctx = Ctx()
    els = U.unjson(rp['elements'])
    if rp.get('history'):
        check_history(rep, rp['kind'], rp['subtype'], els, rp.get('derivation') or [])
    elif rp.get('direct_scalar'):
        e = G.scalar_class(rp['kind'])(els[0])
        check_scalar(rep, ctx, rp['kind'], e, els[0], {k: rp[k] for k in ('kind', 'subtype')})
    else:
        check_array(rep, ctx, rp['kind'], rp['subtype'], els, desc=rp.get('derivation') or [])
    ctx.flush(rep)
    for v in rep.violations:
        print(v['signature'], '-', v['what'])
        for k in ('impl', 'model'):
            if k in v['replay']:
                print(f'  {k}: {v["replay"][k]}')
    return not rep.violations
