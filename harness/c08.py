"""C08 — a geometry's hilbert_distance is the curve position of its bbox centre.

Correspondence: GeometryArray.hilbert_distance of real arrays (all 7 kinds x 5
subtypes, missing / empty / NaN elements, derived buffers) with total_bounds
default / explicit / degenerate in x and/or y / not containing the data /
reversed, given as list, tuple, ndarray, list of ints, ... and p in 1..31,
against Model/Data2Coord.v evaluated by the Coq kernel (the result rows in the
exact-scaling regime and the caller's sequence after the call); in addition, on
every finite row (also outside the regime): the value lies in [0, 4^p), decodes
(classical curve, C07) to the grid cell that contains the bbox centre computed in
exact rational arithmetic (clamped to the border cells), and does not depend on
the other rows, the row's position, slicing, appended rows or partitioning; all
sequence types give equal results and are left unchanged; GeoSeries agrees.
"""
import copy
import math
from fractions import Fraction

import numpy as np

from . import common as C
from . import geomgen as G
from . import c07_util as U

ANCHOR_FILES = ['spatialpandas/geometry/base.py', 'spatialpandas/spatialindex/rtree.py',
                'spatialpandas/utils.py', 'spatialpandas/geoseries.py',
                'spatialpandas/spatialindex/hilbert_curve.py']
TRUSTED = ['numba\'s compiled float64 arithmetic is IEEE-754 binary64 in source order (no FMA contraction, no '
           'reassociation) and float->int64 of NaN gives INT64_MIN (x86-64): validated bit-for-bit against the '
           'primitive-float model coq/Model/FloatData2Coord.v on every run (harness/c08_float.py)',
           'Coq.Floats.FloatAxioms / Uint63 specifications of the kernel\'s primitive floats and integers '
           '(standard-library axioms used by the C08_f_* theorems)',
           'self.bounds / self.total_bounds are what C13 proves them to be (taken from the real array)']

IMPORTS = 'Model.Num Model.Bounds Model.Hilbert Model.Data2Coord'
CASE_TY = 'Z * arrview * option pyseq * nat'
RES_TY = 'outcome * option pyseq'
FN = "fun c => let '(one, av, tb, p) := c in hilbert_distance one av tb p"

MAX_SCALE_BITS = 160


# --------------------------------------------------------------------------
# exact units
# --------------------------------------------------------------------------
def frac_bits(x):
    """number of fractional bits of a finite float"""
    return Fraction(x).denominator.bit_length() - 1


def units(x, s):
    """finite float -> exact integer x * 2^s ; non-finite -> None"""
    if x is None or not math.isfinite(x):
        return None
    v = Fraction(x) * (1 << s)
    assert v.denominator == 1
    return int(v)


def unum(x, s):
    u = units(x, s)
    return None if u is None else C.Some(u)


def small(z):
    return abs(z) < (1 << 52)


def is_pow2(w):
    return w > 0 and (w & (w - 1)) == 0


def regime_range(lo, hi):
    return small(lo) and small(hi) and is_pow2(abs(hi - lo))


def regime_val(a, b):
    return a is not None and b is not None and small(a) and small(b) and (a + b) % 2 == 0


# --------------------------------------------------------------------------
# the caller's sequence
# --------------------------------------------------------------------------
SEQ_FORMS = ['tuple', 'list', 'ndarray', 'intlist', 'intarray', 'mixedlist', 'f32array', 'npscalars']


def make_seq(form, vals):
    """vals: 4 Python floats.  returns the object to pass, or None if the form cannot hold them"""
    integral = all(math.isfinite(v) and v == int(v) and abs(v) < 2 ** 53 for v in vals)
    if form == 'tuple':
        return tuple(vals)
    if form == 'list':
        return list(vals)
    if form == 'ndarray':
        return np.array(vals, dtype='float64')
    if form == 'intlist':
        return [int(v) for v in vals] if integral else None
    if form == 'intarray':
        return np.array([int(v) for v in vals], dtype='int64') if integral else None
    if form == 'mixedlist':
        return [int(v) if (i % 2 == 0) else float(v) for i, v in enumerate(vals)] if integral else None
    if form == 'f32array':
        a = np.array(vals, dtype='float32')
        return a if all(float(x) == v or (math.isnan(v) and math.isnan(float(x)))
                        for x, v in zip(a, vals)) else None
    if form == 'npscalars':
        return [np.float64(v) for v in vals]
    raise ValueError(form)


def seq_term(obj, s):
    """the caller's sequence as the model's pyseq"""
    if obj is None:
        return None
    if isinstance(obj, np.ndarray):
        kind = 'KNdarray'
        items = obj.tolist()
    elif isinstance(obj, tuple):
        kind, items = 'KTuple', list(obj)
    else:
        kind, items = 'KList', list(obj)
    out = []
    for v in items:
        if isinstance(v, (int, np.integer)) and not isinstance(v, bool):
            out.append(C.Rec('PyInt', int(v)))
        else:
            out.append(C.Rec('PyFloat', unum(float(v), s)))
    return C.Some(C.Rec('Build_pyseq', C.Raw(kind), out))


def snapshot(obj):
    if obj is None:
        return None
    if isinstance(obj, np.ndarray):
        return ('ndarray', str(obj.dtype), obj.shape, obj.tobytes())
    return (type(obj).__name__, tuple((type(v).__name__, repr(v)) for v in obj))


# --------------------------------------------------------------------------
# one call of the real code, and its image in the model's types
# --------------------------------------------------------------------------
def call_impl(arr, tbobj, p, via='array'):
    snap = snapshot(tbobj)
    try:
        if via == 'series':
            from spatialpandas import GeoSeries
            r = GeoSeries(arr).hilbert_distance(total_bounds=tbobj, p=p).values
        else:
            r = arr.hilbert_distance(total_bounds=tbobj, p=p)
        res = [int(x) for x in np.asarray(r).tolist()]
        exc = None
    except Exception as e:
        res, exc = None, type(e).__name__
    return res, exc, snapshot(tbobj) == snap


def effective_tb(arr, tbobj):
    """the four floats the wrapper works with after float() and widening (Python floats)"""
    src = arr.total_bounds if tbobj is None else tbobj
    vals = [float(b) for b in (src.tolist() if isinstance(src, np.ndarray) else src)]
    return vals


def case_scale(bounds, tbvals):
    fin = [v for row in bounds for v in row if math.isfinite(v)] + [v for v in tbvals if math.isfinite(v)]
    return 1 + max([frac_bits(v) for v in fin] + [0])


def model_case(arr, bounds, total, tbobj, p, s):
    rows = [tuple(unum(v, s) for v in row) for row in bounds]
    av = C.Rec('Build_arrview', rows, tuple(unum(v, s) for v in total))
    return (1 << s, av, seq_term(tbobj, s), C.Nat(p))


def regime_mask(bounds, tbvals, s):
    """rows the model answers (Some): transcription of hd1's guard"""
    one = 1 << s
    if len(tbvals) < 4 or not all(math.isfinite(v) for v in tbvals[:4]):
        return [False] * len(bounds)
    t = [units(v, s) for v in tbvals[:4]]
    # widening in the wrapper, then in _distances_from_bounds
    for lo, hi in ((0, 2), (1, 3)):
        if t[lo] == t[hi]:
            t[hi] += one
        if t[lo] == t[hi]:
            t[hi] += one
    if not (regime_range(t[0], t[2]) and regime_range(t[1], t[3])):
        return [False] * len(bounds)
    out = []
    for row in bounds:
        r = [units(v, s) for v in row]
        out.append(regime_val(r[0], r[2]) and regime_val(r[1], r[3]))
    return out


def exact_cells(bounds, tbvals, p, mask):
    """per row: None (non-finite) or ((cx, cy), safe): the cell of the exact bbox centre, clamped;
    safe = the row is in the exact regime (mask) or the scaled value is far enough from a cell
    boundary for binary64 rounding not to matter"""
    n = 1 << p
    t = [float(v) for v in tbvals[:4]]
    if not all(math.isfinite(v) for v in t):
        return [None] * len(bounds)
    # the widening as the floats do it
    if t[0] == t[2]:
        t[2] += 1.0
    if t[1] == t[3]:
        t[3] += 1.0
    if t[0] == t[2]:
        t[2] = t[2] + 1
    if t[1] == t[3]:
        t[3] = t[3] + 1
    if t[0] == t[2] or t[1] == t[3]:
        return [None] * len(bounds)
    out = []
    for row, inregime in zip(bounds, mask):
        if not all(math.isfinite(v) for v in row):
            out.append(None)
            continue
        cell, safe = [], True
        for d in (0, 1):
            lo, hi = Fraction(t[d]), Fraction(t[d + 2])
            mid = (Fraction(row[d]) + Fraction(row[d + 2])) / 2
            q = (mid - lo) * n / (hi - lo)
            c = min(max(math.floor(q), 0), n - 1)
            cell.append(c)
            near = min(abs(q - math.floor(q)), abs(math.ceil(q) - q)) if -1 <= q <= n else 1
            if not inregime and near < Fraction(1, 1 << 30) * max(1, abs(q)) \
                    and not floats_exact_dim(row, t, p, d):
                safe = False
        out.append((cell, safe))
    return out


def floats_exact_dim(row, t, p, d):
    """the binary64 pipeline of one row in dimension d, checked operation by operation against
    exact rationals"""
    n = 1 << p
    a, b, lo, hi = row[d], row[d + 2], t[d], t[d + 2]
    ssum = a + b
    if not math.isfinite(ssum) or Fraction(ssum) != Fraction(a) + Fraction(b):
        return False
    mid = ssum / 2.0
    if Fraction(mid) != Fraction(ssum) / 2:
        return False
    w = hi - lo
    if not math.isfinite(w) or w == 0 or Fraction(w) != Fraction(hi) - Fraction(lo):
        return False
    r = n / w
    if Fraction(r) != Fraction(n) / Fraction(w):
        return False
    dd = mid - lo
    if not math.isfinite(dd) or Fraction(dd) != Fraction(mid) - Fraction(lo):
        return False
    sc = dd * r
    if not math.isfinite(sc) or Fraction(sc) != Fraction(dd) * Fraction(r):
        return False
    return True


def floats_exact(row, t, p):
    return floats_exact_dim(row, t, p, 0) and floats_exact_dim(row, t, p, 1)


# --------------------------------------------------------------------------
# generation
# --------------------------------------------------------------------------
def scale_el(el, f):
    if el is None:
        return None
    if isinstance(el, list):
        return [scale_el(x, f) for x in el]
    return el * f


def frame_elements(kind, x0, y0, x1, y1):
    """elements whose union has exactly the given extent"""
    if kind == 'point':
        return [[x0, y0], [x1, y1]]
    if kind in ('multipoint', 'line'):
        return [[x0, y0, x1, y1]]
    if kind == 'ring':
        return [[x0, y0, x1, y0, x1, y1, x0, y0]]
    if kind in ('multiline', 'polygon'):
        return [[[x0, y0, x1, y0, x1, y1, x0, y1, x0, y0]]]
    return [[[[x0, y0, x1, y0, x1, y1, x0, y1, x0, y0]]]]


def gen_arrays(rep, tier):
    rng = rep.rng
    nrand = 45 if tier == 'quick' else 600
    out = []
    # small fixed corpus: empty, all-missing, single point, horizontal / vertical line, far outside
    out.append(('point', 'float64', [], 0, 'empty'))
    out.append(('line', 'float64', [], 0, 'empty'))
    out.append(('point', 'float64', [None, None], 0, 'all-missing'))
    out.append(('polygon', 'float64', [None], 0, 'all-missing'))
    out.append(('point', 'float64', [[3, 5]], 0, 'single-point'))
    out.append(('point', 'float64', [[3, 5], None, [3, 5]], 0, 'single-point'))
    out.append(('line', 'float64', [[0, 2, 8, 2]], 0, 'horizontal'))
    out.append(('line', 'float64', [[1, 0, 1, 4], None, []], 0, 'vertical'))
    out.append(('multipoint', 'float64', [[0, 0, 4, 4], [float('nan'), 1, 2, float('nan')], [4, 4]], 0, 'nan'))
    out.append(('point', 'float64', [[2.0 ** 32, 0.25], [2.0 ** 32 - 1, 0.25], [0.5, 0.5], [-3.0, 7.0]], 0,
                'far'))
    out.append(('point', 'float64', [[2.0 ** 53, 0.5], [-2.0 ** 53, 0.5], [0.5, 2.0 ** 60]], 0, 'far'))
    out.append(('point', 'float64', [[-1e30, 1e30], [1e30, -1e30], [1e300, 1e300], [0.25, 0.75]], 0, 'far'))
    out.append(('line', 'float64', [[-1e30, 0, 1e30, 1], [1e18, 1e18, 1e19, 1e19]], 0, 'far'))
    for kind in G.KINDS:
        for st in G.SUBTYPES:
            isint = st.startswith('int')
            for _ in range(nrand):
                n = rng.choice([1, 1, 2, 3, 4, 6, 9, 14])
                width = 1 << rng.randint(0, 5)
                height = 1 << rng.randint(0, 5)
                x0 = rng.randint(-8, 8)
                y0 = rng.randint(-8, 8)
                nan_p = 0.0 if isint else rng.choice([0, 0, 0.1])
                els = []
                for _ in range(n):
                    e = G.rand_element(rng, kind, lo=0, hi=max(width, height), nan_p=nan_p)
                    els.append(e)
                # clamp into the box by construction: regenerate coordinates per axis
                els = [fit(e, x0, y0, width, height) for e in els]
                tag = 'random'
                if rng.random() < 0.6:
                    els = els + frame_elements(kind, x0, y0, x0 + width, y0 + height)
                    rng.shuffle(els)
                    tag = 'framed'
                if not isint and st == 'float64' and rng.random() < 0.5:
                    f = rng.choice([0.5, 0.25, 0.125, 2.0, 1024.0, 2.0 ** -10])
                    els = [scale_el(e, f) for e in els]
                    tag += '-dyadic'
                elif st == 'float64' and rng.random() < 0.12:
                    els = [scale_el(e, 0.1) for e in els]   # not dyadic-friendly: outside the regime
                    tag += '-decimal'
                out.append((kind, st, els, rng.randint(0, 2), tag))
    # (b2) elements that are finite in ONE dimension only and are the extreme there
    #      (Point(nan, 8); a line whose x values are all non-finite): total_bounds counts their
    #      finite coordinate while a spatial index treats the row as all-NaN, so anything that
    #      takes the default extent from the index instead of the array shows here.
    nan = float('nan')
    out.append(('point', 'float64', [[0, 0], [4, 3], [nan, 8], None], 0, 'partial'))
    out.append(('point', 'float64', [[nan, -5], [1, 1], [2, 2]], 0, 'partial'))
    out.append(('point', 'float64', [[9, nan], [0, 0], [1, 1], [nan, nan]], 0, 'partial'))
    out.append(('line', 'float64', [[0, 0, 4, 3], [nan, 8, nan, 6], [1, 1, 2, nan]], 0, 'partial'))
    out.append(('multipoint', 'float64', [[0, 0, 4, 4], [float('inf'), 8, float('-inf'), 9]], 0, 'partial'))
    out.append(('polygon', 'float64', [[[0, 0, 4, 0, 4, 3, 0, 0]], [[nan, 8, nan, 9, nan, 8]]], 0, 'partial'))
    out.append(('multipolygon', 'float64', [[[[0, 0, 4, 0, 4, 4, 0, 0]]], [[[12, nan, 16, nan, 12, nan]]]], 0,
                'partial'))
    npart = 5 if tier == 'quick' else 60
    for kind in G.KINDS:
        for st in ('float64', 'float32'):
            for _ in range(npart):
                width, height = 1 << rng.randint(1, 4), 1 << rng.randint(1, 4)
                x0, y0 = rng.randint(-8, 8), rng.randint(-8, 8)
                els = [fit(G.rand_element(rng, kind, lo=0, hi=max(width, height), nan_p=0.0),
                           x0, y0, width, height) for _ in range(rng.choice([1, 2, 3, 6]))]
                for _ in range(rng.choice([1, 1, 2])):
                    axis = rng.randint(0, 1)                      # the axis that stays finite
                    beyond = rng.choice([-1, 1]) * rng.choice([1, 2, 4, 8])
                    far = (x0 + (width if beyond > 0 else 0) + beyond) if axis == 0 \
                        else (y0 + (height if beyond > 0 else 0) + beyond)
                    bad = rng.choice([nan, nan, float('inf'), float('-inf')])
                    pts = []
                    for k in range(3):
                        v = far + (k % 2) * (1 if beyond > 0 else -1)
                        pts += [v, bad] if axis == 0 else [bad, v]
                    els.append(partial_element(kind, pts))
                rng.shuffle(els)
                out.append((kind, st, els, rng.randint(0, 1), 'partial'))
    # (c) the same kind of data far from the origin: power-of-two extents 1, 2, 4, 8, ... at
    #     power-of-two offsets 2^10 .. 2^40 (both signs, both axes independently); projected
    #     coordinates with a large false easting look like this.  A relative-tolerance test of
    #     "zero extent" or any loss of translation invariance shows here and not near the origin.
    nofs = 6 if tier == 'quick' else 60
    for kind in G.KINDS:
        for st in G.SUBTYPES:
            kmax = {'float64': 40, 'int64': 40, 'int32': 29, 'float32': 20, 'int16': 13}[st]
            for it in range(nofs):
                kx = 10 + (it * 7 + rng.randint(0, 5)) % (kmax - 9)
                ky = rng.randint(10, kmax)
                if rng.random() < 0.25:
                    ky = 0 if rng.random() < 0.5 else kx      # one axis near the origin / same offset
                ox = rng.choice([1, -1]) * (1 << kx) + rng.choice([0, 0, 3, -5])
                oy = (rng.choice([1, -1]) * (1 << ky) + rng.choice([0, 0, 2, -7])) if ky else rng.randint(-4, 4)
                width = 1 << rng.choice([0, 1, 2, 2, 3, 4, 6])
                height = 1 << rng.choice([0, 1, 2, 2, 3, 4, 6])
                if st == 'int16':
                    width, height = min(width, 16), min(height, 16)
                n = rng.choice([1, 2, 3, 5, 8])
                els = [fit(G.rand_element(rng, kind, lo=0, hi=max(width, height), nan_p=0.0),
                           0, 0, width, height) for _ in range(n)]
                tag = 'offset'
                if rng.random() < 0.7:
                    els = els + frame_elements(kind, 0, 0, width, height)
                    rng.shuffle(els)
                    tag = 'offset-framed'
                if st == 'float64' and kx <= 36 and (ky <= 36) and rng.random() < 0.5:
                    f = rng.choice([0.5, 0.25, 0.125])
                    els = [scale_el(e, f) for e in els]
                    width, height = width * f, height * f
                    tag += '-dyadic'
                els = [translate_el(e, ox, oy) for e in els]
                out.append((kind, st, els, rng.randint(0, 1), tag, (ox, oy, width, height)))
    return out


def partial_element(kind, pts):
    """an element of the kind through the given interleaved points (3 of them)"""
    if kind == 'point':
        return pts[:2]
    if kind in ('multipoint', 'line'):
        return pts
    if kind == 'ring':
        return pts + pts[:2]
    if kind in ('multiline', 'polygon'):
        return [pts + pts[:2]]
    return [[pts + pts[:2]]]


def translate_el(el, dx, dy):
    """the element moved by (dx, dy); non-finite coordinates stay"""
    if el is None:
        return None
    if isinstance(el, list) and el and isinstance(el[0], list):
        return [translate_el(x, dx, dy) for x in el]
    out = []
    for i, v in enumerate(el):
        if isinstance(v, float) and not math.isfinite(v):
            out.append(v)
        else:
            out.append(v + (dx if i % 2 == 0 else dy))
    return out


def apply_derivation(arr, desc):
    for d in desc:
        if d[0] == 'slice':
            arr = arr[d[1]:d[2]]
        elif d[0] == 'take':
            arr = arr.take(np.array(d[1], dtype='int64'))
        elif d[0] == 'rotate':
            arr = type(arr)._concat_same_type([arr[d[1]:], arr[:d[1]]])
        elif d[0] == 'mask':
            arr = arr[np.array(d[1], dtype=bool)]
        elif d[0] == 'rev':
            arr = arr[::-1]
    return arr


def fit(el, x0, y0, w, h):
    """map generated coordinates (0..max(w,h)) into the box [x0,x0+w] x [y0,y0+h], keeping NaN/inf"""
    if el is None:
        return None
    if isinstance(el, list) and el and isinstance(el[0], list):
        return [fit(x, x0, y0, w, h) for x in el]
    out = []
    for i, v in enumerate(el):
        if isinstance(v, float) and not math.isfinite(v):
            out.append(v)
        elif i % 2 == 0:
            out.append(x0 + (v % (w + 1)))
        else:
            out.append(y0 + (v % (h + 1)))
    return out


def tb_variants(rng, arr, tag, frame=None):
    """(label, four floats or None for default)"""
    tb = [float(v) for v in arr.total_bounds]
    fin = all(math.isfinite(v) for v in tb)
    out = [('default', None)]
    if not fin:
        out.append(('own', tb))
        out.append(('pow2', [0.0, 0.0, 8.0, 8.0]))
        return out
    if tag == 'far':
        # fixed corpus: every listed order, no random choice
        return ([('unit', [0.0, 0.0, 1.0, 1.0], q) for q in (31, 10, 15, 1)] +
                [('pow2', [-4.0, -4.0, 4.0, 12.0], q) for q in (31, 10)] +
                [('default', None, q) for q in (31, 15)])
    x0, y0, x1, y1 = tb
    if tag.startswith('offset') and frame is not None:
        ox, oy, w, h = [float(v) for v in frame]
        out.append(('own', tb))
        out.append(('offset-frame', [ox, oy, ox + w, oy + h]))               # exactly the box
        out.append(('offset-inner', [ox + w / 2, oy, ox + w, oy + h / 2]))   # data partly outside
        out.append(('offset-wide', [ox - w, oy - 2 * h, ox + 3 * w, oy + 2 * h]))
        if rng.random() < 0.5:
            out.append(('offset-degenerate', [ox, oy, ox, oy + h]))
        return out
    out.append(('own', tb))
    kx, ky = rng.randint(-3, 8), rng.randint(-3, 8)
    ax, ay = math.floor(x0) - rng.randint(0, 3), math.floor(y0) - rng.randint(0, 3)
    out.append(('pow2', [float(ax), float(ay), ax + 2.0 ** kx, ay + 2.0 ** ky]))
    choice = rng.random()
    if choice < 0.25:
        out.append(('degenerate-x', [x0, float(ay), x0, ay + 2.0 ** ky]))
    elif choice < 0.5:
        out.append(('degenerate-y', [float(ax), y1, ax + 2.0 ** kx, y1]))
    elif choice < 0.65:
        out.append(('degenerate-xy', [x1, y0, x1, y0]))
    elif choice < 0.8:
        out.append(('reversed', [ax + 2.0 ** kx, float(ay), float(ax), ay + 2.0 ** ky]))
    elif choice < 0.9:
        out.append(('disjoint', [x1 + 1.0, y1 + 2.0, x1 + 1.0 + 2.0 ** kx, y1 + 2.0 + 2.0 ** ky]))
    else:
        out.append(('inexact', [x0 - 0.1, y0 - 0.3, x1 + 0.7, y1 + 0.9]))
    return out


# --------------------------------------------------------------------------
def run(rep):
    tier = getattr(rep, 'tier_run', rep.tier)
    rep.rule = ('arrays of all 7 kinds x 5 subtypes (integer / dyadic / decimal coordinates inside a box '
                'with power-of-two extents, optional frame element, missing / empty / NaN elements, 0-2 '
                'derivation steps) plus a fixed corpus (empty, all-missing, single point, horizontal, '
                'vertical, far outside: 2^32 @ p=31, 2^53, 1e30) plus arrays of every kind x subtype with '
                'power-of-two extents 1..64 at power-of-two offsets 2^10..2^40 (both signs, axes '
                'independent; total_bounds = own / exact frame / inner / wide / degenerate); every 6th call '
                'and every offset case is repeated on data + total_bounds translated by +-2^10..2^36 '
                '(identical distances required in the exact regime); arrays of every kind with elements finite '
                'in one dimension only that are the extreme there, and every 8th other array, go through index '
                'histories (fresh -> build_sindex with several page sizes / .sindex, array, GeoSeries, '
                'GeoDataFrame column: default-bounds distances unchanged and equal to total_bounds=own); every '
                '5th array and all special ones go through repeat-call histories on ONE object (call, modify the '
                'returned array in place, call again with the same / equal-valued other type / other p / other '
                'bounds; values = fresh array = model); '
                'total_bounds default / own / power-of-two '
                'box / degenerate in x, y, both / reversed / disjoint / inexact, passed as ' +
                ', '.join(SEQ_FORMS) + '; p in 1..31 (seeded, every value used); one evaluation = one '
                'hilbert_distance call; non-trivial = at least one row answered by the model '
                '(exact regime); distinct = distinct (kind, subtype, bounds, total_bounds form+values, p)')
    rng = rep.rng
    cases, results, metas = [], [], []
    pcycle = 0
    from spatialpandas import GeoSeries
    for item in gen_arrays(rep, tier):
        kind, st, els, nder, tag = item[:5]
        frame = item[5] if len(item) > 5 else None
        try:
            arr = G.make_array(kind, els, st)
        except Exception as e:
            rep.count('construct_error:' + type(e).__name__)
            continue
        arr, desc = G.derive(rng, arr, nder)
        try:
            bounds = np.asarray(arr.bounds, dtype='float64').reshape(-1, 4).tolist()
            total = [float(v) for v in arr.total_bounds]
        except Exception as e:
            rep.count('bounds_error:' + type(e).__name__)
            continue
        rep.count(kind)
        nhist = rep.hist.get('arrays_seen', 0)
        rep.count('arrays_seen')
        if tag == 'partial' or tag in ('nan', 'far', 'single-point') or nhist % 8 == 0:
            sindex_history(rep, rng, {'kind': kind, 'subtype': st, 'elements': els, 'derivation': desc,
                                      'tb_label': 'default', 'tb_form': None, 'tb_values': None}, arr)
        if tag in ('partial', 'nan', 'single-point') or tag.startswith('offset') or nhist % 5 == 0:
            def sink(ent, m):
                cases.append(ent[0]); results.append(ent[1]); metas.append(m)
            hmeta = {'kind': kind, 'subtype': st, 'elements': els, 'derivation': desc}
            rp_ = rng.choice([1, 3, 8, 10, 15, 21, 31])
            repeat_call_history(rep, rng, {**hmeta, 'tb_label': 'default', 'tb_form': None, 'tb_values': None},
                                arr, bounds, total, None, rp_, sink)
            if all(math.isfinite(v) for v in total):
                bx = [math.floor(total[0]) - 1.0, math.floor(total[1]), math.floor(total[0]) + 15.0,
                      math.floor(total[1]) + 8.0]
                repeat_call_history(rep, rng, {**hmeta, 'tb_label': 'pow2', 'tb_form': 'tuple', 'tb_values': bx},
                                    arr, bounds, total, bx, rp_, sink)
        for variant in tb_variants(rng, arr, tag, frame):
            label, vals = variant[0], variant[1]
            pcycle += 1
            p = (pcycle % 31) + 1 if rng.random() < 0.7 else rng.choice([1, 2, 10, 15, 30, 31])
            if len(variant) > 2:
                p = variant[2]
            forms = [None] if vals is None else [rng.choice(SEQ_FORMS)]
            if vals is not None and rng.random() < 0.3:
                forms = SEQ_FORMS
            if tag == 'far':
                forms = [None] if vals is None else ['tuple', 'list']
            first = None
            for form in forms:
                tbobj = None if vals is None else make_seq(form, vals)
                if vals is not None and tbobj is None:
                    continue
                meta = {'kind': kind, 'subtype': st, 'elements': els, 'derivation': desc, 'tb_label': label,
                        'tb_form': form, 'tb_values': vals, 'p': p}
                res, exc, unchanged = call_impl(arr, tbobj, p)
                rep.evaluations += 1
                rep.count('tb:' + label)
                rep.count('form:' + str(form))
                rep.count(f'p={p}')
                if not unchanged:
                    rep.violation('argument-modified', 'hilbert_distance modified the caller\'s total_bounds',
                                  {**meta, 'after': repr(tbobj)})
                if exc is not None:
                    rep.violation(f'raises:{exc}', f'hilbert_distance raised {exc}', meta)
                    continue
                if first is None:
                    first = res
                elif res != first:
                    rep.violation('sequence-type-matters',
                                  'the result depends on the sequence type of total_bounds',
                                  {**meta, 'impl': res, 'other_form_result': first})
                # ---- direct checks of the statement
                tbvals = effective_tb(arr, tbobj)
                if len(res) != len(bounds) or any(not 0 <= d < (1 << (2 * p)) for d in res):
                    rep.violation('range', 'hilbert distance outside [0, 4^p) or wrong length',
                                  {**meta, 'impl': res})
                    continue
                s = case_scale(bounds, [v for v in tbvals if math.isfinite(v)] + total)
                mask = regime_mask(bounds, tbvals, s) if s <= MAX_SCALE_BITS else [False] * len(bounds)
                check_cells(rep, meta, bounds, tbvals, p, res, tag, mask)
                if rep.evaluations % 9 == 0:
                    invariance(rep, rng, meta, arr, tbobj, vals, p, res)
                if rep.evaluations % 23 == 0:
                    series_agrees(rep, meta, arr, tbobj, p, res)
                if tag.startswith('offset') or rep.evaluations % 6 == 0:
                    translation(rep, rng, meta, kind, st, els, desc, bounds, tbobj, vals, p, res, mask)
                # ---- the model
                if s > MAX_SCALE_BITS:
                    rep.count('scale_too_fine_not_modelled')
                    continue
                if any(mask):
                    rep.nontrivial((kind, st, repr(bounds), label, form, repr(vals), p))
                    rep.count('rows_modelled', sum(mask))
                    if rep.evaluations % 5 == 0:
                        check_floats_exact(rep, meta, bounds, tbvals, p, mask)
                rep.count('rows_not_modelled', len(mask) - sum(mask))
                cases.append(model_case(arr, bounds, total, tbobj, p, s))
                results.append((C.Rec('Returned', [C.Some(U.NN(d)) if m else None
                                                   for d, m in zip(res, mask)]),
                                seq_term(tbobj, s)))
                metas.append({**meta, 'impl': res, 'modelled_rows': mask})
                rep.sample({**meta, 'impl': res}, cap=4)
    short_sequences(rep, cases, results, metas)
    bad = C.coq_mismatches(IMPORTS, FN, CASE_TY, RES_TY, cases, results, shard=120)
    for i in bad[:10]:
        model = C.coq_eval(IMPORTS, f'({FN}) {C.coq(cases[i])}')
        rep.violation('hilbert-distance-differs:' + metas[i]['tb_label'],
                      'hilbert_distance (rows in the exact regime / caller\'s sequence afterwards) differs '
                      'from the proven model', {**metas[i], 'model': model})
    rep.extra['p_values_used'] = sorted(int(k[2:]) for k in rep.hist if k.startswith('p='))
    # ---- the bit-exact binary64 model on arbitrary float64 inputs (harness/c08_float.py)
    try:
        from . import c08_float
        c08_float.run_float_d2c(rep)
    except C.ModelUnavailable:
        raise
    except Exception as e:
        import traceback
        rep.violation('harness-error:float-d2c', 'the bit-exact float check crashed: ' +
                      traceback.format_exc()[-1500:], {'float_d2c': True, 'error': repr(e)})


def short_sequences(rep, cases, results, metas):
    """fewer than four entries is invalid input outside the property's scope: which exception is
    raised (IndexError today; the model says Raised "IndexError") is only counted"""
    arr = G.make_array('point', [[1, 2], [3, 4]], 'float64')
    for obj in ([], [0.0, 0.0, 1.0], (0.0,), np.array([0.0, 1.0])):
        res, exc, unchanged = call_impl(arr, obj, 4)
        rep.evaluations += 1
        rep.count(f'optional:short_total_bounds:{exc or "accepted"}')
        if not unchanged:
            rep.violation('argument-modified', 'hilbert_distance modified the caller\'s total_bounds',
                          {'kind': 'point', 'subtype': 'float64', 'elements': [[1, 2], [3, 4]],
                           'derivation': [], 'tb_label': 'short', 'tb_form': type(obj).__name__,
                           'tb_values': [float(v) for v in obj], 'p': 4, 'after': repr(obj)})


def check_cells(rep, meta, bounds, tbvals, p, res, tag, mask):
    """every finite row decodes to the cell of the exact bbox centre (clamped to the border)"""
    cells = exact_cells(bounds, tbvals, p, mask)
    n = 1 << p
    for i, (c, d) in enumerate(zip(cells, res)):
        if c is None:
            continue
        cell, safe = c
        got = U.hilbert_ref(p, d)
        if got == cell:
            rep.count('cell_checked')
            row = bounds[i]
            mid = [(Fraction(row[k]) + Fraction(row[k + 2])) / 2 for k in (0, 1)]
            t = tbvals
            if any(not (min(Fraction(t[k]), Fraction(t[k + 2])) <= mid[k] <= max(Fraction(t[k]), Fraction(t[k + 2])))
                   for k in (0, 1)):
                rep.count('cell_outside_clamped')
                if tag == 'far':
                    rep.count('cell_far_outside')
            elif any(cell[k] == n - 1 and mid[k] == Fraction(max(t[k], t[k + 2])) for k in (0, 1)):
                rep.count('cell_upper_edge')
        elif safe:
            rep.violation('cell-differs', 'the hilbert distance does not decode to the grid cell containing '
                                          'the bbox centre (clamped to the border cells)',
                          {**meta, 'row': i, 'bounds_row': bounds[i], 'impl_distance': d,
                           'impl_cell': got, 'expected_cell': cell})
            return
        else:
            rep.count('cell_boundary_rounding_not_compared')


def check_floats_exact(rep, meta, bounds, tbvals, p, mask):
    t = [float(v) for v in tbvals[:4]]
    for k in (0, 1):
        if t[k] == t[k + 2]:
            t[k + 2] += 1.0
    for row, m in zip(bounds, mask):
        if m and not floats_exact(row, t, p):
            rep.violation('regime:inexact', 'a binary64 operation was inexact inside the declared exact regime '
                                            '(the model would not be the code there)',
                          {**meta, 'bounds_row': row})
            return
        if m:
            rep.count('float_ops_exact_rows')


def invariance(rep, rng, meta, arr, tbobj, vals, p, res):
    """the value of a row depends only on the row and (total_bounds, p)"""
    n = len(arr)
    if n == 0:
        return
    if tbobj is None:
        # default = the array's own total bounds given explicitly
        r2, exc, _ = call_impl(arr, tuple(arr.total_bounds), p)
        if r2 != res:
            rep.violation('default-bounds', 'default total_bounds differs from passing the array\'s own',
                          {**meta, 'impl': res, 'explicit': r2 if exc is None else exc})
        tbobj = tuple(arr.total_bounds)
    rep.count('invariance_checked')

    def hd(a):
        r, exc, _ = call_impl(a, copy.deepcopy(tbobj), p)
        return r if exc is None else exc
    # permutation
    perm = list(range(n))
    rng.shuffle(perm)
    r = hd(arr.take(np.array(perm, dtype='int64')))
    if r != [res[i] for i in perm]:
        rep.violation('invariance:permutation', 'the value of a row changed when the rows were permuted',
                      {**meta, 'perm': perm, 'impl': res, 'permuted': r})
    # slicing
    a, b = sorted((rng.randint(0, n), rng.randint(0, n)))
    r = hd(arr[a:b])
    if r != res[a:b]:
        rep.violation('invariance:slice', 'the value of a row changed when the array was sliced',
                      {**meta, 'slice': [a, b], 'impl': res, 'sliced': r})
    # each row alone
    for i in ([rng.randrange(n)] if n > 3 else range(n)):
        r = hd(arr[i:i + 1])
        if r != res[i:i + 1]:
            rep.violation('invariance:single', 'a row alone gets a different value',
                          {**meta, 'row': i, 'impl': res, 'alone': r})
    # appended rows (including a missing one)
    extra = arr.take(np.array([rng.randrange(n), -1], dtype='int64'), allow_fill=True)
    r = hd(type(arr)._concat_same_type([arr, extra]))
    if not isinstance(r, list) or r[:n] != res:
        rep.violation('invariance:append', 'appending rows changed the values of the existing rows',
                      {**meta, 'impl': res, 'appended': r})
    # dask-style partitioning: each chunk with the same total_bounds
    k = rng.randint(1, min(n, 4))
    cuts = sorted(rng.sample(range(1, n), k - 1)) if n > 1 else []
    parts, lo = [], 0
    for c in cuts + [n]:
        parts.append(arr[lo:c])
        lo = c
    r = []
    for part in parts:
        x = hd(part)
        r = r + x if isinstance(x, list) else [x]
    if r != res:
        rep.violation('invariance:partition', 'per-partition values differ from the whole array\'s',
                      {**meta, 'cuts': cuts, 'impl': res, 'partitioned': r})


def translation(rep, rng, meta, kind, st, els, desc, bounds, tbobj, vals, p, res, mask):
    """the same data moved by a large exactly representable offset, together with its total_bounds,
    gets identical distances (rows in the exact regime before and after the move)"""
    kmax = {'float64': 36, 'int64': 36, 'int32': 28, 'float32': 18, 'int16': 12}[st]
    dx = rng.choice([1, -1]) * (1 << rng.randint(10, kmax))
    dy = rng.choice([1, -1]) * (1 << rng.randint(10, kmax)) if rng.random() < 0.8 else 0
    try:
        moved = apply_derivation(G.make_array(kind, [translate_el(e, dx, dy) for e in els], st), desc)
        mb = np.asarray(moved.bounds, dtype='float64').reshape(-1, 4).tolist()
    except Exception:
        rep.count('translation_not_representable')
        return
    # the move must be exact on every finite bound (else the subtype cannot hold the moved data)
    for r0, r1 in zip(bounds, mb):
        for k, (a, b) in enumerate(zip(r0, r1)):
            if math.isfinite(a) != math.isfinite(b) or \
                    (math.isfinite(a) and Fraction(b) != Fraction(a) + (dx if k % 2 == 0 else dy)):
                rep.count('translation_not_representable')
                return
    if vals is None:
        mobj, mvals = None, None
    elif not all(math.isfinite(v) for v in vals):
        rep.count('translation_not_representable')
        return
    else:
        mvals = [vals[0] + dx, vals[1] + dy, vals[2] + dx, vals[3] + dy]
        if any(Fraction(m) != Fraction(v) + (dx if k % 2 == 0 else dy)
               for k, (v, m) in enumerate(zip(vals, mvals))):
            rep.count('translation_not_representable')
            return
        mobj = tuple(mvals)
    r2, exc, _ = call_impl(moved, mobj, p)
    rep.evaluations += 1
    if exc is not None:
        rep.violation(f'raises:{exc}', f'hilbert_distance raised {exc} on translated data',
                      {**meta, 'translation': [dx, dy]})
        return
    mtb = effective_tb(moved, mobj)
    s2 = case_scale(mb, [v for v in mtb if math.isfinite(v)])
    mask2 = regime_mask(mb, mtb, s2) if s2 <= MAX_SCALE_BITS else [False] * len(mb)
    both = [i for i in range(len(res)) if i < len(r2) and mask[i] and mask2[i]]
    rep.count('translation_rows_compared', len(both))
    if len(r2) != len(res) or any(res[i] != r2[i] for i in both):
        i = next((i for i in both if res[i] != r2[i]), 0)
        rep.violation('invariance:translation',
                      'moving the data and total_bounds by the same exactly representable offset '
                      'changed a hilbert distance (exact regime)',
                      {**meta, 'translation': [dx, dy], 'row': i, 'impl': res, 'translated': r2})


def sindex_history(rep, rng, meta, arr, p=None):
    """default-bounds distances do not depend on whether (and how) a spatial index was built:
    fresh array, then build_sindex with several page sizes / .sindex, through the array, a GeoSeries
    and a GeoDataFrame column; always equal to the explicit total_bounds=arr.total_bounds call"""
    from spatialpandas import GeoSeries, GeoDataFrame
    if len(arr) == 0:
        return
    p = p or rng.choice([1, 2, 4, 7, 10, 15, 20, 31])
    meta = {**meta, 'p': p}

    def fresh():
        a = type(arr)(arr.data, dtype=arr.dtype)
        return a

    def hd(obj, **kw):
        try:
            return [int(x) for x in np.asarray(obj.hilbert_distance(p=p, **kw)).tolist()]
        except Exception as e:
            return 'raised ' + type(e).__name__

    a0 = fresh()
    if getattr(a0, '_sindex', None) is not None:
        rep.count('fresh_array_has_index')
    base = hd(a0)
    explicit = hd(a0, total_bounds=tuple(a0.total_bounds))
    rep.evaluations += 2
    rep.count('sindex_histories')
    if base != explicit:
        rep.violation('default-bounds', 'default total_bounds differs from passing the array\'s own',
                      {**meta, 'impl': base, 'explicit': explicit})
        return
    steps = [('array.build_sindex()', {}), ('array.build_sindex(page_size=2)', {'page_size': 2}),
             ('array.build_sindex(page_size=3)', {'page_size': 3}),
             ('array.build_sindex(page_size=16, p=4)', {'page_size': 16, 'p': 4}), ('array.sindex', None)]
    for name, kw in steps:
        a = fresh()
        before = hd(a)
        try:
            if kw is None:
                a.sindex
            else:
                a.build_sindex(**kw)
        except Exception as e:      # building the index is C03's business
            rep.count('build_sindex_raised:' + type(e).__name__)
            continue
        after = hd(a)
        after_explicit = hd(a, total_bounds=tuple(a.total_bounds))
        rep.evaluations += 3
        if getattr(a, '_sindex', 1) is None:
            rep.count('index_not_kept')
        if not (before == base and after == base and after_explicit == base):
            rep.violation('index-dependence', f'hilbert_distance with default total_bounds changes after {name} '
                                              '(the extent must come from the array, not from the index)',
                          {**meta, 'history': name, 'before_index': before, 'after_index': after,
                           'explicit_own_bounds': after_explicit})
            return
    # GeoSeries and GeoDataFrame column with a built index
    try:
        s = GeoSeries(fresh(), index=list(range(3, 3 + len(arr))))
        s1 = hd(s)
        s.build_sindex(page_size=rng.choice([2, 5, 512]))
        s2 = hd(s)
        df = GeoDataFrame({'geometry': GeoSeries(fresh()), 'v': list(range(len(arr)))})
        d1 = hd(df.geometry)
        df.build_sindex(page_size=rng.choice([2, 5, 512]))
        d2 = hd(df.geometry)
        d3 = hd(df['geometry'])
        d4 = hd(df.geometry.array)
    except Exception as e:
        rep.count('frame_history_raised:' + type(e).__name__)
        return
    rep.evaluations += 6
    if not (s1 == base and s2 == base and d1 == base and d2 == base and d3 == base and d4 == base):
        rep.violation('index-dependence', 'GeoSeries / GeoDataFrame column: hilbert_distance with default '
                                          'total_bounds changes once the spatial index is built',
                      {**meta, 'history': 'series/frame build_sindex', 'array': base, 'series_before': s1,
                       'series_after': s2, 'frame_before': d1, 'frame_after': d2})


def model_entry(arr, bounds, total, tbobj, p, res):
    """(case, expected result) for the kernel comparison of one call, or None when not modelled"""
    tbvals = effective_tb(arr, tbobj)
    s = case_scale(bounds, [v for v in tbvals if math.isfinite(v)] + total)
    if s > MAX_SCALE_BITS or len(res) != len(bounds) or any(d < 0 for d in res):
        return None
    mask = regime_mask(bounds, tbvals, s)
    return (model_case(arr, bounds, total, tbobj, p, s),
            (C.Rec('Returned', [C.Some(U.NN(d)) if m else None for d, m in zip(res, mask)]),
             seq_term(tbobj, s)))


def repeat_call_history(rep, rng, meta, arr, bounds, total, vals, p, sink=None):
    """repeated requests on ONE array object: call, keep the result, modify it in place, call again
    with the same / an equal-valued but differently typed / a different (total_bounds, p).  Every
    answer must have the values a fresh array gives (and the model's, via sink); whether successive
    results share memory is only counted."""
    from spatialpandas import GeoSeries
    if len(arr) == 0:
        return
    meta = {**meta, 'p': p, 'history': 'repeat'}

    def fresh():
        return type(arr)(arr.data, dtype=arr.dtype)

    def forms_of(v):
        if v is None:
            return [None, tuple(float(x) for x in fresh().total_bounds)]
        out = [make_seq(f, v) for f in ('tuple', 'list', 'ndarray', 'intlist', 'npscalars')]
        return [o for o in out if o is not None]

    def expect(tb, q):
        r, exc, _ = call_impl(fresh(), copy.deepcopy(tb), q)
        return r if exc is None else 'raised ' + exc

    def spoil(r):
        """modify a returned array in place"""
        if not isinstance(r, np.ndarray) or not r.flags.writeable or len(r) == 0:
            rep.count('optional:result_not_modifiable')
            return 'none'
        how = rng.choice(['sort', 'floordiv', 'fill', 'reverse', 'add'])
        if how == 'sort':
            r.sort()
        elif how == 'floordiv':
            r //= 4
        elif how == 'fill':
            r[:] = -1
        elif how == 'reverse':
            r[:] = r[::-1].copy()
        else:
            r += 1
        return how

    a = fresh()
    same_forms = forms_of(vals)
    other_p = p + 1 if p < 31 else p - 1
    tb_fin = [float(x) for x in arr.total_bounds]
    other_vals = [tb_fin[0] - 1.0, tb_fin[1], tb_fin[2] + 3.0, tb_fin[3] + 1.0] \
        if all(math.isfinite(x) for x in tb_fin) else [0.0, 0.0, 8.0, 8.0]
    want = expect(same_forms[0], p)
    if isinstance(want, str):
        return
    script = [('first', same_forms[0], p)]
    script += [('same', same_forms[0], p)]
    script += [('equal-other-type', f, p) for f in same_forms[1:]]
    script += [('other-p', same_forms[0], other_p), ('same-again', same_forms[0], p),
               ('other-bounds', tuple(other_vals), p), ('same-after-other-bounds', same_forms[-1], p)]
    rep.count('repeat_histories')
    prev, prev_arr = None, None
    for step, tb, q in script:
        try:
            r = a.hilbert_distance(total_bounds=tb, p=q)
        except Exception as e:
            rep.violation(f'raises:{type(e).__name__}', f'hilbert_distance raised {type(e).__name__} on a '
                                                         f'repeated call ({step})', {**meta, 'step': step})
            return
        rep.evaluations += 1
        got = [int(x) for x in np.asarray(r).tolist()]
        exp = want if (q == p and step != 'other-bounds') else expect(tb, q)
        if got != exp:
            rep.violation('repeat-call', f'a repeated hilbert_distance call on the same array object returns '
                                         f'wrong values (step {step!r} after the previous result was modified '
                                         'in place)',
                          {**meta, 'step': step, 'tb_values': vals, 'impl': got, 'fresh_array': exp,
                           'previous_result_modified_by': prev})
            return
        if sink is not None and step in ('same', 'same-again', 'same-after-other-bounds', 'equal-other-type'):
            ent = model_entry(a, bounds, total, tb, q, got)
            if ent is not None:
                sink(ent, {**meta, 'step': step, 'tb_label': 'repeat:' + step,
                           'tb_form': type(tb).__name__, 'impl': got})
        if isinstance(r, np.ndarray) and prev_arr is not None and np.shares_memory(r, prev_arr):
            rep.count('optional:successive_results_share_memory')
        prev = spoil(r)
        prev_arr = r if isinstance(r, np.ndarray) else None
    # the same through one GeoSeries object
    s = GeoSeries(fresh())
    for step in ('series-first', 'series-same'):
        try:
            r = s.hilbert_distance(total_bounds=same_forms[0], p=p)
        except Exception as e:
            rep.violation(f'raises:{type(e).__name__}', 'GeoSeries.hilbert_distance raised on a repeated call',
                          {**meta, 'step': step})
            return
        rep.evaluations += 1
        got = [int(x) for x in r.values.tolist()]
        if got != want:
            rep.violation('repeat-call', f'a repeated GeoSeries.hilbert_distance call returns wrong values ({step})',
                          {**meta, 'step': step, 'impl': got, 'fresh_array': want})
            return
        v = r.values
        if isinstance(v, np.ndarray) and v.flags.writeable and len(v):
            v[:] = -7


def series_agrees(rep, meta, arr, tbobj, p, res):
    from spatialpandas import GeoSeries
    r, exc, unchanged = call_impl(arr, tbobj, p, via='series')
    rep.count('series_checked')
    if r != res or not unchanged:
        rep.violation('series-differs', 'GeoSeries.hilbert_distance differs from the array\'s',
                      {**meta, 'impl': res, 'series': r if exc is None else exc})
    # defaults: p = 15 for the series, p = 10 for the array
    if tbobj is None and len(arr):
        try:
            d15 = [int(x) for x in GeoSeries(arr).hilbert_distance().values]
            a15 = [int(x) for x in arr.hilbert_distance(p=15)]
            a10 = [int(x) for x in arr.hilbert_distance()]
            b10 = [int(x) for x in arr.hilbert_distance(p=10)]
            idx = list(GeoSeries(arr, index=list(range(5, 5 + len(arr)))).hilbert_distance().index)
        except Exception as e:
            rep.violation('raises:' + type(e).__name__, 'default-argument call raised', meta)
            return
        if d15 != a15 or a10 != b10 or idx != list(range(5, 5 + len(arr))):
            rep.violation('defaults', 'default p (15 for GeoSeries, 10 for arrays) or the index is not honoured',
                          {**meta, 'series_default': d15, 'array_p15': a15})


def replay(rep, rp):
    if rp.get('float_d2c'):
        from . import c08_float
        return c08_float.replay(rep, rp)

    def un(e):
        if isinstance(e, list):
            return [un(x) for x in e]
        if isinstance(e, str):
            return float(e)
        return e
    kind, st = rp['kind'], rp['subtype']
    els = un(rp['elements'])
    desc = rp.get('derivation', [])
    arr = apply_derivation(G.make_array(kind, els, st), desc)
    p = int(rp['p'])
    vals = un(rp['tb_values']) if rp.get('tb_values') is not None else None
    form = rp.get('tb_form')
    if vals is None:
        tbobj = None
    elif rp.get('tb_label') == 'short':
        tbobj = list(vals)
    else:
        tbobj = make_seq(form, vals)
    res, exc, unchanged = call_impl(arr, tbobj, p)
    print('impl :', res if exc is None else 'raised ' + exc, '| argument unchanged:', unchanged)
    if exc is not None and rp.get('tb_label') != 'short':
        return False
    bounds = np.asarray(arr.bounds, dtype='float64').reshape(-1, 4).tolist()
    total = [float(v) for v in arr.total_bounds]
    ok = unchanged
    before = len(rep.violations)
    if exc is None:
        tbvals = effective_tb(arr, tbobj)
        if len(res) != len(bounds) or any(not 0 <= d < (1 << (2 * p)) for d in res):
            print('range violated')
            return False
        meta = {k: rp.get(k) for k in ('kind', 'subtype', 'elements', 'derivation', 'tb_label', 'tb_form',
                                       'tb_values', 'p')}
        s = case_scale(bounds, [v for v in tbvals if math.isfinite(v)] + total)
        mask = regime_mask(bounds, tbvals, s) if s <= MAX_SCALE_BITS else [False] * len(bounds)
        check_cells(rep, meta, bounds, tbvals, p, res, 'replay', mask)
        invariance(rep, rep.rng, meta, arr, tbobj, vals, p, res)
        series_agrees(rep, meta, arr, tbobj, p, res)
        if tbobj is None:
            sindex_history(rep, rep.rng, meta, arr, p)
        for _ in range(3):
            repeat_call_history(rep, rep.rng, meta, arr, bounds, total, vals, p)
        for _ in range(6):
            translation(rep, rep.rng, meta, kind, st, els, desc, bounds, tbobj, vals, p, res, mask)
        for f in SEQ_FORMS:
            o = make_seq(f, vals) if vals is not None else None
            if o is not None:
                r2, e2, u2 = call_impl(arr, o, p)
                if r2 != res or not u2:
                    print(f'form {f}: result {r2 if e2 is None else e2}, unchanged {u2}')
                    ok = False
        expect = (C.Rec('Returned', [C.Some(U.NN(d)) if m else None for d, m in zip(res, mask)]),
                  seq_term(tbobj, s))
    else:
        s = 1
        expect = (C.Rec('Raised', exc), seq_term(tbobj, s))
    for v in rep.violations[before:]:
        print('direct check fails:', v['signature'], '-', v['what'])
        ok = False
    if s <= MAX_SCALE_BITS:
        case = model_case(arr, bounds, total, tbobj, p, s)
        bad = C.coq_mismatches(IMPORTS, FN, CASE_TY, RES_TY, [case], [expect])
        print('model:', C.coq_eval(IMPORTS, f'({FN}) {C.coq(case)}'))
        ok = ok and not bad
    return ok
